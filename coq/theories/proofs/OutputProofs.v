From Coq Require Import List NArith ZArith Bool Lia.
Import ListNotations.
From Mos Require Import model.Output spec.Layout.
Open Scope Z_scope.

(* ---------- list lemmas ---------- *)
Lemma nth_repeat_any (x d : N) n i : (i < n)%nat -> nth i (repeat x n) d = x.
Proof. revert i; induction n as [|n IH]; intros [|i] H; cbn; try lia; auto. apply IH; lia. Qed.

Lemma nth_skipn_add (l : list N) n i d : nth i (skipn n l) d = nth (n + i) l d.
Proof. revert l; induction n as [|n IH]; intros [|x l]; cbn; auto. destruct i; reflexivity. Qed.

Lemma nth_firstn_lt (l : list N) n i d : (i < n)%nat -> nth i (firstn n l) d = nth i l d.
Proof. revert l i; induction n as [|n IH]; intros [|x l] [|i] H; cbn; try lia; auto. apply IH; lia. Qed.

Lemma splice_length d off new : (off + length new <= length d)%nat -> length (splice d off new) = length d.
Proof.
  intros H. unfold splice. rewrite !app_length, firstn_length, skipn_length. lia.
Qed.

Lemma nth_splice d off new i x : (off + length new <= length d)%nat ->
  nth i (splice d off new) x =
  if (off <=? i)%nat && (i <? off + length new)%nat then nth (i - off) new x else nth i d x.
Proof.
  intros H. unfold splice.
  destruct (off <=? i)%nat eqn:A; cbn [andb].
  - apply Nat.leb_le in A.
    rewrite app_nth2 by (rewrite firstn_length; lia).
    rewrite firstn_length, Nat.min_l by lia.
    destruct (i <? off + length new)%nat eqn:B.
    + apply Nat.ltb_lt in B. rewrite app_nth1 by lia. reflexivity.
    + apply Nat.ltb_ge in B. rewrite app_nth2 by lia.
      rewrite nth_skipn_add. f_equal. lia.
  - apply Nat.leb_gt in A. rewrite app_nth1 by (rewrite firstn_length; lia).
    apply nth_firstn_lt. lia.
Qed.

(* ---------- one merge step ---------- *)
Definition bank_byte (fill : N) (b : bank) (a : Z) : N :=
  if (k_lo b <=? a) && (a <? k_hi b) then nth (Z.to_nat (a - k_lo b)) (k_data b) 0%N else fill.

Definition wf (b : bank) : Prop :=
  k_hi b <= k_lo b \/ (k_lo b < k_hi b /\ Z.of_nat (length (k_data b)) = k_hi b - k_lo b).

Definition seg_byte (s : segment) (a : Z) : N := nth (Z.to_nat (a - s_start s)) (s_data s) 0%N.

Lemma s_end_gt s : nonempty s -> s_start s < s_end s.
Proof. unfold nonempty, s_end. destruct (s_data s); [congruence|]. cbn [length]. lia. Qed.

Lemma merge_step fill b s :
  wf b -> nonempty s ->
  let b' := merge fill b s in
  (k_lo b' < k_hi b' /\ Z.of_nat (length (k_data b')) = k_hi b' - k_lo b') /\
  k_lo b' = (if k_hi b <=? k_lo b then s_start s else Z.min (k_lo b) (s_start s)) /\
  k_hi b' = (if k_hi b <=? k_lo b then s_end s else Z.max (k_hi b) (s_end s)) /\
  forall a, bank_byte fill b' a = if covers s a then seg_byte s a else bank_byte fill b a.
Proof.
  intros Hwf Hne. pose proof (s_end_gt s Hne) as Hlt. unfold merge.
  destruct (k_hi b <=? k_lo b) eqn:E.
  - (* empty bank: the image is the segment *)
    cbn zeta. cbn [k_lo k_hi k_data].
    assert (Hl : (0 + length (s_data s) <= length (repeat fill (length (s_data s))))%nat) by (rewrite repeat_length; lia).
    repeat split.
    + exact Hlt.
    + rewrite splice_length by exact Hl. rewrite repeat_length. unfold s_end. lia.
    + intros a. unfold bank_byte, covers. cbn [k_lo k_hi k_data].
      assert (Hb : (k_lo b <=? a) && (a <? k_hi b) = false) by lia. rewrite Hb.
      destruct ((s_start s <=? a) && (a <? s_end s)) eqn:C; [|reflexivity].
      rewrite nth_splice by exact Hl. unfold s_end in C.
      assert (Hi : (0 <=? Z.to_nat (a - s_start s))%nat && (Z.to_nat (a - s_start s) <? 0 + length (s_data s))%nat = true).
      { apply andb_true_intro; split; [apply Nat.leb_le; lia | apply Nat.ltb_lt; lia]. }
      rewrite Hi. unfold seg_byte. f_equal. lia.
  - destruct Hwf as [Hwf | [Hlo Hlen]]; [lia|].
    cbn zeta. cbn [k_lo k_hi k_data].
    set (nlo := Z.min (k_lo b) (s_start s)). set (nhi := Z.max (k_hi b) (s_end s)).
    set (pre := Z.to_nat (k_lo b - nlo)). set (post := Z.to_nat (nhi - k_hi b)).
    set (data := repeat fill pre ++ k_data b ++ repeat fill post).
    assert (Hdl : Z.of_nat (length data) = nhi - nlo).
    { unfold data. rewrite !app_length, !repeat_length. unfold pre, post, nlo, nhi. lia. }
    assert (Hl : (Z.to_nat (s_start s - nlo) + length (s_data s) <= length data)%nat).
    { unfold s_end in *. unfold nlo, nhi in *. lia. }
    repeat split.
    + unfold nlo, nhi. lia.
    + rewrite splice_length by exact Hl. exact Hdl.
    + intros a. unfold bank_byte at 1. cbn [k_lo k_hi k_data].
      destruct ((nlo <=? a) && (a <? nhi)) eqn:R.
      * rewrite nth_splice by exact Hl.
        unfold covers.
        destruct ((s_start s <=? a) && (a <? s_end s)) eqn:C.
        -- assert (Hi : (Z.to_nat (s_start s - nlo) <=? Z.to_nat (a - nlo))%nat &&
                        (Z.to_nat (a - nlo) <? Z.to_nat (s_start s - nlo) + length (s_data s))%nat = true).
           { unfold s_end in C. apply andb_true_intro; split; [apply Nat.leb_le | apply Nat.ltb_lt]; unfold nlo in *; lia. }
           rewrite Hi. unfold seg_byte. f_equal. unfold nlo in *. lia.
        -- assert (Hi : (Z.to_nat (s_start s - nlo) <=? Z.to_nat (a - nlo))%nat &&
                        (Z.to_nat (a - nlo) <? Z.to_nat (s_start s - nlo) + length (s_data s))%nat = false).
           { unfold s_end in C. apply andb_false_iff. apply andb_false_iff in C as [C|C];
               [left; apply Nat.leb_gt | right; apply Nat.ltb_ge]; unfold nlo in *; lia. }
           rewrite Hi. unfold bank_byte, data.
           destruct ((k_lo b <=? a) && (a <? k_hi b)) eqn:O.
           ++ rewrite app_nth2 by (rewrite repeat_length; unfold pre, nlo in *; lia).
              rewrite repeat_length. rewrite app_nth1 by (unfold pre, nlo in *; lia).
              f_equal. unfold pre, nlo in *. lia.
           ++ destruct (a <? k_lo b) eqn:L.
              ** rewrite app_nth1 by (rewrite repeat_length; unfold pre, nlo in *; lia).
                 apply nth_repeat_any. unfold pre, nlo in *. lia.
              ** rewrite app_nth2 by (rewrite repeat_length; unfold pre, nlo in *; lia).
                 rewrite repeat_length. rewrite app_nth2 by (unfold pre, nlo in *; lia).
                 apply nth_repeat_any. unfold pre, post, nlo, nhi in *. lia.
      * unfold covers. assert (C : (s_start s <=? a) && (a <? s_end s) = false) by (unfold nlo, nhi in *; lia).
        rewrite C. unfold bank_byte.
        assert (O : (k_lo b <=? a) && (a <? k_hi b) = false) by (unfold nlo, nhi in *; lia).
        rewrite O. reflexivity.
Qed.

(* ---------- all segments of a bank ---------- *)
Definition spec_byte_from (init : N) (segs : list segment) (a : Z) : N :=
  fold_left (fun acc s => if covers s a then seg_byte s a else acc) segs init.

Lemma spec_byte_from_eq fill segs a : spec_byte fill segs a = spec_byte_from fill segs a.
Proof. reflexivity. Qed.

Lemma fold_merge fill segs : forall b,
  wf b -> Forall nonempty segs ->
  let b' := fold_left (merge fill) segs b in
  wf b' /\ (forall a, bank_byte fill b' a = spec_byte_from (bank_byte fill b a) segs a).
Proof.
  induction segs as [|s segs IH]; intros b Hwf Hne; cbn [fold_left].
  - split; [exact Hwf | reflexivity].
  - inversion Hne as [|? ? Hs Hrest]; subst.
    destruct (merge_step fill b s Hwf Hs) as (Hwf' & _ & _ & Hb).
    destruct (IH (merge fill b s) (or_intror Hwf') Hrest) as [W P].
    split; [exact W|]. intros a. rewrite P. unfold spec_byte_from. cbn [fold_left]. rewrite Hb. reflexivity.
Qed.

Lemma fold_merge_range fill segs : forall b,
  k_lo b < k_hi b -> Z.of_nat (length (k_data b)) = k_hi b - k_lo b -> Forall nonempty segs ->
  let b' := fold_left (merge fill) segs b in
  k_lo b' = fold_left (fun m x => Z.min m (s_start x)) segs (k_lo b) /\
  k_hi b' = fold_left (fun m x => Z.max m (s_end x)) segs (k_hi b) /\
  k_lo b' < k_hi b' /\ Z.of_nat (length (k_data b')) = k_hi b' - k_lo b'.
Proof.
  induction segs as [|s segs IH]; intros b Hlt Hlen Hne; cbn [fold_left].
  - repeat split; assumption.
  - inversion Hne as [|? ? Hs Hrest]; subst.
    destruct (merge_step fill b s (or_intror (conj Hlt Hlen)) Hs) as ((Hlt' & Hlen') & Hlo & Hhi & _).
    assert (E : (k_hi b <=? k_lo b) = false) by lia. rewrite E in Hlo, Hhi.
    destruct (IH (merge fill b s) Hlt' Hlen' Hrest) as (A & B & C & D).
    rewrite Hlo in A. rewrite Hhi in B. repeat split; assumption.
Qed.

Theorem merge_pointwise fill segs :
  segs <> [] -> Forall nonempty segs ->
  let b := fold_left (merge fill) segs empty_bank in
  k_lo b = spec_lo segs /\ k_hi b = spec_hi segs /\
  Z.of_nat (length (k_data b)) = k_hi b - k_lo b /\
  forall a, k_lo b <= a < k_hi b -> nth (Z.to_nat (a - k_lo b)) (k_data b) 0%N = spec_byte fill segs a.
Proof.
  intros Hne Hall. destruct segs as [|s segs]; [congruence|]. clear Hne.
  inversion Hall as [|? ? Hs Hrest]; subst.
  assert (Hwf0 : wf empty_bank) by (left; cbn; lia).
  destruct (merge_step fill empty_bank s Hwf0 Hs) as ((Hlt & Hlen) & Hlo & Hhi & Hb).
  change (k_hi empty_bank <=? k_lo empty_bank) with true in Hlo, Hhi. cbv beta iota in Hlo, Hhi.
  cbn zeta. cbn [fold_left].
  destruct (fold_merge_range fill segs (merge fill empty_bank s) Hlt Hlen Hrest) as (A & B & C & D).
  destruct (fold_merge fill (s :: segs) empty_bank Hwf0 Hall) as [_ P]. cbn [fold_left] in P.
  repeat split.
  - rewrite A, Hlo. reflexivity.
  - rewrite B, Hhi. reflexivity.
  - exact D.
  - intros a Ha. specialize (P a). unfold bank_byte at 1 in P.
    assert (R : (k_lo (fold_left (merge fill) segs (merge fill empty_bank s)) <=? a) &&
                (a <? k_hi (fold_left (merge fill) segs (merge fill empty_bank s))) = true) by lia.
    rewrite R in P. rewrite P.
    unfold bank_byte. cbn [k_lo k_hi empty_bank].
    assert (Z0 : (0 <=? a) && (a <? 0) = false) by lia. rewrite Z0. reflexivity.
Qed.

(* ---------- size check and padding ---------- *)
Lemma finish_bank_spec o b :
  match b_size o with
  | None => finish_bank o b = (b, [])
  | Some size =>
      let len := Z.of_nat (length (k_data b)) in
      (len = size -> finish_bank o b = (b, [])) /\
      (len > size -> finish_bank o b = (b, [BankTooLarge (b_name o) size len])) /\
      (len < size -> match b_fill o with
                     | None => finish_bank o b = (b, [BankTooShortNoFill (b_name o) size len])
                     | Some f => exists b', finish_bank o b = (b', []) /\
                                 Z.of_nat (length (k_data b')) = size /\
                                 k_lo b' = k_lo b /\
                                 firstn (length (k_data b)) (k_data b') = k_data b /\
                                 (forall i, (length (k_data b) <= i < length (k_data b'))%nat -> nth i (k_data b') 0%N = f)
                     end)
  end.
Proof.
  unfold finish_bank. destruct (b_size o) as [size|]; [|reflexivity].
  cbn zeta. set (len := Z.of_nat (length (k_data b))).
  repeat split.
  - intros E. assert (A : (len <? size) = false) by lia. assert (B : (size <? len) = false) by lia. rewrite A, B. reflexivity.
  - intros E. assert (A : (len <? size) = false) by lia. assert (B : (size <? len) = true) by lia. rewrite A, B. reflexivity.
  - intros E. assert (A : (len <? size) = true) by lia. rewrite A.
    destruct (b_fill o) as [f|]; [|reflexivity].
    eexists. split; [reflexivity|]. cbn [k_data k_lo].
    repeat split.
    + rewrite app_length, repeat_length. unfold len in *. lia.
    + rewrite firstn_app, Nat.sub_diag, firstn_all. cbn. apply app_nil_r.
    + intros i Hi. rewrite app_length, repeat_length in Hi. rewrite app_nth2 by lia.
      apply nth_repeat_any. lia.
Qed.

(* ---------- errors are exactly the listed conditions ---------- *)
Definition seg_unknown (default_bank : N) (names : list N) (s : segment) : bool :=
  negb (existsb (N.eqb (bank_of default_bank s)) names).

Lemma unknown_bank_errors_nil default_bank names segs i :
  unknown_bank_errors default_bank names segs i = [] <-> forallb (fun s => negb (seg_unknown default_bank names s)) segs = true.
Proof.
  revert i; induction segs as [|s segs IH]; intros i; cbn [unknown_bank_errors forallb]; [tauto|].
  unfold seg_unknown at 1. rewrite negb_involutive.
  destruct (existsb _ names); cbn [app andb].
  - apply IH.
  - split; [discriminate | intros H; discriminate].
Qed.

Definition bank_size_ok (o : bank_options) (len : Z) : bool :=
  match b_size o with
  | None => true
  | Some size => (len =? size) || ((len <? size) && match b_fill o with Some _ => true | None => false end)
  end.

Lemma finish_bank_errs o b : snd (finish_bank o b) = [] <-> bank_size_ok o (Z.of_nat (length (k_data b))) = true.
Proof.
  unfold finish_bank, bank_size_ok. destruct (b_size o) as [size|]; [|cbn; tauto].
  set (len := Z.of_nat (length (k_data b))).
  destruct (len <? size) eqn:A.
  - destruct (b_fill o); cbn [snd].
    + split; [intros _; lia | reflexivity].
    + split; [discriminate | intros H; lia].
  - destruct (size <? len) eqn:B; cbn [snd].
    + split; [discriminate | intros H; lia].
    + split; [intros _; lia | reflexivity].
Qed.

Theorem merge_errors_exact banks segs first rest :
  banks = first :: rest ->
  let default_bank := b_name first in
  (exists merged, merge_segments banks segs = inl merged) <->
  (forallb (fun s => negb (seg_unknown default_bank (map b_name banks) s)) segs = true /\
   forallb (fun o => bank_size_ok o (Z.of_nat (length (k_data
       (fold_left (merge (fill_of (b_fill o))) (bank_segments default_bank segs (b_name o)) empty_bank))))) banks = true).
Proof.
  intros -> default_bank. unfold merge_segments. fold default_bank.
  set (banks := first :: rest).
  set (errs0 := unknown_bank_errors default_bank (map b_name banks) segs 0).
  set (built := map (fun o => (o, build_bank default_bank segs o)) banks).
  assert (Hflat : flat_map (fun x => snd (snd x)) built = [] <->
                  forallb (fun o => bank_size_ok o (Z.of_nat (length (k_data
       (fold_left (merge (fill_of (b_fill o))) (bank_segments default_bank segs (b_name o)) empty_bank))))) banks = true).
  { unfold built. clearbody banks. induction banks as [|o os IH]; cbn [map flat_map forallb]; [tauto|].
    rewrite andb_true_iff, <- IH, <- finish_bank_errs. cbn [snd]. unfold build_bank at 1.
    split; intros H; [apply app_eq_nil in H; exact H | destruct H as [A B]; rewrite A, B; reflexivity]. }
  destruct (errs0 ++ flat_map (fun x => snd (snd x)) built) eqn:E.
  - apply app_eq_nil in E as [E0 E1]. split; [intros _ | intros _; eexists; reflexivity].
    split; [apply (unknown_bank_errors_nil default_bank _ segs 0); exact E0 | apply Hflat; exact E1].
  - split; [intros [mm Hm]; discriminate|]. intros [H0 H1].
    apply (unknown_bank_errors_nil default_bank _ segs 0) in H0. apply Hflat in H1.
    fold errs0 in H0. rewrite H0, H1 in E. discriminate.
Qed.

(* ---------- files ---------- *)
Definition file_of (files : list (option N * list N)) (f : option N) : list N :=
  match find (fun x => fname_eqb (fst x) f) files with Some x => snd x | None => [] end.

Lemma fname_eqb_refl f : fname_eqb f f = true.
Proof. destruct f; cbn; [apply N.eqb_refl | reflexivity]. Qed.
Lemma fname_eqb_eq f g : fname_eqb f g = true -> f = g.
Proof. destruct f, g; cbn; try discriminate; auto. intros H; apply N.eqb_eq in H; congruence. Qed.

Lemma file_of_append files f data g :
  file_of (append_file files f data) g = file_of files g ++ (if fname_eqb f g then data else []).
Proof.
  induction files as [|[h d] files IH]; cbn [append_file].
  - unfold file_of. cbn [find fst snd]. destruct (fname_eqb f g); cbn; [reflexivity | reflexivity].
  - destruct (fname_eqb h f) eqn:E.
    + apply fname_eqb_eq in E. subst h. unfold file_of. cbn [find fst snd].
      destruct (fname_eqb f g); [reflexivity | fold (file_of files g)].
      rewrite app_nil_r. reflexivity.
    + unfold file_of in *. cbn [find fst snd].
      destruct (fname_eqb h g) eqn:G.
      * destruct (fname_eqb f g) eqn:F; [|rewrite app_nil_r; reflexivity].
        apply fname_eqb_eq in G, F. subst. rewrite fname_eqb_refl in E. discriminate.
      * exact IH.
Qed.

Theorem files_concat banks f : file_of (write_banks banks) f = spec_file banks f.
Proof.
  unfold write_banks.
  assert (G : forall files, file_of (fold_left (fun files b => append_file files (fst b) (snd b)) banks files) f
                            = file_of files f ++ spec_file banks f).
  { induction banks as [|[g d] banks IH]; intros files; cbn [fold_left].
    - unfold spec_file. cbn. rewrite app_nil_r. reflexivity.
    - rewrite IH, file_of_append. cbn [fst snd]. unfold spec_file. cbn [filter fst].
      destruct (fname_eqb g f); cbn [map concat snd]; rewrite <- ?app_assoc; cbn [app]; reflexivity. }
  rewrite G. reflexivity.
Qed.

(* no file is created that no bank names *)
Lemma append_file_names files f data : map fst (append_file files f data) = 
  if existsb (fun x => fname_eqb (fst x) f) files then map fst files else map fst files ++ [f].
Proof.
  induction files as [|[h d] files IH]; cbn [append_file existsb map fst]; [reflexivity|].
  destruct (fname_eqb h f) eqn:E; cbn [orb map fst]; [reflexivity|]. rewrite IH.
  destruct (existsb _ files); reflexivity.
Qed.

(* ---------- prg header ---------- *)
Theorem prg_header_spec pc : 0 <= pc -> prg_header pc = spec_prg_header pc.
Proof.
  intros H. unfold prg_header, spec_prg_header.
  change 255 with (Z.ones 8). rewrite !Z.land_ones by lia. rewrite Z.shiftr_div_pow2 by lia. reflexivity.
Qed.

(* ---------- write = false segments are invisible ---------- *)
Theorem write_false_invisible default_bank segs name :
  bank_segments default_bank segs name = bank_segments default_bank (filter s_write segs) name.
Proof.
  unfold bank_segments. induction segs as [|s segs IH]; cbn [filter]; [reflexivity|].
  destruct (s_write s) eqn:W; cbn [filter]; rewrite ?W, ?andb_true_r, ?andb_false_r.
  - destruct (N.eqb _ _); [f_equal|]; exact IH.
  - exact IH.
Qed.
(* ---------- one bank: the merged image is the spec image ---------- *)
Lemma nth_map_lt {A B} (f : A -> B) l i d d' : (i < length l)%nat -> nth i (map f l) d = f (nth i l d').
Proof.
  revert i. induction l as [|x l IH]; intros i H; cbn [length] in H; [lia|].
  destruct i; cbn [map nth]; [reflexivity|]. apply IH. lia.
Qed.
Lemma nth_zrange lo n i d : (i < n)%nat -> nth i (zrange lo n) d = lo + Z.of_nat i.
Proof.
  intros H. unfold zrange. rewrite (nth_map_lt _ _ _ _ 0%nat) by (rewrite seq_length; exact H).
  rewrite seq_nth by exact H. reflexivity.
Qed.

Lemma image_eq fill ss : Forall nonempty ss ->
  let b := fold_left (merge fill) ss empty_bank in (k_lo b, k_data b) = spec_image fill ss.
Proof.
  intros Hne. destruct ss as [|s ss']; [reflexivity|].
  set (segs := s :: ss') in *. cbn zeta.
  destruct (merge_pointwise fill segs ltac:(discriminate) Hne) as (Hlo & Hhi & Hlen & Hpt).
  unfold spec_image. fold segs. change (match segs with [] => (0, []) | _ :: _ => ?x end) with x.
  cbv zeta. f_equal; [exact Hlo|].
  set (b := fold_left (merge fill) segs empty_bank) in *.
  apply (nth_ext _ _ 0%N 0%N).
  - rewrite map_length. unfold zrange. rewrite map_length, seq_length. rewrite <- Hhi, <- Hlo. lia.
  - intros i Hi. 
    assert (Hn : (i < Z.to_nat (spec_hi segs - spec_lo segs))%nat) by (rewrite <- Hhi, <- Hlo; lia).
    rewrite (nth_map_lt _ _ _ _ 0) by (unfold zrange; rewrite map_length, seq_length; exact Hn).
    rewrite nth_zrange by exact Hn.
    rewrite <- Hlo. rewrite <- Hpt by lia. f_equal. lia.
Qed.

Lemma filter_nonempty_id ss : Forall nonempty ss -> filter seg_nonempty ss = ss.
Proof.
  induction 1 as [|s ss Hs _ IH]; [reflexivity|]. cbn [filter]. unfold seg_nonempty at 1.
  unfold nonempty in Hs. destruct (s_data s); [contradiction|]. now rewrite IH.
Qed.

Lemma bank_segments_nonempty d segs n : Forall nonempty segs -> Forall nonempty (bank_segments d segs n).
Proof.
  intros H. unfold bank_segments. apply Forall_forall. intros s Hs. apply filter_In in Hs as [Hs _].
  exact (proj1 (Forall_forall _ _) H s Hs).
Qed.

(* spec_bank = the model's build_bank, errors <-> None *)
Lemma bank_eq d segs o : Forall nonempty segs ->
  spec_bank d segs o =
  (let '(b, errs) := build_bank d segs o in match errs with [] => Some (k_lo b, k_data b) | _ => None end).
Proof.
  intros Hne. unfold spec_bank, build_bank.
  rewrite filter_nonempty_id by (apply bank_segments_nonempty; exact Hne).
  rewrite <- (image_eq (fill_of (b_fill o)) (bank_segments d segs (b_name o))) by (apply bank_segments_nonempty; exact Hne).
  set (b := fold_left (merge (fill_of (b_fill o))) (bank_segments d segs (b_name o)) empty_bank).
  cbv zeta. unfold finish_bank. destruct (b_size o) as [size|]; [|reflexivity].
  set (len := Z.of_nat (length (k_data b))).
  destruct (len =? size) eqn:E1.
  - assert (A : (len <? size) = false) by lia. assert (B : (size <? len) = false) by lia. rewrite A, B. reflexivity.
  - destruct (len <? size) eqn:E2.
    + destruct (b_fill o); reflexivity.
    + assert (B : (size <? len) = true) by lia. rewrite B. reflexivity.
Qed.

(* ---------- all banks ---------- *)
Lemma all_some_built d segs banks : Forall nonempty segs ->
  let built := map (fun o => (o, build_bank d segs o)) banks in
  match all_some (map (spec_bank d segs) banks) with
  | Some imgs => flat_map (fun x => snd (snd x)) built = [] /\
                 imgs = map (fun x => (k_lo (fst (snd x)), k_data (fst (snd x)))) built
  | None => flat_map (fun x => snd (snd x)) built <> []
  end.
Proof.
  intros Hne. induction banks as [|o os IH]; cbn [map all_some flat_map]; [split; reflexivity|].
  rewrite (bank_eq d segs o Hne). cbn [snd fst]. destruct (build_bank d segs o) as [b errs].
  destruct errs as [|e errs']; cbn [snd fst].
  - cbv zeta in IH. destruct (all_some (map (spec_bank d segs) os)) as [imgs|].
    + destruct IH as [A B]. split; [exact A|]. cbn [app]. now rewrite B.
    + cbn [app]. exact IH.
  - cbn [app]. discriminate.
Qed.

(* ---------- files ---------- *)
Lemma existsb_rev' {A} (p : A -> bool) l : existsb p (rev l) = existsb p l.
Proof.
  apply eq_iff_eq_true. rewrite !existsb_exists. split; intros (x & Hx & Hp); exists x; split; try assumption.
  - now apply in_rev. - now apply in_rev in Hx.
Qed.

Lemma write_banks_keys bs : forall files,
  map fst (fold_left (fun files b => append_file files (fst b) (snd b)) bs files)
  = map fst files ++ distinct_names (map fst bs) (rev (map fst files)).
Proof.
  induction bs as [|[f d] bs IH]; intros files; cbn [fold_left map distinct_names fst snd].
  - now rewrite app_nil_r.
  - rewrite IH, append_file_names.
    assert (E : existsb (fun x => fname_eqb (fst x) f) files = existsb (fname_eqb f) (rev (map fst files))).
    { rewrite existsb_rev'. induction files as [|[g e] files IHf]; [reflexivity|]. cbn [existsb map fst].
      rewrite IHf. f_equal. destruct g, f; cbn; try reflexivity. apply N.eqb_sym. }
    rewrite <- E. destruct (existsb (fun x => fname_eqb (fst x) f) files); [reflexivity|].
    rewrite rev_app_distr. cbn [rev app]. rewrite <- app_assoc. reflexivity.
Qed.

Lemma existsb_fname f seen : existsb (fname_eqb f) seen = true <-> In f seen.
Proof.
  rewrite existsb_exists. split.
  - intros (x & Hx & E). apply fname_eqb_eq in E. now subst.
  - intros H. exists f. split; [assumption|apply fname_eqb_refl].
Qed.

Lemma distinct_names_nodup l : forall seen,
  NoDup (distinct_names l seen) /\ (forall x, In x (distinct_names l seen) -> ~ In x seen).
Proof.
  induction l as [|f l IH]; intros seen; cbn [distinct_names]; [split; [constructor|intros x []]|].
  destruct (existsb (fname_eqb f) seen) eqn:E; [apply IH|].
  destruct (IH (f :: seen)) as [Hnd Hnot]. split.
  - constructor; [|exact Hnd]. intros Hin. apply (Hnot f Hin). now left.
  - intros x [<-|Hx].
    + intros Hin. apply existsb_fname in Hin. congruence.
    + intros Hin. apply (Hnot x Hx). now right.
Qed.

Lemma assoc_canonical (l : list (option N * list N)) : NoDup (map fst l) ->
  l = map (fun g => (g, file_of l g)) (map fst l).
Proof.
  induction l as [|[g d] l IH]; cbn [map fst]; intros Hnd; [reflexivity|].
  inversion Hnd as [|? ? Hg Hnd']; subst. f_equal.
  - unfold file_of. cbn [find fst snd]. now rewrite fname_eqb_refl.
  - rewrite (IH Hnd') at 1. apply map_ext_in. intros h Hh. f_equal.
    unfold file_of at 2. cbn [find fst].
    destruct (fname_eqb g h) eqn:E; [|reflexivity]. apply fname_eqb_eq in E. subst. contradiction.
Qed.

Lemma write_banks_spec bs :
  write_banks bs = map (fun f => (f, spec_file bs f)) (distinct_names (map fst bs) []).
Proof.
  pose proof (write_banks_keys bs []) as K. cbn [map rev app] in K. fold (write_banks bs) in K.
  rewrite (assoc_canonical (write_banks bs)) by (rewrite K; apply distinct_names_nodup).
  rewrite K. apply map_ext. intros f. now rewrite files_concat.
Qed.

(* ---------- the whole output stage refines the spec ---------- *)
Definition rejected (r : build_result) : Prop := match r with BuildFiles _ => False | _ => True end.

Lemma prg_header_spec' pc : prg_header pc = spec_prg_header pc.
Proof.
  unfold prg_header, spec_prg_header.
  change 255 with (Z.ones 8). rewrite !Z.land_ones by lia. rewrite Z.shiftr_div_pow2 by lia. reflexivity.
Qed.

Theorem build_output_refines configured banks segs : banks <> [] -> Forall nonempty segs ->
  match spec_build configured banks segs with
  | Some files => build_output configured banks segs = BuildFiles files
  | None => rejected (build_output configured banks segs)
  end.
Proof.
  intros Hb Hne. destruct banks as [|first rest]; [congruence|]. clear Hb.
  unfold spec_build, build_output, merge_segments. cbv beta iota zeta. set (banks := first :: rest).
  set (d := b_name first).
  assert (Hfa : forallb (fun s => existsb (N.eqb (bank_of d s)) (map b_name banks)) segs
                = forallb (fun s => negb (seg_unknown d (map b_name banks) s)) segs).
  { clear. induction segs as [|s segs IH]; [reflexivity|]. cbn [forallb]. rewrite IH. unfold seg_unknown. now rewrite negb_involutive. }
  rewrite Hfa. clear Hfa.
  set (errs0 := unknown_bank_errors d (map b_name banks) segs 0).
  set (built := map (fun o => (o, build_bank d segs o)) banks).
  pose proof (unknown_bank_errors_nil d (map b_name banks) segs 0) as H0. fold errs0 in H0.
  destruct (forallb (fun s => negb (seg_unknown d (map b_name banks) s)) segs) eqn:Eu; cbn [negb].
  2:{ destruct (match configured with Some Prg => negb (Nat.eqb (length banks) 1) | _ => false end); [exact I|].
      destruct errs0 as [|e es]; [destruct H0 as [H0 _]; specialize (H0 eq_refl); discriminate|].
      cbn [app]. cbv beta iota. exact I. }
  destruct (match configured with Some Prg => negb (Nat.eqb (length banks) 1) | _ => false end) eqn:Eprg; [exact I|].
  destruct H0 as [_ H0]. rewrite (H0 eq_refl). cbn [app].
  pose proof (all_some_built d segs banks Hne) as Ha. cbv zeta in Ha. fold built in Ha.
  destruct (all_some (map (spec_bank d segs) banks)) as [imgs|].
  2:{ destruct (flat_map (fun x => snd (snd x)) built); [congruence|cbv beta iota; exact I]. }
  destruct Ha as [Hnil Himgs]. rewrite Hnil.
  f_equal. rewrite write_banks_spec.
  assert (Hbs : map (fun x => (b_filename (fst x), k_data (snd x))) (map (fun x => (fst x, fst (snd x))) built)
                = combine (map b_filename banks) (map snd imgs)).
  { rewrite Himgs. unfold built. clearbody banks. clear. induction banks as [|o os IH]; [reflexivity|].
    cbn [map combine fst snd]. now rewrite IH. }
  rewrite Hbs.
  destruct (output_format_of configured (length banks)); [|reflexivity].
  subst banks. unfold built in *. cbn [map fst snd] in *. rewrite Himgs. rewrite prg_header_spec'. reflexivity.
Qed.

(* ---------- from the declared configuration (finalize) ---------- *)
Definition project_rejected (r : project_result) : Prop :=
  match r with ProjectUnassigned _ => True | ProjectBuilt b => rejected b end.

Lemma combine_map_self {A B} (f : A -> B) (l : list A) : combine l (map f l) = map (fun x => (x, f x)) l.
Proof. induction l as [|x l IH]; [reflexivity|]. cbn [map combine]. now rewrite IH. Qed.

Lemma unassigned_nil (l : list (option N)) : forall k,
  flat_map (fun x : nat * option N => match snd x with None => [fst x] | Some _ => [] end) (combine (seq k (length l)) l) = []
  <-> forallb (fun b => match b with Some _ => true | None => false end) l = true.
Proof.
  induction l as [|b l IH]; intros k; cbn [length seq combine flat_map forallb]; [tauto|].
  destruct b; cbn [snd fst app andb]; [apply IH|]. split; discriminate.
Qed.

Theorem build_project_refines default_name configured banks segs : Forall nonempty segs ->
  match spec_project default_name configured banks segs with
  | Some files => build_project default_name configured banks segs = ProjectBuilt (BuildFiles files)
  | None => project_rejected (build_project default_name configured banks segs)
  end.
Proof.
  intros Hne. unfold spec_project, build_project, finalize.
  destruct banks as [|first rest].
  - (* no banks declared: one default bank, every segment in it *)
    cbn [map].
    set (sb := map (fun b : option N => match b with None => Some default_name | Some x => Some x end) (map s_bank segs)).
    assert (Hsome : forallb (fun b => match b with Some _ => true | None => false end) sb = true).
    { unfold sb. rewrite map_map. clear. induction segs as [|s segs IH]; [reflexivity|]. cbn [map forallb]. rewrite IH.
      destruct (s_bank s); reflexivity. }
    assert (Hs2 : match sb with [None] => [Some default_name] | _ => sb end = sb).
    { destruct sb as [|[x|] [|y l]]; try reflexivity. cbn in Hsome. discriminate. }
    cbv beta iota zeta. rewrite Hs2. rewrite (proj2 (unassigned_nil sb 0) Hsome).
    set (segs' := map (fun x => set_bank (fst x) (snd x)) (combine segs sb)).
    assert (Hsegs : segs' = map (fun s => mkSeg (s_start s) (s_data s) (match s_bank s with None => Some default_name | b => b end) (s_write s)) segs).
    { unfold segs', sb. rewrite map_map, combine_map_self, map_map. apply map_ext. intros s. unfold set_bank. cbn [fst snd].
      destruct (s_bank s); reflexivity. }
    rewrite <- Hsegs.
    assert (Hne' : Forall nonempty segs').
    { rewrite Hsegs. apply Forall_forall. intros s Hs. apply in_map_iff in Hs as (s0 & <- & H0).
      exact (proj1 (Forall_forall _ _) Hne s0 H0). }
    pose proof (build_output_refines configured [default_bank_options default_name] segs' ltac:(discriminate) Hne') as R.
    unfold default_bank_options in *.
    destruct (spec_build configured [mkBankOpts default_name None None None] segs'); [now rewrite R|exact R].
  - (* banks declared *)
    cbn [map]. cbv beta iota zeta.
    destruct segs as [|s [|s2 more]].
    + (* no segments *)
      cbn [map forallb length seq combine flat_map]. cbv beta iota zeta. cbn [map combine].
      pose proof (build_output_refines configured (first :: rest) [] ltac:(discriminate) Hne) as R.
      destruct (spec_build configured (first :: rest) []); [now rewrite R|exact R].
    + (* a single segment may leave the bank out *)
      cbn [map]. destruct (s_bank s) as [b|] eqn:Eb; cbv beta iota zeta; cbn [length seq combine flat_map snd fst app map].
      * assert (Hs : set_bank s (Some b) = mkSeg (s_start s) (s_data s) (Some b) (s_write s)) by reflexivity.
        rewrite Hs.
        assert (Hne' : Forall nonempty [mkSeg (s_start s) (s_data s) (Some b) (s_write s)]).
        { constructor; [|constructor]. inversion Hne; subst. assumption. }
        pose proof (build_output_refines configured (first :: rest) _ ltac:(discriminate) Hne') as R.
        destruct (spec_build configured (first :: rest) [mkSeg (s_start s) (s_data s) (Some b) (s_write s)]); [now rewrite R|exact R].
      * assert (Hs : set_bank s (Some (b_name first)) = mkSeg (s_start s) (s_data s) (Some (b_name first)) (s_write s)) by reflexivity.
        rewrite Hs.
        assert (Hne' : Forall nonempty [mkSeg (s_start s) (s_data s) (Some (b_name first)) (s_write s)]).
        { constructor; [|constructor]. inversion Hne; subst. assumption. }
        pose proof (build_output_refines configured (first :: rest) _ ltac:(discriminate) Hne') as R.
        destruct (spec_build configured (first :: rest) [mkSeg (s_start s) (s_data s) (Some (b_name first)) (s_write s)]); [now rewrite R|exact R].
    + (* several segments: every one must name a bank *)
      assert (Hs2 : forall (l : list (option N)) a b x, match a :: b :: l with [None] => [Some x] | _ => a :: b :: l end = a :: b :: l)
        by (intros l a b x; destruct a; reflexivity).
      cbn [map]. rewrite !(Hs2 _ _ _ (b_name first)).
      change (s_bank s :: s_bank s2 :: map s_bank more) with (map s_bank (s :: s2 :: more)).
      remember (s :: s2 :: more) as segs eqn:Esegs.
      set (sb := map s_bank segs).
      assert (Hlen : exists x y r, segs = x :: y :: r) by (subst; eauto).
      cbv beta iota zeta.
      assert (Hfa : forallb (fun s0 => match s_bank s0 with Some _ => true | None => false end) segs
                    = forallb (fun b => match b with Some _ => true | None => false end) sb).
      { unfold sb. clear. induction segs as [|x l IH]; [reflexivity|]. cbn [map forallb]. now rewrite IH. }
      rewrite Hfa. pose proof (unassigned_nil sb 0) as U.
      destruct (forallb (fun b => match b with Some _ => true | None => false end) sb) eqn:Ef.
      * rewrite (proj2 U eq_refl).
        assert (Hsegs : map (fun x => set_bank (fst x) (snd x)) (combine segs sb) = segs).
        { unfold sb. rewrite combine_map_self, map_map. rewrite <- (map_id segs) at 2. apply map_ext. intros x.
          unfold set_bank. cbn [fst snd]. destruct x; reflexivity. }
        rewrite Hsegs.
        pose proof (build_output_refines configured (first :: rest) segs ltac:(discriminate) Hne) as R.
        destruct (spec_build configured (first :: rest) segs); [now rewrite R|exact R].
      * destruct (flat_map _ (combine (seq 0 (length sb)) sb)) eqn:Eun; [|exact I].
        destruct U as [U _]. specialize (U eq_refl). discriminate.
Qed.

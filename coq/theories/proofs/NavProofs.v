(* Proofs about model/Analysis.v: recording vs. query, symmetry of references/definitions, highlights,
   history of passes. *)
From Coq Require Import List NArith Arith Bool Lia Permutation.
Import ListNotations.
From Mos Require Import model.SymGraph model.Analysis spec.NavSpec proofs.SymGraphProofs.

(* ---------- equality tests ---------- *)
Lemma span_eqb_eq : forall a b, span_eqb a b = true <-> a = b.
Proof.
  intros [f l0 c0 l1 c1] [f' l0' c0' l1' c1']. unfold span_eqb. cbn.
  rewrite !andb_true_iff, !Nat.eqb_eq. split.
  - intros [[[[-> ->] ->] ->] ->]. reflexivity.
  - intro H. inversion H. auto.
Qed.

Lemma loc_eqb_eq : forall a b, loc_eqb a b = true <-> a = b.
Proof.
  intros [p s] [p' s']. unfold loc_eqb. cbn. rewrite andb_true_iff, Nat.eqb_eq, span_eqb_eq. split.
  - intros [-> ->]. reflexivity.
  - intro H. inversion H. auto.
Qed.

Lemma dt_eqb_eq : forall a b, dt_eqb a b = true <-> a = b.
Proof.
  intros [f|n|k] [f'|n'|k']; cbn; rewrite ?Nat.eqb_eq; split; intro H; try congruence; try discriminate; inversion H; auto.
Qed.

Lemma dt_eqb_refl : forall a, dt_eqb a a = true.
Proof. intro a. apply dt_eqb_eq. reflexivity. Qed.

Lemma dt_eqb_neq : forall a b, dt_eqb a b = false <-> a <> b.
Proof.
  intros a b. split.
  - intros H E. apply dt_eqb_eq in E. congruence.
  - intro H. destruct (dt_eqb a b) eqn:E; [apply dt_eqb_eq in E; contradiction|reflexivity].
Qed.


Definition keys_unique (a : Analysis) : Prop := NoDup (map fst a).

Lemma get_update_same : forall a ty f, get (update a ty f) ty = Some (f (get_or_empty a ty)).
Proof.
  unfold get_or_empty, get. induction a as [|[ty' d] a IH]; intros ty f; cbn.
  - rewrite dt_eqb_refl. reflexivity.
  - destruct (dt_eqb ty' ty) eqn:E; cbn; rewrite E; cbn; [reflexivity|]. apply IH.
Qed.

Lemma get_update_other : forall a ty ty' f, ty <> ty' -> get (update a ty f) ty' = get a ty'.
Proof.
  unfold get. induction a as [|[k d] a IH]; intros ty ty' f NE; cbn.
  - apply dt_eqb_neq in NE. rewrite NE. reflexivity.
  - destruct (dt_eqb k ty) eqn:E; cbn.
    + apply dt_eqb_eq in E. subst k. apply dt_eqb_neq in NE. rewrite NE. reflexivity.
    + destruct (dt_eqb k ty'); [reflexivity|]. apply IH. assumption.
Qed.

Lemma update_keys : forall a ty f k, In k (map fst (update a ty f)) <-> k = ty \/ In k (map fst a).
Proof.
  induction a as [|[k' d] a IH]; intros ty f k; cbn.
  - intuition.
  - destruct (dt_eqb k' ty) eqn:E; cbn.
    + apply dt_eqb_eq in E. subst. intuition.
    + rewrite IH. intuition.
Qed.

Lemma update_keys_unique : forall a ty f, keys_unique a -> keys_unique (update a ty f).
Proof.
  unfold keys_unique. induction a as [|[k d] a IH]; intros ty f U; cbn.
  - constructor; [intros []|constructor].
  - inversion U; subst. destruct (dt_eqb k ty) eqn:E; cbn.
    + constructor; assumption.
    + constructor; [|apply IH; assumption]. intro Hin. apply update_keys in Hin as [->|Hin]; [|contradiction].
      rewrite dt_eqb_refl in E. discriminate.
Qed.

Lemma in_get : forall a ty d, keys_unique a -> (In (ty, d) a <-> get a ty = Some d).
Proof.
  unfold keys_unique, get. induction a as [|[k d'] a IH]; intros ty d U; cbn.
  - split; [intros []|discriminate].
  - inversion U; subst. destruct (dt_eqb k ty) eqn:E; cbn.
    + apply dt_eqb_eq in E. subst k. split.
      * intros [H|H]; [inversion H; reflexivity|]. exfalso. apply H1. apply in_map_iff. exists (ty, d). auto.
      * intro H. inversion H. auto.
    + rewrite <- IH by assumption. split; [|auto]. intros [H|H]; [|assumption]. inversion H; subst.
      rewrite dt_eqb_refl in E. discriminate.
Qed.

Lemma in_add_usage : forall d v u, In u (usages (add_usage d v)) <-> u = v \/ In u (usages d).
Proof.
  intros d v u. unfold add_usage. destruct (existsb (loc_eqb v) (usages d)) eqn:E; cbn.
  - split; [auto|]. intros [->|H]; [|assumption]. apply existsb_exists in E as [x [Hin Heq]].
    apply loc_eqb_eq in Heq. subst. assumption.
  - intuition.
Qed.

Lemma location_add_usage : forall d v, location (add_usage d v) = location d.
Proof. intros d v. unfold add_usage. destruct (existsb _ _); reflexivity. Qed.

Lemma usages_of_update : forall a ty f ty',
  usages_of (update a ty f) ty' = if dt_eqb ty ty' then usages (f (get_or_empty a ty)) else usages_of a ty'.
Proof.
  intros. unfold usages_of. destruct (dt_eqb ty ty') eqn:E.
  - apply dt_eqb_eq in E. subst. unfold get_or_empty at 1. rewrite get_update_same. reflexivity.
  - apply dt_eqb_neq in E. unfold get_or_empty. rewrite get_update_other by assumption. reflexivity.
Qed.

Lemma location_of_update : forall a ty f ty',
  location_of (update a ty f) ty' = if dt_eqb ty ty' then location (f (get_or_empty a ty)) else location_of a ty'.
Proof.
  intros. unfold location_of. destruct (dt_eqb ty ty') eqn:E.
  - apply dt_eqb_eq in E. subst. unfold get_or_empty at 1. rewrite get_update_same. reflexivity.
  - apply dt_eqb_neq in E. unfold get_or_empty. rewrite get_update_other by assumption. reflexivity.
Qed.

(* ---------- add_symbol_usage ---------- *)


Lemma loop_skip_supers : forall g p n steps pos span a,
  traversal_shape g p n steps ->
  add_symbol_usage_loop g steps p pos (contains_super p) span a =
  add_symbol_usage_loop g (map Symbol (symbols_of steps)) p pos (contains_super p) span a.
Proof.
  intros g p n steps pos span a Sh. induction Sh.
  - rewrite symbols_of_map. reflexivity.
  - reflexivity.
  - cbn [symbols_of]. rewrite <- IHSh. cbn. rewrite H0. reflexivity.
Qed.

Lemma loop_symbols : forall g span cs l p pos a,
  List.length l = List.length p ->
  forall ty,
   (forall u, In u (usages_of (add_symbol_usage_loop g (map Symbol l) p pos cs span a) ty) <->
              In u (usages_of a ty) \/ In (ty, u) (recorded g l p pos span)) /\
   location_of (add_symbol_usage_loop g (map Symbol l) p pos cs span a) ty = location_of a ty.
Proof.
  intros g span cs. induction l as [|c l IH]; intros p pos a Hlen ty.
  - cbn. split; [intuition|reflexivity].
  - destruct p as [|id p]; [discriminate|]. cbn in Hlen. injection Hlen as Hlen.
    cbn [map add_symbol_usage_loop hd_error tl recorded].
    set (a1 := update a (DtSymbol c) (fun d => d)).
    assert (U1 : forall t, usages_of a1 t = usages_of a t /\ location_of a1 t = location_of a t).
    { intro t. unfold a1. rewrite usages_of_update, location_of_update.
      destruct (dt_eqb (DtSymbol c) t) eqn:E; [|auto]. apply dt_eqb_eq in E. subst. auto. }
    destruct (parent g c) as [ps|] eqn:P.
    + set (v := mkLoc ps (subspan span pos (pos + List.length id))).
      set (a2 := update a1 (DtSymbol c) (fun d => add_usage d v)).
      destruct (IH p (pos + List.length id + 1) a2 Hlen ty) as [IHu IHl]. split.
      * intro u. rewrite IHu. unfold a2. rewrite usages_of_update.
        destruct (dt_eqb (DtSymbol c) ty) eqn:E.
        -- apply dt_eqb_eq in E. subst ty. rewrite in_add_usage. fold (usages_of a1 (DtSymbol c)).
           destruct (U1 (DtSymbol c)) as [-> _]. cbn. split.
           ++ intros [[->|H]|H]; auto.
           ++ intros [H|[H|H]]; auto. inversion H. auto.
        -- destruct (U1 ty) as [-> _]. cbn. split; [intuition|]. intros [H|[H|H]]; auto.
           inversion H; subst. rewrite dt_eqb_refl in E. discriminate.
      * rewrite IHl. unfold a2. rewrite location_of_update.
        destruct (dt_eqb (DtSymbol c) ty) eqn:E.
        -- apply dt_eqb_eq in E. subst. rewrite location_add_usage. apply U1.
        -- apply U1.
    + destruct (IH p (pos + List.length id + 1) a1 Hlen ty) as [IHu IHl]. split.
      * intro u. rewrite IHu. destruct (U1 ty) as [-> _]. cbn. reflexivity.
      * rewrite IHl. apply U1.
Qed.


Lemma shape_symbols_length : forall g p n steps,
  traversal_shape g p n steps -> symbols_of steps = [] \/ List.length (symbols_of steps) = List.length p.
Proof.
  induction 1.
  - rewrite symbols_of_map. right. eapply walk_length; eauto.
  - left; reflexivity.
  - cbn. assumption.
Qed.

Lemma add_symbol_usage_spec : forall fuel g scope p span a a',
  p <> [] -> add_symbol_usage fuel g scope p span a = Some a' ->
  forall ty, (forall u, In u (usages_of a' ty) <-> In u (usages_of a ty) \/ In (ty, u) (use_pairs fuel g scope p span))
             /\ location_of a' ty = location_of a ty.
Proof.
  unfold add_symbol_usage, use_pairs. intros fuel g scope p span a a' Hp H ty.
  destruct (query_traversal_steps fuel g scope p) as [steps|] eqn:Q; [|discriminate].
  inversion H; subst a'; clear H.
  pose proof (qts_shape _ _ _ _ _ Hp Q) as Sh.
  rewrite (loop_skip_supers _ _ _ _ _ _ _ Sh).
  destruct (shape_symbols_length _ _ _ _ Sh) as [E|E].
  - rewrite E. cbn. split; [intuition|reflexivity].
  - apply loop_symbols. assumption.
Qed.


Lemma recorded_cols : forall g l p pos span ty u,
  In (ty, u) (recorded g l p pos span) -> s_c0 span + pos <= s_c0 (dl_span u).
Proof.
  induction l as [|c l IH]; intros p pos span ty u H; [destruct H|].
  destruct p as [|id p]; [destruct H|]. cbn in H. apply in_app_or in H as [H|H].
  - destruct (parent g c); [|destruct H]. destruct H as [H|[]]. inversion H; subst. cbn. lia.
  - apply IH in H. lia.
Qed.

(* the usage of the last identifier is recorded on the last node, and on no other *)
Lemma recorded_last : forall g l p pos span,
  List.length l = List.length p -> l <> [] ->
  let '(a, b) := last_segment p pos in
  (forall ps nx, parent g (last l nx) = Some ps -> In (DtSymbol (last l nx), mkLoc ps (subspan span a b)) (recorded g l p pos span)) /\
  (forall ty u, In (ty, u) (recorded g l p pos span) -> dl_span u = subspan span a b -> forall nx, ty = DtSymbol (last l nx)).
Proof.
  induction l as [|c l IH]; intros p pos span Hlen NE; [congruence|].
  destruct p as [|id p]; [discriminate|]. cbn in Hlen. injection Hlen as Hlen.
  destruct l as [|c2 l].
  - destruct p; [|discriminate]. cbn. split.
    + intros ps nx P. rewrite P. cbn. auto.
    + intros ty u H _ nx. destruct (parent g c); cbn in H; [|destruct H]. destruct H as [H|[]]. inversion H. reflexivity.
  - destruct p as [|id2 p]; [discriminate|].
    specialize (IH (id2 :: p) (pos + List.length id + 1) span Hlen ltac:(discriminate)).
    change (last_segment (id :: id2 :: p) pos) with (last_segment (id2 :: p) (pos + List.length id + 1)).
    destruct (last_segment (id2 :: p) (pos + List.length id + 1)) as [x y] eqn:LS.
    destruct IH as [IH1 IH2]. split.
    + intros ps nx P. change (last (c :: c2 :: l) nx) with (last (c2 :: l) nx) in *.
      cbn [recorded]. apply in_or_app. right. apply IH1. assumption.
    + intros ty u H Hs nx. change (last (c :: c2 :: l) nx) with (last (c2 :: l) nx).
      cbn [recorded] in H. apply in_app_or in H as [H|H].
      * exfalso. destruct (parent g c); [|destruct H]. destruct H as [H|[]]. inversion H; subst. cbn in Hs.
        assert (Hx : pos + List.length id + 1 <= x).
        { clear - LS. revert LS. generalize (pos + List.length id + 1). generalize (id2 :: p).
          induction l as [|i l IHl]; intros n0 LS; cbn in LS.
          - inversion LS. lia.
          - destruct l as [|j l]; [inversion LS; lia|]. apply IHl in LS. lia. }
        unfold subspan in Hs. inversion Hs. lia.
      * eapply IH2; eauto.
Qed.

Theorem usage_is_binding : forall fuel g scope p span a a' nx,
  p <> [] ->
  query fuel g scope p = Some (Some nx) ->
  add_symbol_usage fuel g scope p span a = Some a' ->
  let occ := last_segment_span span p in
  (forall ps, parent g nx = Some ps -> In (mkLoc ps occ) (usages_of a' (DtSymbol nx))) /\
  (forall ty u, dl_span u = occ -> In u (usages_of a' ty) -> ~ In u (usages_of a ty) -> ty = DtSymbol nx).
Proof.
  intros fuel g scope p span a a' nx Hp Hq Ha occ.
  pose proof (add_symbol_usage_spec _ _ _ _ _ _ _ Hp Ha) as Spec.
  unfold query in Hq. unfold use_pairs in Spec.
  destruct (query_traversal_steps fuel g scope p) as [steps|] eqn:Q; [|discriminate].
  cbn in Hq. inversion Hq as [L]; clear Hq.
  pose proof (qts_shape _ _ _ _ _ Hp Q) as Sh.
  destruct (shape_last_symbol _ _ _ _ _ Sh L) as [NE Hlast].
  destruct (shape_symbols_length _ _ _ _ Sh) as [E|E]; [congruence|].
  pose proof (recorded_last g (symbols_of steps) p 0 span E NE) as RL.
  unfold occ, last_segment_span. destruct (last_segment p 0) as [x y]. destruct RL as [R1 R2]. split.
  - intros ps P. apply (proj1 (Spec (DtSymbol nx))). right. rewrite Hlast at 1. apply R1. rewrite <- Hlast. assumption.
  - intros ty u Hs Hin Hnot. apply (proj1 (Spec ty)) in Hin as [Hin|Hin]; [contradiction|].
    rewrite Hlast. eapply R2; eauto.
Qed.




Lemma loop_keys_unique : forall g span cs steps p pos a,
  keys_unique a -> keys_unique (add_symbol_usage_loop g steps p pos cs span a).
Proof.
  intros g span cs. induction steps as [|st l IH]; intros p0 n0 a U; cbn; [assumption|].
  destruct st as [c|c].
  - destruct (hd_error p0); [|apply IH; assumption]. apply IH.
    destruct (parent g c); repeat apply update_keys_unique; assumption.
  - destruct cs.
    + destruct (hd_error p0); [|apply IH; assumption]. apply IH.
      destruct (parent g c); repeat apply update_keys_unique; assumption.
    + apply IH; assumption.
Qed.

Lemma apply_event_spec : forall fuel a e a',
  wf_event e -> apply_event fuel (Some a) e = Some a' ->
  (keys_unique a -> keys_unique a') /\
  forall ty,
    (forall u, In u (usages_of a' ty) <-> In u (usages_of a ty) \/ In (ty, u) (event_pairs fuel e)) /\
    (forall l, location_of a' ty = Some l -> location_of a ty = Some l \/ In (ty, l) (event_locations e)).
Proof.
  intros fuel a e a' WF H. destruct e as [g scope p span|nx l|ty0 l|f l]; cbn in H.
  - split.
    + intro U. unfold add_symbol_usage in H. destruct (query_traversal_steps fuel g scope p); [|discriminate].
      inversion H; subst. apply loop_keys_unique. assumption.
    + intro ty. destruct (add_symbol_usage_spec _ _ _ _ _ _ _ WF H ty) as [S1 S2]. split; [exact S1|].
      intros l0 Hl. left. congruence.
  - inversion H; subst; clear H. split; [apply update_keys_unique|]. intro ty. split.
    + intro u. rewrite usages_of_update. destruct (dt_eqb (DtSymbol nx) ty) eqn:E; cbn; [|intuition].
      apply dt_eqb_eq in E. subst. unfold usages_of. intuition.
    + intros l0. rewrite location_of_update. destruct (dt_eqb (DtSymbol nx) ty) eqn:E; cbn; [|auto].
      apply dt_eqb_eq in E. subst. intro H. inversion H. auto.
  - inversion H; subst; clear H. split; [apply update_keys_unique|]. intro ty. split.
    + intro u. rewrite usages_of_update. destruct (dt_eqb ty0 ty) eqn:E; cbn.
      * apply dt_eqb_eq in E. subst. rewrite in_add_usage. unfold usages_of. split.
        -- intros [->|H]; auto.
        -- intros [H|[H|[]]]; auto. inversion H. auto.
      * split; [auto|]. intros [H|[H|[]]]; auto. inversion H; subst. rewrite dt_eqb_refl in E. discriminate.
    + intros l0. rewrite location_of_update. destruct (dt_eqb ty0 ty) eqn:E; cbn; [|auto].
      apply dt_eqb_eq in E. subst. rewrite location_add_usage. auto.
  - inversion H; subst; clear H. split; [apply update_keys_unique|]. intro ty. split.
    + intro u. rewrite usages_of_update. destruct (dt_eqb (DtFilename f) ty) eqn:E; cbn; [|intuition].
      apply dt_eqb_eq in E. subst. unfold usages_of. intuition.
    + intros l0. rewrite location_of_update. destruct (dt_eqb (DtFilename f) ty) eqn:E; cbn; [|auto].
      apply dt_eqb_eq in E. subst. intro H. inversion H. auto.
Qed.

Lemma fold_none : forall fuel evs, fold_left (apply_event fuel) evs None = None.
Proof. induction evs; cbn; auto. Qed.

Lemma run_pass_spec : forall fuel evs a a',
  Forall wf_event evs -> run_pass fuel a evs = Some a' ->
  (keys_unique a -> keys_unique a') /\
  forall ty,
    (forall u, In u (usages_of a' ty) <->
               In u (usages_of a ty) \/ exists e, In e evs /\ In (ty, u) (event_pairs fuel e)) /\
    (forall l, location_of a' ty = Some l ->
               location_of a ty = Some l \/ exists e, In e evs /\ In (ty, l) (event_locations e)).
Proof.
  unfold run_pass. induction evs as [|e evs IH]; intros a a' WF H; cbn [fold_left] in H.
  - inversion H; subst. split; [auto|]. intro ty. split.
    + intro u. split; [auto|]. intros [H0|[e [[] _]]]. assumption.
    + auto.
  - inversion WF; subst. destruct (apply_event fuel (Some a) e) as [a1|] eqn:E; [|rewrite fold_none in H; discriminate].
    destruct (apply_event_spec _ _ _ _ H2 E) as [K1 S1]. destruct (IH _ _ H3 H) as [K2 S2]. split; [auto|].
    intro ty. destruct (S1 ty) as [U1 L1]. destruct (S2 ty) as [U2 L2]. split.
    + intro u. rewrite U2, U1. split.
      * intros [[H0|H0]|[e' [I P]]]; auto.
        -- right. exists e. split; [left; reflexivity|assumption].
        -- right. exists e'. split; [right; assumption|assumption].
      * intros [H0|[e' [[->|I] P]]]; auto. right. exists e'. auto.
    + intros l Hl. apply L2 in Hl as [Hl|[e' [I P]]].
      * apply L1 in Hl as [Hl|Hl]; auto. right. exists e. split; [left; reflexivity|assumption].
      * right. exists e'. split; [right; assumption|assumption].
Qed.


Lemma find_filter_in : forall a flt f l c ty d,
  In (ty, d) (find_filter a flt f l c) <-> In (ty, d) a /\ flt ty = true /\ found_at ty d f l c = true.
Proof.
  intros. unfold find_filter. rewrite filter_In. cbn. rewrite andb_true_iff. unfold found_at.
  destruct ty; intuition.
Qed.

Lemma contains_spec : forall d f l c,
  contains d f l c = true <-> exists o, In o (definition_and_usages d) /\ span_contains (dl_span o) f l c = true.
Proof.
  intros d f l c. unfold contains, definition_and_usages, contains_usage. destruct (location d) as [loc|].
  - rewrite orb_true_iff, existsb_exists. split.
    + intros [H|[x [I H]]]; [exists loc; cbn; auto|exists x; cbn; auto].
    + intros [o [[->|I] H]]; [auto|right; eauto].
  - rewrite existsb_exists. reflexivity.
Qed.

Theorem references_symmetric : forall a f l c sp,
  In sp (find_references a true f l c) <->
  exists ty d, is_symbol ty = true /\ In (ty, d) (find_ a f l c) /\
               In sp (map dl_span (definition_and_usages d)) /\
               (forall f' l' c', span_contains sp f' l' c' = true -> In (ty, d) (find_ a f' l' c')).
Proof.
  intros a f l c sp. unfold find_references, find_. rewrite in_flat_map. split.
  - intros [[ty d] [Hin Hsp]]. cbn in Hsp. apply find_filter_in in Hin as [Ia [Sy Fo]].
    exists ty, d. repeat split; auto.
    + apply find_filter_in. auto.
    + intros f' l' c' Hc. apply find_filter_in. repeat split; auto.
      assert (Cn : contains d f' l' c' = true) by (apply contains_spec; apply in_map_iff in Hsp as [o [E I]]; exists o; subst; auto).
      destruct ty; [discriminate|exact Cn|exact Cn].
  - intros [ty [d [Sy [Hin [Hsp _]]]]]. exists (ty, d). cbn. split; [|assumption].
    apply find_filter_in in Hin as [Ia [_ Fo]]. apply find_filter_in. auto.
Qed.

Theorem highlights_are_references_in_file : forall a f l c,
  (forall ty d, In (ty, d) (find_ a f l c) -> is_symbol ty = true) ->
  document_highlight a f l c = filter (fun s => Nat.eqb (s_file s) f) (find_references a true f l c).
Proof.
  intros a f l c H. unfold document_highlight, find_references, find_ in *. unfold find_filter in *.
  induction a as [|[ty d] a IH]; [reflexivity|]. cbn in *.
  destruct ty as [fn|nx|k]; cbn in *.
  - destruct (contains_usage d f l c) eqn:E.
    + specialize (H (DtFilename fn) d (or_introl eq_refl)). discriminate.
    + apply IH. intros ty' d' Hin. eapply H. eassumption.
  - destruct (contains d f l c) eqn:E; cbn.
    + rewrite filter_app. f_equal. apply IH. intros ty' d' Hin. eapply H. right. eassumption.
    + apply IH. intros ty' d' Hin. eapply H. eassumption.
  - destruct (contains d f l c) eqn:E; cbn.
    + rewrite filter_app. f_equal. apply IH. intros ty' d' Hin. eapply H. right. eassumption.
    + apply IH. intros ty' d' Hin. eapply H. eassumption.
Qed.

Lemma filter_perm : forall (A : Type) (p : A -> bool) l l', Permutation l l' -> Permutation (filter p l) (filter p l').
Proof.
  intros A p l l' P. induction P; cbn.
  - constructor.
  - destruct (p x); [constructor|]; assumption.
  - destruct (p x); destruct (p y); try constructor; try apply Permutation_refl.
  - eapply Permutation_trans; eauto.
Qed.

(* go-to-definition under every hash order: if all definitions found at the position are located at `target`,
   the answer is `target` *)
Theorem goto_unique_location : forall a target f l c,
  find_ a f l c <> [] ->
  (forall ty d, In (ty, d) (find_ a f l c) -> option_map dl_span (location d) = target) ->
  forall a', Permutation a a' -> go_to_definition a' f l c = target.
Proof.
  intros a target f l c NE H a' P. unfold go_to_definition.
  assert (P' : Permutation (find_ a f l c) (find_ a' f l c)).
  { unfold find_, find_filter. apply filter_perm. assumption. }
  destruct (find_ a' f l c) as [|[ty d] rest] eqn:E.
  - apply Permutation_sym, Permutation_nil in P'. contradiction.
  - apply H with ty. eapply Permutation_in; [apply Permutation_sym; exact P'|]. left. reflexivity.
Qed.


Lemma usages_of_nil : forall ty, usages_of [] ty = [].
Proof. reflexivity. Qed.
Lemma location_of_nil : forall ty, location_of [] ty = None.
Proof. reflexivity. Qed.

Lemma found_recorded : forall fuel evs a,
  Forall wf_event evs -> run_pass fuel [] evs = Some a ->
  forall ty d f l c, In (ty, d) (find_ a f l c) -> recorded_at fuel evs ty f l c /\ get a ty = Some d.
Proof.
  intros fuel evs a WF R ty d f l c Hin.
  destruct (run_pass_spec _ _ _ _ WF R) as [K S]. specialize (K ltac:(constructor)).
  apply find_filter_in in Hin as [Ia [_ Fo]]. apply in_get in Ia; [|assumption]. split; [|assumption].
  destruct (S ty) as [SU SL].
  assert (UO : usages_of a ty = usages d) by (unfold usages_of, get_or_empty; rewrite Ia; reflexivity).
  assert (LO : location_of a ty = location d) by (unfold location_of, get_or_empty; rewrite Ia; reflexivity).
  assert (Usage : forall u, In u (usages d) -> span_contains (dl_span u) f l c = true -> recorded_at fuel evs ty f l c).
  { intros u Iu Hc. rewrite <- UO in Iu. apply SU in Iu as [[]|[e [Ie Pe]]]. left. exists e, u. auto. }
  destruct ty as [fn|nx|k]; cbn in Fo.
  3: { apply contains_spec in Fo as [o [Io Hc]]. unfold definition_and_usages in Io.
       destruct (location d) as [loc|] eqn:Ld; [|eauto].
       destruct Io as [<-|Io]; [|eauto]. apply SL in LO as [LO|[e [Ie Pe]]]; [discriminate|].
       exfalso. destruct e; cbn in Pe; try (destruct Pe; fail); destruct Pe as [Pe|[]]; discriminate. }
  - unfold contains_usage in Fo. apply existsb_exists in Fo as [u [Iu Hc]]. eauto.
  - apply contains_spec in Fo as [o [Io Hc]]. unfold definition_and_usages in Io.
    destruct (location d) as [loc|] eqn:Ld.
    + destruct Io as [<-|Io]; [|eauto]. apply SL in LO as [LO|[e [Ie Pe]]]; [discriminate|].
      right. destruct e as [? ? ? ?|nx0 l0|? ?|? ?]; cbn in Pe; try (destruct Pe; fail).
      * destruct Pe as [Pe|[]]. inversion Pe; subst. exists nx, loc. auto.
      * destruct Pe as [Pe|[]]. discriminate.
    + eauto.
Qed.

Theorem goto_is_assembled_binding : forall fuel evs a,
  Forall wf_event evs -> run_pass fuel [] evs = Some a ->
  forall g scope p span nx ps,
  In (EvUse g scope p span) evs ->
  query fuel g scope p = Some (Some nx) -> parent g nx = Some ps ->
  forall f l c, span_contains (last_segment_span span p) f l c = true ->
  (forall ty, recorded_at fuel evs ty f l c ->
              option_map dl_span (location_of a ty) = option_map dl_span (location_of a (DtSymbol nx))) ->
  forall a', Permutation a a' ->
  go_to_definition a' f l c = option_map dl_span (location_of a (DtSymbol nx)).
Proof.
  intros fuel evs a WF R g scope p span nx ps Iev Q P f l c Hc Single a' Perm.
  destruct (run_pass_spec _ _ _ _ WF R) as [K S]. specialize (K ltac:(constructor)).
  assert (Hp : p <> []) by (rewrite Forall_forall in WF; apply (WF _ Iev)).
  (* the occurrence is a usage of nx *)
  assert (Iu : In (mkLoc ps (last_segment_span span p)) (usages_of a (DtSymbol nx))).
  { apply (proj1 (S (DtSymbol nx))). right. exists (EvUse g scope p span). split; [assumption|]. cbn.
    destruct (add_symbol_usage fuel g scope p span []) as [a0|] eqn:A.
    - destruct (usage_is_binding _ _ _ _ _ _ _ _ Hp Q A) as [B1 _]. specialize (B1 _ P).
      apply (proj1 (add_symbol_usage_spec _ _ _ _ _ _ _ Hp A (DtSymbol nx))) in B1 as [[]|B1]. assumption.
    - unfold add_symbol_usage in A. unfold query in Q. destruct (query_traversal_steps fuel g scope p); discriminate. }
  apply goto_unique_location with (a := a); [| |assumption].
  - unfold usages_of, get_or_empty in Iu. destruct (get a (DtSymbol nx)) as [d|] eqn:G; [|destruct Iu].
    apply in_get in G; [|assumption]. intro E.
    assert (In (DtSymbol nx, d) (find_ a f l c)); [|rewrite E in *; contradiction].
    apply find_filter_in. repeat split; auto. cbn. apply contains_spec.
    exists (mkLoc ps (last_segment_span span p)). split; [|assumption].
    unfold definition_and_usages. destruct (location d); [right|]; assumption.
  - intros ty d Hin. destruct (found_recorded _ _ _ WF R _ _ _ _ _ Hin) as [Rec G].
    rewrite <- (Single _ Rec). unfold location_of, get_or_empty. rewrite G. reflexivity.
Qed.

(* the last pass alone decides *)
Theorem cleared_history : forall fuel passes evs, run_passes fuel (passes ++ [evs]) = run_pass fuel [] evs.
Proof. intros. unfold run_passes. rewrite last_last. reflexivity. Qed.

(* ---------- the history witness of the repaired defect ---------- *)
Definition w_foo : ident := [102; 111; 111]%N.
Definition w_scope1 : ident := [36; 115; 49]%N.
Definition w_g0 : graph := [mkEdge 0 w_scope1 2; mkEdge 0 w_foo 1].
Definition w_g1 : graph := mkEdge 2 w_foo 3 :: w_g0.
Definition w_outer := mkSpan 0 1 0 1 3.
Definition w_inner := mkSpan 0 4 0 4 3.
Definition w_occ := mkSpan 0 3 4 3 7.
Definition w_events (g : graph) : list Event :=
  [EvDefine 1 (mkLoc 0 w_outer); EvUse g 2 [w_foo] w_occ; EvDefine 3 (mkLoc 2 w_inner)].
Definition w_history := [w_events w_g0; w_events w_g1].

Lemma accumulate_refuted :
  exists a, run_passes_accumulating 5 w_history = Some a /\
    query 5 w_g1 2 [w_foo] = Some (Some 3) /\
    location_of a (DtSymbol 3) = Some (mkLoc 2 w_inner) /\
    In (mkLoc 0 w_occ) (usages_of a (DtSymbol 1)) /\ In (mkLoc 2 w_occ) (usages_of a (DtSymbol 3)) /\
    exists a', Permutation a a' /\ go_to_definition a' 0 3 5 = Some w_outer.
Proof.
  eexists. split; [vm_compute; reflexivity|]. split; [vm_compute; reflexivity|]. split; [vm_compute; reflexivity|].
  split; [vm_compute; auto|]. split; [vm_compute; auto|].
  eexists. split; [apply Permutation_refl|]. vm_compute. reflexivity.
Qed.

Lemma history_repaired : forall a a',
  run_passes 5 w_history = Some a -> Permutation a a' -> go_to_definition a' 0 3 5 = Some w_inner.
Proof.
  intros a a' R P. vm_compute in R. inversion R; subst a; clear R.
  eapply goto_unique_location; [| |exact P].
  - vm_compute. discriminate.
  - intros ty d H. vm_compute in H. destruct H as [H|[]]. inversion H; subst. reflexivity.
Qed.

(* Dap.v -- interleaving model, at lock granularity, of the debug adapter of the emulated test machine.

   Mirrors mos/src/debugger/adapters/test_runner/mod.rs (machine thread loop, pause/next/step_in/step_out/resume/start/
   set_breakpoints/registers/running_state), mos/src/debugger/adapters/mod.rs (Machine poller) and the parts of
   mos/src/debugger/mod.rs that talk to the adapter (request handlers, handle_machine_event).

   Threads: machine (actions M_...), session (actions S_...; one request at a time), poller (P_poll).
   One action = one region of the Rust code that runs under a lock that excludes every other action touching the
   same data:
     M_read_state     `*thread_state.lock()`                      (copy the run state; decides the branch of the match)
     M_check_bp       the block holding `thread_runner.read()`   (read pc, last_checked_pc, breakpoints, publish Stopped)
     M_execute        the block holding `thread_runner.write()`  (execute_instruction, test end)
     S_pause_read_pc  `self.runner.read()...get_program_counter()` in pause()
     S_pause_publish  update_state(Stopped(pc))                   (state lock + event)
     S_step_exec      the block holding `self.runner.write()` in step_in / next / step_out
     S_resume, S_start, S_set_bps, S_stack (running_state), S_regs (registers), S_eval_* (evaluate's three reads)
     S_event          handle_machine_event for one queued MachineEvent
     P_poll           Machine::new's poller iteration (adapter write lock; poll() is empty for this adapter)
   M_check_bp reads several locks in sequence while holding the runner read lock; nothing another thread can do in
   between changes what it reads except the writes that are equally possible just before it, so it is one action.

   Two protocols:
     Legacy    the adapter as pinned: the machine thread releases the state lock after copying the state; pause()
               reads the pc and publishes it in two separately locked regions.
     StateHeld the repaired adapter: the machine thread keeps the state lock from M_read_state (when it saw Running)
               to the end of the iteration, and pause() reads the pc and publishes while holding the state lock.
   The CPU (the whole TestRunner: registers, memory, cycle count, pending test elements) is abstract. *)
From Coq Require Import List ZArith Bool.
Import ListNotations.
Open Scope Z_scope.

Inductive protocol := Legacy | StateHeld.

(* MachineRunningState *)
Inductive rstate := Launching | Running | Stopped (p : Z).

(* MachineEvent *)
Inductive mevent := RSC (old new : rstate) | Message | Disconnected.

Inductive stepkind := KIn | KOver | KOut.

(* requests that reach the adapter *)
Inductive request :=
| RConfigDone | RContinue | RPause | RStep (k : stepkind) | RSetBps (b : list (Z * Z))
| RStackTrace | RRegisters | REvaluate.

(* where the machine thread is in its loop *)
Inductive mloc :=
| MTop       (* at `while is_connected`, about to copy the run state (or sleeping 50 ms) *)
| MRead      (* copied `Running`; about to take the runner read lock *)
| MChecked   (* breakpoint check done, no hit; about to take the runner write lock and execute *)
| MExit.     (* left the loop *)

(* where the session thread is *)
Inductive sloc :=
| SIdle                                   (* in select(): next client request or next machine event *)
| SStart | SResume | SSetBps (b : list (Z * Z)) | SStack | SRegs
| SEvalRegs | SEvalFlags | SEvalState
| SStepExec (k : stepkind)
| SPauseRead (r : request)                (* pause(): about to read the pc; r = the request being served *)
| SPausePublish (r : request) (p : Z)     (* pause(): pc read, about to update_state *)
| SDead.                                  (* the session thread panicked *)

Inductive action :=
| M_read_state | M_check_bp | M_execute
| S_req (r : request)
| S_start | S_resume | S_set_bps | S_stack | S_regs | S_eval_regs | S_eval_flags | S_eval_state
| S_step_exec | S_pause_read_pc | S_pause_publish
| S_event
| P_poll.

(* what the client sees *)
Inductive dapevent := EvStoppedBreakpoint | EvStoppedStep | EvContinued | EvOutput | EvTerminated.

Section Dap.
  Variable cpu : Type.
  Variable pc : cpu -> Z.                 (* cpu().get_program_counter() *)
  Variable step : cpu -> cpu.             (* execute_instruction returning ExecuteResult::Running *)
  Variable fin : cpu -> bool.             (* execute_instruction returns TestSuccess / TestFailed: nothing is executed *)
  Variable step_over : cpu -> cpu.        (* TestRunner::step_over, run in one piece under the runner write lock *)
  Variable step_out : cpu -> cpu.         (* TestRunner::step_out *)
  Variable reset_lcp : bool.              (* the machine thread clears last_checked_pc after execute_instruction
                                             (true after the fix for breakpoints on one-instruction loops; false as pinned) *)

  Inductive obs :=
  | OResp (r : request)                   (* success response without interesting body *)
  | OError (r : request)                  (* error response: run control refused while the machine is launching *)
  | OStack (s : rstate)                   (* stackTrace: a frame for Stopped(pc), no frame otherwise *)
  | ORegs (c : cpu)                       (* variables(Registers) / one of evaluate's two reads: a snapshot of the runner *)
  | OEvent (e : dapevent).

  Record st := mk {
    rs : rstate;            (* Arc<Mutex<MachineRunningState>> *)
    cp : cpu;               (* Arc<RwLock<TestRunner>> *)
    bps : list (Z * Z);     (* Arc<Mutex<Vec<MachineBreakpoint>>>: address ranges start..end *)
    conn : bool;            (* is_connected *)
    chan : list mevent;     (* the unbounded MachineEvent channel, oldest first *)
    ml : mloc;
    lcp : option Z;         (* last_checked_pc (local to the machine thread) *)
    sl : sloc
  }.

  Definition init (c : cpu) : st := mk Launching c [] true [] MTop None SIdle.

  Definition hit (b : list (Z * Z)) (p : Z) : bool :=
    existsb (fun r => (fst r <=? p) && (p <? snd r)) b.

  Definition opt_eqb (o : option Z) (p : Z) : bool :=
    match o with Some q => q =? p | None => false end.

  (* ExecuteResult of one execute_instruction *)
  Definition exec1 (c : cpu) : cpu := if fin c then c else step c.

  Definition set_ml (s : st) (m : mloc) : st := mk (rs s) (cp s) (bps s) (conn s) (chan s) m (lcp s) (sl s).
  Definition set_sl (s : st) (l : sloc) : st := mk (rs s) (cp s) (bps s) (conn s) (chan s) (ml s) (lcp s) l.

  (* update_state / the breakpoint arm: `old = *state; *state = new; send(RunningStateChanged{old,new})` *)
  Definition publish (s : st) (new : rstate) : st :=
    mk new (cp s) (bps s) (conn s) (chan s ++ [RSC (rs s) new]) (ml s) (lcp s) (sl s).

  (* the state mutex is held by the machine thread (StateHeld protocol only) *)
  Definition state_locked (p : protocol) (s : st) : bool :=
    match p, ml s with
    | StateHeld, MRead | StateHeld, MChecked => true
    | _, _ => false
    end.

  (* first location of a request handler *)
  Definition entry (r : request) : sloc :=
    match r with
    | RConfigDone => SStart
    | RContinue => SResume
    | RPause => SPauseRead RPause
    | RStep k => SStepExec k
    | RSetBps b => SSetBps b
    | RStackTrace => SStack
    | RRegisters => SRegs
    | REvaluate => SEvalRegs
    end.

  (* requests served through started_machine_adapter_mut *)
  Definition needs_started (r : request) : bool :=
    match r with RContinue | RPause | RStep _ => true | _ => false end.
  Definition is_launching (x : rstate) : bool := match x with Launching => true | _ => false end.

  (* handle_machine_event *)
  Definition event_of (e : mevent) : option (option dapevent) :=   (* None = panic *)
    match e with
    | RSC Running (Stopped _) => Some (Some EvStoppedBreakpoint)
    | RSC (Stopped _) (Stopped _) => Some (Some EvStoppedStep)
    | RSC (Stopped _) Running => Some (Some EvContinued)
    | RSC Running Running => Some None
    | RSC Launching _ => None
    | RSC _ Launching => None
    | Message => Some (Some EvOutput)
    | Disconnected => Some (Some EvTerminated)
    end.

  Definition do_check_bp (s : st) : st :=
    let p := pc (cp s) in
    if opt_eqb (lcp s) p then set_ml s MChecked
    else
      let s1 := mk (rs s) (cp s) (bps s) (conn s) (chan s) (ml s) (Some p) (sl s) in
      if hit (bps s) p then set_ml (publish s1 (Stopped p)) MTop
      else set_ml s1 MChecked.

  Definition do_execute (s : st) : st :=
    let l := if reset_lcp then None else lcp s in
    if fin (cp s) then
      mk (rs s) (cp s) (bps s) false (chan s ++ [Message; Disconnected]) MTop l (sl s)
    else
      mk (rs s) (step (cp s)) (bps s) (conn s) (chan s) MTop l (sl s).

  Definition do_step (k : stepkind) (c : cpu) : cpu :=
    match k with KIn => exec1 c | KOver => step_over c | KOut => step_out c end.

  (* one action; None = not enabled in this state *)
  Definition step_act (p : protocol) (a : action) (s : st) : option (st * list obs) :=
    match a with
    | M_read_state =>
        match ml s with
        | MTop =>
            if negb (conn s) then Some (set_ml s MExit, [])
            else match rs s with
                 | Running => Some (set_ml s MRead, [])
                 | _ => Some (s, [])                       (* sleep 50 ms *)
                 end
        | _ => None
        end
    | M_check_bp =>
        match ml s with MRead => Some (do_check_bp s, []) | _ => None end
    | M_execute =>
        match ml s with MChecked => Some (do_execute s, []) | _ => None end
    | S_req r =>
        match sl s with
        | SIdle =>
            (* DebugSession::started_machine_adapter_mut: continue / pause / next / stepIn / stepOut are answered with an
               error while running_state() is Launching (a read under the state lock); nothing else happens *)
            if needs_started r && is_launching (rs s) then
              (if state_locked p s then None else Some (s, [OError r]))
            else Some (set_sl s (entry r), [])
        | _ => None
        end
    | S_start =>
        match sl s with
        | SStart => if state_locked p s then None
                    else Some (mk Running (cp s) (bps s) (conn s) (chan s) (ml s) (lcp s) SIdle, [OResp RConfigDone])
        | _ => None
        end
    | S_resume =>
        match sl s with
        | SResume => if state_locked p s then None
                     else Some (set_sl (publish s Running) SIdle, [OResp RContinue])
        | _ => None
        end
    | S_set_bps =>
        match sl s with
        | SSetBps b => Some (mk (rs s) (cp s) b (conn s) (chan s) (ml s) (lcp s) SIdle, [OResp (RSetBps b)])
        | _ => None
        end
    | S_stack =>
        match sl s with
        | SStack => if state_locked p s then None else Some (set_sl s SIdle, [OStack (rs s)])
        | _ => None
        end
    | S_regs =>
        match sl s with SRegs => Some (set_sl s SIdle, [ORegs (cp s)]) | _ => None end
    | S_eval_regs =>
        match sl s with SEvalRegs => Some (set_sl s SEvalFlags, [ORegs (cp s)]) | _ => None end
    | S_eval_flags =>
        match sl s with SEvalFlags => Some (set_sl s SEvalState, [ORegs (cp s)]) | _ => None end
    | S_eval_state =>
        match sl s with
        | SEvalState => if state_locked p s then None else Some (set_sl s SIdle, [OStack (rs s)])
        | _ => None
        end
    | S_step_exec =>
        match sl s with
        | SStepExec k =>
            Some (mk (rs s) (do_step k (cp s)) (bps s) (conn s) (chan s) (ml s) (lcp s) (SPauseRead (RStep k)), [])
        | _ => None
        end
    | S_pause_read_pc =>
        match sl s with
        | SPauseRead r =>
            match p with
            | Legacy => Some (set_sl s (SPausePublish r (pc (cp s))), [])
            | StateHeld =>
                (* state lock taken first; pc read and published without releasing it *)
                if state_locked p s then None
                else Some (set_sl (publish s (Stopped (pc (cp s)))) SIdle, [OResp r])
            end
        | _ => None
        end
    | S_pause_publish =>
        match sl s with
        | SPausePublish r q => Some (set_sl (publish s (Stopped q)) SIdle, [OResp r])
        | _ => None
        end
    | S_event =>
        match sl s, chan s with
        | SIdle, e :: rest =>
            let s' := mk (rs s) (cp s) (bps s) (conn s) rest (ml s) (lcp s) SIdle in
            match event_of e with
            | None => Some (set_sl s' SDead, [])
            | Some None => Some (s', [])
            | Some (Some d) => Some (s', [OEvent d])
            end
        | _, _ => None
        end
    | P_poll =>
        match sl s with SIdle | SDead => Some (s, []) | _ => None end
    end.

  (* a schedule; None = some action was not enabled *)
  Fixpoint run (p : protocol) (tr : list action) (s : st) : option st :=
    match tr with
    | [] => Some s
    | a :: tr' => match step_act p a s with
                  | Some (s', _) => run p tr' s'
                  | None => None
                  end
    end.

  Fixpoint run_obs (p : protocol) (tr : list action) (s : st) : option (st * list obs) :=
    match tr with
    | [] => Some (s, [])
    | a :: tr' => match step_act p a s with
                  | Some (s', o) => match run_obs p tr' s' with
                                    | Some (s'', o') => Some (s'', o ++ o')
                                    | None => None
                                    end
                  | None => None
                  end
    end.
End Dap.

Arguments mk {cpu}.
Arguments rs {cpu}. Arguments cp {cpu}. Arguments bps {cpu}. Arguments conn {cpu}. Arguments chan {cpu}.
Arguments ml {cpu}. Arguments lcp {cpu}. Arguments sl {cpu}.
Arguments init {cpu}.
Arguments OResp {cpu}. Arguments OError {cpu}. Arguments OStack {cpu}. Arguments ORegs {cpu}. Arguments OEvent {cpu}.

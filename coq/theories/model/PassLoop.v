(* Code model: the `while` loop of codegen() (mos-core/src/codegen/mod.rs) over an abstract, deterministic pass.
   The loop is written exactly in the order of the Rust code; which rules exist, and the cap, come from
   Gen/PassLoop.v (translated from the source on every run).  No proofs in this file. *)
From Coq Require Import List Bool Arith ZArith.
Import ListNotations.
From Mos Require Import Gen.PassLoop.

Section Loop.
  Variables C E U : Type.
  (* emit_tokens(main file) + after_pass: the new context, the errors of this pass (Diagnostics::default() when the
     pass returned Ok), and whether the pass asks for another one: it added nodes to the symbol graph (`symbols_added`,
     if the source consults it) or gave some symbol another value (`!ctx.changed.is_empty()`, if the source consults it) *)
  Variable pass : C -> C * E * bool.
  Variable undefined : C -> U.                     (* ctx.undefined *)
  Variable take_undefined : C -> C.                (* std::mem::take(&mut ctx.undefined) leaves the empty set *)
  Variable no_segments : C -> bool.                (* ctx.segments.is_empty() *)
  Variable create_default_segment : C -> C.
  Variable next_pass : C -> C.
  Variable e_none : E.                             (* Diagnostics::default() *)
  Variable e_is_empty : E -> bool.
  Variable e_eqb : E -> E -> bool.
  Variable u_none : U.                             (* HashSet::new() *)
  Variable u_is_empty : U -> bool.
  Variable u_eqb : U -> U -> bool.

  Inductive exit :=
    | ExitClean (c : C)                            (* `break`, then finalize: the build succeeded *)
    | ExitSameErrors (c : C) (errors : E)          (* `return (Some(ctx), errors)` *)
    | ExitSameUndefined (c : C)                    (* "unknown identifier" diagnostics for ctx.undefined *)
    | ExitCap (c : C) (prev_errors : E).           (* pass_idx == MAX_ITERATIONS *)

  (* the three variables the loop carries besides pass_idx *)
  Record lstate := mkL { l_ctx : C; l_prev_undefined : U; l_prev_errors : E }.

  Inductive step_result := Stop (x : exit) | Next (s : lstate).

  (* one iteration of the loop body *)
  Definition step (s : lstate) : step_result :=
    match pass (l_ctx s) with
    | (c1, errors, symbols_added) =>
        if no_segments c1 then
          (* no rule is consulted in the pass that creates the default segment *)
          Next (mkL (next_pass (create_default_segment c1)) (l_prev_undefined s) errors)
        else if rule_same_errors && negb (e_is_empty errors) && e_eqb errors (l_prev_errors s) then
          Stop (ExitSameErrors c1 errors)
        else if e_is_empty errors then
          if rule_clean_pass && u_is_empty (undefined c1)
             && (negb (clean_needs_no_new_symbols || clean_needs_no_changed_symbols) || negb symbols_added) then
            Stop (ExitClean c1)
          else if rule_same_undefined && (negb same_undefined_needs_nonempty || negb (u_is_empty (undefined c1)))
                  && u_eqb (undefined c1) (l_prev_undefined s) then
            Stop (ExitSameUndefined c1)
          else
            Next (mkL (next_pass (take_undefined c1)) (undefined c1) errors)
        else
          Next (mkL (next_pass c1) (l_prev_undefined s) errors)
    end.

  Inductive outcome := Exited (passes : nat) (x : exit) | NoExitWithin (passes : nat).

  (* `while ctx.pass_idx != MAX_ITERATIONS { body }`; cap = None is usize::MAX.  `fuel` bounds the passes the model
     is willing to run; running out of fuel is NoExitWithin, never a normal-looking result. *)
  Fixpoint run (cap : option nat) (fuel idx : nat) (s : lstate) : outcome :=
    match fuel with
    | O => NoExitWithin idx
    | S f =>
        if (match cap with Some m => Nat.eqb idx m | None => false end) then Exited idx (ExitCap (l_ctx s) (l_prev_errors s))
        else match step s with
             | Stop x => Exited (S idx) x
             | Next s' => run cap f (S idx) s'
             end
    end.

  Definition initial (c : C) : lstate := mkL c u_none e_none.

  (* codegen(): the loop as the code has it now *)
  Definition codegen_loop (fuel : nat) (c : C) : outcome := run max_iterations fuel 0 (initial c).

  (* state before pass k, when no earlier pass stopped *)
  Fixpoint state_at (k : nat) (s : lstate) : option lstate :=
    match k with
    | O => Some s
    | S k' => match state_at k' s with
              | Some s' => match step s' with Next s'' => Some s'' | Stop _ => None end
              | None => None
              end
    end.
End Loop.

Arguments ExitClean {C E}. Arguments ExitSameErrors {C E}. Arguments ExitSameUndefined {C E}. Arguments ExitCap {C E}.
Arguments Stop {C E U}. Arguments Next {C E U}. Arguments mkL {C E U}.
Arguments Exited {C E}. Arguments NoExitWithin {C E}.

(* ---- a concrete instance used by the correspondence check: the pass function is replaced by the observations
   hook H1 delivers (digests of the errors / of the undefined set, symbols_added, number of segments) ---- *)
Record obs := mkObs { o_errors : nat; o_errors_digest : Z; o_undefined : nat; o_undefined_digest : Z;
                      o_symbols_added : bool; o_segments : nat }.

(* context = the observations still to come; a pass consumes one *)
Definition tr_pass (c : list obs) : list obs * (nat * Z) * bool :=
  match c with
  | [] => ([], (0, 0%Z), false)
  | o :: r => (o :: r, (o_errors o, o_errors_digest o), o_symbols_added o)
  end.
Definition tr_undefined (c : list obs) : nat * Z :=
  match c with [] => (0, 0%Z) | o :: _ => (o_undefined o, o_undefined_digest o) end.
Definition tr_no_segments (c : list obs) : bool := match c with [] => false | o :: _ => Nat.eqb (o_segments o) 0 end.
Definition tr_next (c : list obs) : list obs := tl c.
Definition pair_empty (p : nat * Z) : bool := Nat.eqb (fst p) 0.
Definition pair_eqb (p q : nat * Z) : bool := Nat.eqb (fst p) (fst q) && Z.eqb (snd p) (snd q).

(* what the loop does on a recorded trace of passes: after how many passes it leaves, and through which exit *)
Definition replay_trace (cap : option nat) (trace : list obs) :=
  run (list obs) (nat * Z) (nat * Z) tr_pass tr_undefined (fun c => c) tr_no_segments (fun c => c) tr_next
      pair_empty pair_eqb pair_empty pair_eqb cap (S (length trace)) 0 (mkL trace (0, 0%Z) (0, 0%Z)).

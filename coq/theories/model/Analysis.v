(* Analysis -- the definition/usage database of mos-core/src/codegen/analysis.rs, the places in codegen/mod.rs and
   codegen/evaluator.rs that fill it, and the three navigation handlers of mos/src/lsp/references.rs.

   Spans are what `code_map.look_up_span` makes of them: file, begin line/column, end line/column (`span_contains`
   only looks at these).  Identifier paths are assumed to sit on one line and to be ASCII, so that
   `span.subspan(a, b)` shifts columns.  HashMap / HashSet are association lists / duplicate-free lists whose ORDER
   is arbitrary: every statement about them is made for all orders.

   Rust names are kept.  No proofs in this file. *)
From Coq Require Import List NArith Arith Bool.
Import ListNotations.
From Mos Require Import model.SymGraph.

Record Span := mkSpan { s_file : nat; s_l0 : nat; s_c0 : nat; s_l1 : nat; s_c1 : nat }.

Definition span_eqb (a b : Span) : bool :=
  Nat.eqb (s_file a) (s_file b) && Nat.eqb (s_l0 a) (s_l0 b) && Nat.eqb (s_c0 a) (s_c0 b)
  && Nat.eqb (s_l1 a) (s_l1 b) && Nat.eqb (s_c1 a) (s_c1 b).

(* Span::subspan on a one-line span *)
Definition subspan (s : Span) (a b : nat) : Span :=
  mkSpan (s_file s) (s_l0 s) (s_c0 s + a) (s_l0 s) (s_c0 s + b).

(* fn span_contains (the end column is inclusive) *)
Definition span_contains (s : Span) (file line col : nat) : bool :=
  Nat.eqb (s_file s) file && Nat.leb (s_l0 s) line && Nat.leb line (s_l1 s)
  && Nat.leb (s_c0 s) col && Nat.leb col (s_c1 s).

Record DefinitionLocation := mkLoc { parent_scope : node; dl_span : Span }.

Definition loc_eqb (a b : DefinitionLocation) : bool :=
  Nat.eqb (parent_scope a) (parent_scope b) && span_eqb (dl_span a) (dl_span b).

(* DtUnassembled: a symbol defined by code that is not part of the program (untaken branch, uninvoked macro); it has
   been removed from the symbol table again and keeps its definition under a key of its own *)
Inductive DefinitionType := DtFilename (f : nat) | DtSymbol (nx : node) | DtUnassembled (k : nat).

Definition dt_eqb (a b : DefinitionType) : bool :=
  match a, b with
  | DtFilename f, DtFilename f' => Nat.eqb f f'
  | DtSymbol n, DtSymbol n' => Nat.eqb n n'
  | DtUnassembled n, DtUnassembled n' => Nat.eqb n n'
  | _, _ => false
  end.

Definition is_symbol (t : DefinitionType) : bool := match t with DtFilename _ => false | _ => true end.

Record Def := mkDef { location : option DefinitionLocation; usages : list DefinitionLocation }.

Definition Analysis := list (DefinitionType * Def).

(* Definition::set_location / add_usage (HashSet::insert) *)
Definition set_location (d : Def) (l : DefinitionLocation) : Def := mkDef (Some l) (usages d).
Definition add_usage (d : Def) (l : DefinitionLocation) : Def :=
  if existsb (loc_eqb l) (usages d) then d else mkDef (location d) (l :: usages d).

(* get_or_create_definition_mut followed by a mutation f *)
Fixpoint update (a : Analysis) (ty : DefinitionType) (f : Def -> Def) : Analysis :=
  match a with
  | [] => [(ty, f (mkDef None []))]
  | (ty', d) :: rest => if dt_eqb ty' ty then (ty', f d) :: rest else (ty', d) :: update rest ty f
  end.

Definition get (a : Analysis) (ty : DefinitionType) : option Def :=
  option_map snd (find (fun e => dt_eqb (fst e) ty) a).

(* Definition::definition_and_usages / usages *)
Definition definition_and_usages (d : Def) : list DefinitionLocation :=
  match location d with Some l => l :: usages d | None => usages d end.

(* Definition::contains_usage / contains *)
Definition contains_usage (d : Def) (file line col : nat) : bool :=
  existsb (fun u => span_contains (dl_span u) file line col) (usages d).
Definition contains (d : Def) (file line col : nat) : bool :=
  match location d with
  | Some l => span_contains (dl_span l) file line col || contains_usage d file line col
  | None => contains_usage d file line col
  end.

(* Analysis::find_filter: a file definition is found through its usages (the file name in an import) only *)
Definition find_filter (a : Analysis) (filter_ : DefinitionType -> bool) (file line col : nat) : Analysis :=
  filter (fun e => filter_ (fst e) &&
                   match fst e with
                   | DtFilename _ => contains_usage (snd e) file line col
                   | _ => contains (snd e) file line col
                   end) a.
Definition find_ (a : Analysis) (file line col : nat) : Analysis := find_filter a (fun _ => true) file line col.

(* ---- recording (codegen) ---- *)

(* the loop of Analysis::add_symbol_usage over the traversal steps *)
Fixpoint add_symbol_usage_loop (g : graph) (steps : list QueryTraversalStep) (p : path) (pos : nat)
         (contains_super_ : bool) (span : Span) (a : Analysis) : Analysis :=
  match steps with
  | [] => a
  | st :: rest =>
      let '(nx, id, p') :=
        match st with
        | Symbol nx => (nx, hd_error p, tl p)
        | Super nx => if contains_super_ then (nx, hd_error p, tl p) else (nx, None, p)
        end in
      match id with
      | None => add_symbol_usage_loop g rest p' pos contains_super_ span a
      | Some id =>
          let a1 := update a (DtSymbol nx) (fun d => d) in
          let a2 := match parent g nx with
                    | Some ps => update a1 (DtSymbol nx)
                                        (fun d => add_usage d (mkLoc ps (subspan span pos (pos + List.length id))))
                    | None => a1
                    end in
          add_symbol_usage_loop g rest p' (pos + List.length id + 1) contains_super_ span a2
      end
  end.

(* Analysis::add_symbol_usage; None = the traversal ran out of fuel *)
Definition add_symbol_usage (fuel : nat) (g : graph) (scope : node) (p : path) (span : Span) (a : Analysis)
  : option Analysis :=
  match query_traversal_steps fuel g scope p with
  | None => None
  | Some steps => Some (add_symbol_usage_loop g steps p 0 (contains_super p) span a)
  end.

(* What one pass does to the database, in order.  The symbol table the evaluator sees at that moment is part of
   the event: CodegenContext::evaluate_expression asks `get_symbol` (= query) and then records with the same table. *)
Inductive Event :=
| EvUse (g : graph) (scope : node) (p : path) (span : Span)      (* evaluate_expression -> lookup_symbol, tracked *)
| EvDefine (nx : node) (l : DefinitionLocation)                  (* add_symbol -> set_location; a LATER assignment of a
                                                                    variable in the same pass is an EvUsage instead *)
| EvUsage (ty : DefinitionType) (l : DefinitionLocation)         (* macro invocation, import argument, import file name *)
| EvFileLocation (f : nat) (l : DefinitionLocation).             (* import: the imported file as a definition *)

Definition apply_event (fuel : nat) (a : option Analysis) (e : Event) : option Analysis :=
  match a with
  | None => None
  | Some a =>
      match e with
      | EvUse g scope p span => add_symbol_usage fuel g scope p span a
      | EvDefine nx l => Some (update a (DtSymbol nx) (fun d => set_location d l))
      | EvUsage ty l => Some (update a ty (fun d => add_usage d l))
      | EvFileLocation f l => Some (update a (DtFilename f) (fun d => set_location d l))
      end
  end.

Definition run_pass (fuel : nat) (a : Analysis) (evs : list Event) : option Analysis :=
  fold_left (apply_event fuel) evs (Some a).

(* codegen(): every pass starts from an empty database (CodegenContext::next_pass clears it) *)
Definition run_passes (fuel : nat) (passes : list (list Event)) : option Analysis :=
  run_pass fuel [] (last passes []).

(* the behaviour before the repair: nothing was ever cleared *)
Definition run_passes_accumulating (fuel : nat) (passes : list (list Event)) : option Analysis :=
  run_pass fuel [] (concat passes).

(* ---- navigation (mos/src/lsp/references.rs) ---- *)

(* GoToDefinitionHandler: the first definition found; its location, if it has one *)
Definition go_to_definition (a : Analysis) (file line col : nat) : option Span :=
  match find_ a file line col with
  | [] => None
  | (_, d) :: _ => option_map dl_span (location d)
  end.

(* FindReferencesHandler *)
Definition find_references (a : Analysis) (include_declaration : bool) (file line col : nat) : list Span :=
  flat_map (fun e => map dl_span (if include_declaration then definition_and_usages (snd e) else usages (snd e)))
           (find_filter a is_symbol file line col).

(* DocumentHighlightRequestHandler *)
Definition document_highlight (a : Analysis) (file line col : nat) : list Span :=
  flat_map (fun e => filter (fun s => Nat.eqb (s_file s) file) (map dl_span (definition_and_usages (snd e))))
           (find_ a file line col).

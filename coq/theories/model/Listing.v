(* Code model: mos-core/src/io/listing.rs `to_listing`, per file, up to the row structure
   (line number, optional address, bytes, whether the source text follows); the textual rendering of a row
   (format!("{:>5}"), "{:04X}:", "{:02X}", padding to 3*n columns, trim_end) is done by the check's renderer.
   Input: the CodeMap, the source map offsets, the segments as the codegen context holds them after the last pass. *)
From Coq Require Import List NArith ZArith Bool Arith.
Import ListNotations.
From Mos Require Import model.SourceMap.
Open Scope Z_scope.

(* what to_listing reads of a Segment *)
Record lseg := mkLseg {
  ls_lo : Z;               (* range().start  (EMIT addresses) *)
  ls_hi : Z;               (* range().end *)
  ls_data : list N;        (* range_data() *)
  ls_toff : Z              (* target_offset() = target_address - initial_pc *)
}.
Definition segments := list (N * lseg).     (* IndexMap<Identifier, Segment>, insertion order *)

Fixpoint get_segment (segs : segments) (name : N) : option lseg :=
  match segs with
  | [] => None
  | (k, s) :: r => if N.eqb k name then Some s else get_segment r name
  end.

Definition cell := (Z * N)%type.            (* (pc, byte) *)

(* while start < end { data.push((pc, segment.range_data()[start])); start += 1; pc += 1 } *)
Fixpoint read_cells (data : list N) (start : nat) (pc : Z) (count : nat) : res (list cell) :=
  match count with
  | O => Ok []
  | S k => match nth_error data start with
           | None => Panic                   (* index out of bounds *)
           | Some b => bind (read_cells data (S start) (pc + 1) k) (fun r => Ok ((pc, b) :: r))
           end
  end.

Definition offset_cells (segs : segments) (o : offset) : res (list cell) :=
  match get_segment segs (o_segment o) with
  | None => Ok []
  | Some seg =>
      let emit_start := o_pc0 o - ls_toff seg in
      let emit_end := o_pc1 o - ls_toff seg in
      if (ls_lo seg <=? emit_start) && (ls_hi seg >=? emit_end) then
        read_cells (ls_data seg) (Z.to_nat (emit_start - ls_lo seg)) (o_pc0 o) (Z.to_nat (o_pc1 o - o_pc0 o))
      else Ok []
  end.

(* the `runs` loop: a new run starts where the address is not the successor of the previous one *)
Definition last_opt {A} (l : list A) : option A := match rev l with [] => None | x :: _ => Some x end.

Definition push_cell (runs : list (list cell)) (c : cell) : list (list cell) :=
  match last_opt runs with
  | Some run =>
      match last_opt run with
      | Some (last_pc, _) => if last_pc + 1 =? fst c then removelast runs ++ [run ++ [c]] else runs ++ [[c]]
      | None => runs ++ [[c]]
      end
  | None => runs ++ [[c]]
  end.
Definition runs (data : list cell) : list (list cell) := fold_left push_cell data [].

(* slice::chunks(n), n > 0 *)
Fixpoint chunks_fuel {A} (fuel n : nat) (l : list A) : list (list A) :=
  match fuel with
  | O => []
  | S k => match l with [] => [] | _ => firstn n l :: chunks_fuel k n (skipn n l) end
  end.
Definition chunks {A} (n : nat) (l : list A) : list (list A) := chunks_fuel (length l) n l.

Record row := mkRow {
  r_line : nat;            (* line_idx (0-based; printed + 1) *)
  r_addr : option Z;       (* pc of the first byte; None = the row of a line that emitted nothing *)
  r_bytes : list N;
  r_src : bool             (* the source line's text follows the bytes *)
}.

Definition chunk_row (line : nat) (first : bool) (chunk : list cell) : row :=
  mkRow line (match chunk with (pc, _) :: _ => Some pc | [] => None end) (map snd chunk) first.

Fixpoint chunk_rows (line : nat) (first : bool) (cs : list (list cell)) : list row :=
  match cs with
  | [] => []
  | c :: r => chunk_row line first c :: chunk_rows line false r
  end.

(* run.chunks(0) panics ("chunk size must be non-zero"); it is reached only for a line with data *)
Definition rows_of_data (n : nat) (line : nat) (data : list cell) : res (list row) :=
  match data with
  | [] => Ok [mkRow line None [] true]
  | _ => if (n =? 0)%nat then Panic else Ok (chunk_rows line true (flat_map (chunks n) (runs data)))
  end.

(* the filter added to to_listing: a statement is listed on the line it begins on *)
Definition begins_on (cm : code_map) (line : nat) (o : offset) : res bool :=
  bind (look_up_span cm (o_span o)) (fun sl => Ok (lc_line (sl_begin sl) =? line)%nat).

Definition line_data (cm : code_map) (sm : source_map) (segs : segments) (filename : N) (line : nat) : res (list cell) :=
  bind (line_col_to_offsets sm cm filename line None) (fun offsets =>
  bind (filterM (begins_on cm line) offsets) (fun offsets =>
  bind (mapM (offset_cells segs) offsets) (fun cells => Ok (concat cells)))).

Definition line_rows (cm : code_map) (sm : source_map) (segs : segments) (n : nat) (filename : N) (line : nat) : res (list row) :=
  bind (line_data cm sm segs filename line) (fun data => rows_of_data n line data).

(* one file's listing *)
Definition to_listing_file (cm : code_map) (sm : source_map) (segs : segments) (n : nat) (f : file) : res (list row) :=
  bind (mapM (line_rows cm sm segs n (f_name f)) (seq 0 (num_lines f))) (fun rs => Ok (concat rs)).

(* to_listing: for file in code_map.files() *)
Definition to_listing (cm : code_map) (sm : source_map) (segs : segments) (n : nat) : res (list (N * list row)) :=
  mapM (fun f => bind (to_listing_file cm sm segs n f) (fun rows => Ok (f_name f, rows))) cm.

(* the guard at the head of to_listing: `if !(1..=MAX_BYTES_PER_LINE).contains(&num_bytes_per_line) { return Err(..) }`
   (None = that diagnostic); with it the `chunks(0)` panic of rows_of_data is unreachable from to_listing *)
Definition max_bytes_per_line : nat := 256.
Definition width_accepted (n : nat) : bool := ((1 <=? n) && (n <=? max_bytes_per_line))%nat.
Definition to_listing_checked (cm : code_map) (sm : source_map) (segs : segments) (n : nat) : option (res (list (N * list row))) :=
  if width_accepted n then Some (to_listing cm sm segs n) else None.

(* ------------------------------------------------------------------ the text of a listing (bytes, UTF-8)
   format!("{:>5}", line_idx + 1), format!("{:5}", ""), format!("{:width$}", .., width = n * 3), format!("{:04X}:", pc),
   format!("{:02X}", b) joined by " ", line.join(" "), trim_end() of a row with bytes, rows joined by LINE_ENDING ("\n"),
   trim_end() of the whole text.  File::source_line: the line without its trailing '\n' / '\r' characters. *)
Local Open Scope N_scope.
Definition sp : N := 32.
Fixpoint digits_fuel (fuel : nat) (base : N) (x : N) (acc : list N) : list N :=
  match fuel with
  | O => acc
  | S f => let d := N.modulo x base in
           let c := if d <? 10 then 48 + d else 55 + d in      (* '0'.. / 'A'.. *)
           if x / base =? 0 then c :: acc else digits_fuel f base (x / base) (c :: acc)
  end.
Definition digits (base x : N) : list N := digits_fuel (S (N.size_nat x)) base x [].
Definition pad_left (c : N) (w : nat) (s : list N) : list N := repeat c (w - length s)%nat ++ s.
Definition pad_right (c : N) (w : nat) (s : list N) : list N := s ++ repeat c (w - length s)%nat.
Fixpoint join (sep : list N) (parts : list (list N)) : list N :=
  match parts with
  | [] => []
  | [p] => p
  | p :: r => p ++ sep ++ join sep r
  end.

(* char::is_whitespace (Unicode White_Space) on UTF-8, read backwards: trim_end on the reversed byte string *)
Definition ws1 (b : N) : bool := ((9 <=? b) && (b <=? 13)) || (b =? 32).
Fixpoint trim_start_rev (r : list N) : list N :=
  match r with
  | b :: r1 =>
      if ws1 b then trim_start_rev r1
      else match r1 with
           | b1 :: r2 =>
               if (b1 =? 194) && ((b =? 133) || (b =? 160)) then trim_start_rev r2           (* U+0085, U+00A0 *)
               else match r2 with
                    | b2 :: r3 =>
                        if ((b2 =? 225) && (b1 =? 154) && (b =? 128))                         (* U+1680 *)
                           || ((b2 =? 226) && (b1 =? 128) && (((128 <=? b) && (b <=? 138)) || (b =? 168) || (b =? 169) || (b =? 175)))
                                                                                             (* U+2000..200A, 2028, 2029, 202F *)
                           || ((b2 =? 226) && (b1 =? 129) && (b =? 159))                     (* U+205F *)
                           || ((b2 =? 227) && (b1 =? 128) && (b =? 128))                     (* U+3000 *)
                        then trim_start_rev r3 else r
                    | [] => r
                    end
           | [] => r
           end
  | [] => []
  end.
Definition trim_end (s : list N) : list N := rev (trim_start_rev (rev s)).

Fixpoint drop_eol_rev (r : list N) : list N :=
  match r with b :: r1 => if (b =? 10) || (b =? 13) then drop_eol_rev r1 else r | [] => [] end.
(* File::source_line *)
Definition source_line (f : file) (line : nat) : list N :=
  let lo := Z.to_nat (nth line (lines f) 0%Z) in
  let hi := match nth_error (lines f) (S line) with Some h => Z.to_nat h | None => length (f_src f) end in
  rev (drop_eol_rev (rev (firstn (hi - lo)%nat (skipn lo (f_src f))))).

Definition render_row (n : nat) (f : file) (r : row) : list N :=
  let num := pad_left sp 5%nat (digits 10 (N.of_nat (S (r_line r)))) in
  match r_addr r with
  | None => join [sp] [num; repeat sp 5%nat; repeat sp (n * 3)%nat; source_line f (r_line r)]
  | Some pc =>
      let bytes := pad_right sp (n * 3)%nat (join [sp] (map (fun b => pad_left 48 2%nat (digits 16 b)) (r_bytes r))) in
      let addr := pad_left 48 4%nat (digits 16 (Z.to_N pc)) ++ [58] in
      trim_end (join [sp] ([num; addr; bytes] ++ (if r_src r then [source_line f (r_line r)] else [])))
  end.

Definition render_listing (n : nat) (f : file) (rows : list row) : list N :=
  trim_end (join [10] (map (render_row n f) rows)).

(* to_listing, as text *)
Definition to_listing_text (cm : code_map) (sm : source_map) (segs : segments) (n : nat) : res (list (N * list N)) :=
  mapM (fun f => bind (to_listing_file cm sm segs n f) (fun rows => Ok (f_name f, render_listing n f rows))) cm.

(* Code model: expression AST (parser/ast.rs), Number::value, and the evaluator (codegen/evaluator.rs). *)
From Coq Require Import List NArith ZArith Bool.
Import ListNotations.
From Mos Require Import model.I64 Gen.BinOps.
Open Scope Z_scope.

Definition text := list N.
Inductive modifier := LowByte | HighByte.
Inductive stritem := SLit (s : text) | SPath (p : list text).

(* Expression::Factor { factor, flags } is folded into one constructor per factor kind (same information) *)
Inductive expr :=
  | EBin (op : binop) (l r : expr)
  | ENum (radix : Z) (digits : text) (fnot fneg : bool)
  | EId (path : list text) (m : option modifier) (fnot fneg : bool)
  | EPc (fnot fneg : bool)
  | EParens (e : expr) (fnot fneg : bool)
  | ECall (name : text) (args : list expr) (fnot fneg : bool)
  | EStr (items : list stritem) (fnot fneg : bool).

(* ---- Number::value ---- *)
Definition t_true : text := [116; 114; 117; 101]%N.
Definition t_false : text := [102; 97; 108; 115; 101]%N.

(* char::to_digit(radix) as used by from_str_radix *)
Definition digit_value (radix : Z) (c : N) : option Z :=
  let c := Z.of_N c in
  let d := if (48 <=? c) && (c <=? 57) then Some (c - 48)
           else if (97 <=? c) && (c <=? 122) then Some (c - 97 + 10)
           else if (65 <=? c) && (c <=? 90) then Some (c - 65 + 10)
           else None in
  match d with Some v => if v <? radix then Some v else None | None => None end.

Fixpoint digits_value (radix : Z) (acc : Z) (ds : text) : option Z :=
  match ds with
  | [] => Some acc
  | c :: r => match digit_value radix c with
              | Some d => digits_value radix (acc * radix + d) r
              | None => None
              end
  end.

(* str::to_lowercase on the characters the literal parsers accept (ASCII letters and digits) *)
Definition ascii_lower (c : N) : N := if (65 <=? c)%N && (c <=? 90)%N then (c + 32)%N else c.
Definition keyword_text (digits : text) : text :=
  if literal_keywords_ignore_case then map ascii_lower digits else digits.
(* an invalid digit, an empty string, or a value that does not fit i64: `.ok().unwrap()` panics; `.ok()` yields None,
   which the evaluator reports as an error *)
Definition literal_failure : res := if literal_overflow_is_error then Ovf else Panic.
Definition number_value (radix : Z) (digits : text) : res :=
  if text_eqb (keyword_text digits) t_true then Val true_value
  else if text_eqb (keyword_text digits) t_false then Val false_value
  else match digits with
       | [] => literal_failure
       | _ => match digits_value radix 0 digits with
              | Some v => if v <=? i64_max then Val v else literal_failure
              | None => literal_failure
              end
       end.

(* ---- environment ---- *)
Inductive symdata := DNum (z : Z) | DStr (s : text) | DPlaceholder | DMacro.
Record env := mkEnv {
  lookup : list text -> option symdata;    (* symbols.query from the current scope *)
  cur_pc : option Z                        (* try_current_target_pc *)
}.

Inductive everr := ErrStrOp (op : binop) | ErrUnknownFunction (name : text) | ErrArgCount | ErrInterpolate
  | ErrOverflow (op : binop) | ErrNegOverflow | ErrLiteral
  | ErrMixedOp (op : binop).           (* a number and a string, both known (repair 2b7ca67; before: `Ok(None)`, silently nothing) *)
Inductive eres :=
  | EVal (v : option sval)      (* None: could not be evaluated (yet) *)
  | EErr (e : everr)
  | EPanic.

Definition apply_flag (f : fflag) (fnot fneg : bool) (number : Z) : res :=
  match f with
  | FNot => Val (if fnot then (if number =? 0 then 1 else 0) else number)
  | FNeg => if fneg then (if neg_checked then i64_checked_neg number else i64_neg number) else Val number
  end.

Fixpoint apply_flags (order : list fflag) (fnot fneg : bool) (number : Z) : res :=
  match order with
  | [] => Val number
  | f :: r => match apply_flag f fnot fneg number with
              | Val n => apply_flags r fnot fneg n
              | Panic => Panic
              | Ovf => Ovf
              end
  end.

Definition with_flags (fnot fneg : bool) (r : eres) : eres :=
  match r with
  | EVal (Some (SNum n)) => match apply_flags flag_order fnot fneg n with
                            | Val n' => EVal (Some (SNum n'))
                            | Panic => EPanic
                            | Ovf => EErr ErrNegOverflow
                            end
  | other => other
  end.

Definition t_defined : text := [100; 101; 102; 105; 110; 101; 100]%N.

(* SymbolData::try_as_string *)
Definition z_to_text (z : Z) : text :=
  (* decimal rendering of an i64; digits generated least-significant first on a bounded number of steps *)
  let fix go (fuel : nat) (n : Z) (acc : text) : text :=
      match fuel with
      | O => acc
      | S f => if n <? 10 then Z.to_N (48 + n) :: acc else go f (n / 10) (Z.to_N (48 + n mod 10) :: acc)
      end in
  if z <? 0 then 45%N :: go 20%nat (- z) [] else go 20%nat z [].

Fixpoint interpolate (en : env) (items : list stritem) : option text :=
  match items with
  | [] => Some []
  | SLit s :: r => option_map (app s) (interpolate en r)
  | SPath p :: r =>
      match lookup en p with
      | Some (DNum z) => option_map (app (z_to_text z)) (interpolate en r)
      | Some (DStr s) => option_map (app s) (interpolate en r)
      | Some _ => None                                  (* does not resolve to a string: error *)
      | None => interpolate en r                         (* unknown: silently skipped *)
      end
  end.

Fixpoint eval (en : env) (e : expr) : eres :=
  match e with
  | EBin op l r =>
      match eval en l with
      | EErr x => EErr x
      | EPanic => EPanic
      | EVal lv =>
          match eval en r with
          | EErr x => EErr x
          | EPanic => EPanic
          | EVal rv =>
              match lv, rv with
              | Some (SNum a), Some (SNum b) =>
                  match apply_i64 op a b with Val z => EVal (Some (SNum z)) | Panic => EPanic | Ovf => EErr (ErrOverflow op) end
              | Some (SStr a), Some (SStr b) =>
                  match try_apply_str op a b with Some v => EVal (Some v) | None => EErr (ErrStrOp op) end
              | Some (SNum _), Some (SStr _) | Some (SStr _), Some (SNum _) => EErr (ErrMixedOp op)
              | _, _ => EVal None
              end
          end
      end
  | ENum radix digits fnot fneg =>
      match number_value radix digits with
      | Val z => with_flags fnot fneg (EVal (Some (SNum z)))
      | Panic => EPanic
      | Ovf => EErr ErrLiteral
      end
  | EId path m fnot fneg =>
      with_flags fnot fneg
        (match lookup en path with
         | Some (DNum v) =>
             EVal (Some (SNum (match m with
                               | Some LowByte => Z.land v low_byte_mask
                               | Some HighByte => Z.land (Z.shiftr v high_byte_shift) high_byte_mask
                               | None => v
                               end)))
         | Some (DStr s) => EVal (Some (SStr s))
         | Some DPlaceholder | Some DMacro | None => EVal None
         end)
  | EPc fnot fneg =>
      with_flags fnot fneg (EVal (Some (SNum (match cur_pc en with Some p => p | None => 0 end))))
  | EParens inner fnot fneg => with_flags fnot fneg (eval en inner)
  | ECall name args fnot fneg =>
      with_flags fnot fneg
        (if text_eqb name t_defined then
           match args with
           | [a] => match eval en a with
                    | EVal (Some _) => EVal (Some (SNum 1))
                    | EVal None => EVal (Some (SNum 0))
                    | EErr _ => EVal (Some (SNum 0))
                    | EPanic => EPanic
                    end
           | _ => EErr ErrArgCount
           end
         else EErr (ErrUnknownFunction name))
  | EStr items fnot fneg =>
      with_flags fnot fneg
        (match interpolate en items with Some s => EVal (Some (SStr s)) | None => EErr ErrInterpolate end)
  end.

(* ---- data emission (Token::Data arm): low 8/16/32 bits, little endian ---- *)
Definition le_bytes (k : nat) (v : Z) : list N :=
  map (fun i => Z.to_N ((v / 256 ^ Z.of_nat i) mod 256)) (seq 0 k).
Definition emit_data (size : nat) (v : Z) : list N := le_bytes size (v mod 256 ^ Z.of_nat size).

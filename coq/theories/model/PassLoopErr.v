(* Code model: the error logic of the pass loop of `codegen()` (mos-core/src/codegen/mod.rs) over an ABSTRACT
   deterministic pass function (Section variable): what the loop does with the errors a pass raised and with the set of
   undefined symbols.  The loop's conditions are Gen.PassLoopConds (regenerated from the Rust source on every run).
   One pass = emit_tokens(main file) + after_pass; it returns the new context, the new `ctx.undefined` set and the
   errors (the empty list = Ok(())); since /repo d187598 the errors of after_pass join the pass's errors
   (`errors.extend(e)`) instead of aborting -- both are `errors` of the pass here.  (Termination / the general pass-loop model is C06's.) *)
From Coq Require Import List Bool ZArith.
Import ListNotations.
From Mos Require Import Gen.PassLoopConds.

Record uspan := mkUSpan { us_file : N; us_lo : Z; us_hi : Z }.
(* UndefinedSymbol { scope_nx, id, span } *)
Record usym := mkUsym { u_scope : N; u_id : N; u_span : option uspan }.

Inductive message := UnknownIdentifier (id : N) | NotConverged (n : nat) | Other (code : N).
Record diag := mkDiag { d_message : message; d_label : option uspan }.

Definition diag_eqb_dec : forall a b : diag, {a = b} + {a <> b}.
Proof. repeat decide equality. Defined.
Definition diags_eqb (a b : list diag) : bool := if list_eq_dec diag_eqb_dec a b then true else false.

Definition usym_dec : forall a b : usym, {a = b} + {a <> b}.
Proof. repeat decide equality. Defined.
Definition mem (u : usym) (l : list usym) : bool := if in_dec usym_dec u l then true else false.
(* HashSet equality *)
Definition uset_eqb (a b : list usym) : bool := forallb (fun u => mem u b) a && forallb (fun u => mem u a) b.

(* the diagnostic built for a truly undefined item *)
Definition undefined_diag (u : usym) : diag := mkDiag (UnknownIdentifier (u_id u)) (u_span u).

Section Loop.
  Variable state : Type.
  Variable pass : state -> list usym -> state * list usym * list diag.
  Variable nodes_added : state -> state -> bool.             (* symbols.node_count() changed during the pass *)
  Variable nothing_changed : state -> bool.                  (* ctx.changed.is_empty(): no symbol got another value in the pass *)
  Variable no_segments : state -> bool.                      (* ctx.segments.is_empty() *)
  Variable create_default_segment : state -> state.
  Variable next_pass : state -> state.
  Variable finalize : state -> list diag.
  Variable sort_undefined : list usym -> list usym.          (* sorted_by_key((id, span)) *)

  Inductive result :=
    | Done (c : state) (errors : list diag)                  (* break; finalize; (Some(ctx), errors) *)
    | Failed (c : state) (errors : list diag).               (* an early return, or no convergence *)

  Definition is_nil {A} (l : list A) : bool := match l with [] => true | _ => false end.

  Fixpoint loop (fuel : nat) (c : state) (undefined prev_undefined : list usym) (prev_errors : list diag) : result :=
    match fuel with
    | O => Failed c (prev_errors ++ [mkDiag (NotConverged max_iterations) None])
    | S f =>
        let '(c1, undef1, errors) := pass c undefined in
        let o := mkObs (is_nil errors) (diags_eqb errors prev_errors) (is_nil undef1) (uset_eqb undef1 prev_undefined)
                       (nothing_changed c1) (nodes_added c c1) (no_segments c1) in
        if cond_no_segments o then loop f (next_pass (create_default_segment c1)) undef1 prev_undefined errors
        else if cond_bail o then Failed c1 errors
        else if cond_check_undefined o then
          if cond_done o then Done c1 (finalize c1)
          else if cond_truly_undefined o then Failed c1 (map undefined_diag (sort_undefined undef1))
          else loop f (next_pass c1) [] undef1 errors           (* prev_undefined = take(ctx.undefined) *)
        else loop f (next_pass c1) undef1 prev_undefined errors
    end.

  Definition codegen (c0 : state) : result := loop max_iterations c0 [] [] [].
End Loop.

(* Format.v -- executable model of the chunk layer of mos-core/src/formatting/mod.rs:
   Chunk / ChunkType, push_type, join_chunks (line assembly).  Rust names are kept.
   Text is a list of Unicode scalar values.  `String::len()` counts UTF-8 BYTES (byte_len), while
   `format!("{:<w$}")` / `{:>w$}` pad by CHARS (List.length): both are written explicitly.
   No proofs in this file. *)
From Coq Require Import List NArith Bool Arith.
Import ListNotations.
From Mos Require Import model.Utf.
Open Scope nat_scope.

Definition text := list N.
Definition NL : N := 10%N.
Definition SP : N := 32%N.

(* ---------------------------------------------------------------- Rust string primitives *)

(* char::is_whitespace = Unicode White_Space: what str::trim / trim_end remove *)
Definition is_ws (c : N) : bool :=
  ((9 <=? c) && (c <=? 13) || (c =? 32) || (c =? 133) || (c =? 160) || (c =? 5760)
   || ((8192 <=? c) && (c <=? 8202)) || (c =? 8232) || (c =? 8233) || (c =? 8239) || (c =? 8287) || (c =? 12288))%N.

(* String::len(): UTF-8 bytes *)
Fixpoint byte_len (l : text) : nat :=
  match l with [] => 0 | c :: r => width_utf8 c + byte_len r end.

Definition spaces (n : nat) : text := repeat SP n.
(* format!("{:<w$}", s): pad on the right up to w CHARS *)
Definition pad_right (s : text) (w : nat) : text := s ++ spaces (w - List.length s).
(* format!("{:>w$}", s): pad on the left up to w CHARS *)
Definition pad_left (s : text) (w : nat) : text := spaces (w - List.length s) ++ s.

Fixpoint trim_start (l : text) : text :=
  match l with [] => [] | c :: r => if is_ws c then trim_start r else l end.
Definition trim_end (l : text) : text := rev (trim_start (rev l)).
(* s.trim().is_empty() *)
Definition all_ws (l : text) : bool := forallb is_ws l.

Fixpoint text_eqb (a b : text) : bool :=
  match a, b with
  | [], [] => true
  | x :: a', y :: b' => (x =? y)%N && text_eqb a' b'
  | _, _ => false
  end.

Definition contains_nl (l : text) : bool := existsb (fun c => (c =? NL)%N) l.

(* str::split_inclusive('\n'): pieces end with their newline; the empty string has no pieces *)
Fixpoint split_inclusive (l : text) : list text :=
  match l with
  | [] => []
  | c :: r =>
      if (c =? NL)%N then [c] :: split_inclusive r
      else match split_inclusive r with
           | [] => [[c]]
           | p :: ps => (c :: p) :: ps
           end
  end.

(* line.split_at(k) after k was moved back to the nearest char boundary
   (`while !line.is_char_boundary(split) { split -= 1 }`): the longest prefix of whole chars within n bytes *)
Fixpoint split_floor (l : text) (n : nat) : text * text :=
  match l with
  | [] => ([], [])
  | c :: r =>
      let w := width_utf8 c in
      if w <=? n then let '(a, b) := split_floor r (n - w) in (c :: a, b) else ([], l)
  end.

(* result.join("\n") *)
Fixpoint join_nl (ls : list text) : text :=
  match ls with
  | [] => []
  | [l] => l
  | l :: rest => l ++ NL :: join_nl rest
  end.

(* ---------------------------------------------------------------- options, chunks *)

Inductive casing := Uppercase | Lowercase.
Inductive brace_position := SameLine | NewLine.
Inductive alignment := ALeft | ARight.

Record options := mkOptions {
  o_casing : casing;                (* mnemonics.casing *)
  o_register_casing : casing;       (* mnemonics.register_casing *)
  o_braces : brace_position;        (* braces.position *)
  o_indent : nat;                   (* whitespace.indent *)
  o_label_margin : nat;             (* whitespace.label_margin *)
  o_label_alignment : alignment;    (* whitespace.label_alignment *)
  o_code_margin : nat               (* whitespace.code_margin *)
}.

Inductive chunk_type := Label | Comment.

Record chunk := mkChunk { c_ty : option chunk_type; c_indent : nat; c_str : text }.

Definition is_nl_chunk (c : chunk) : bool := text_eqb (c_str c) [NL].   (* chunk.str == "\n" *)

(* ---------------------------------------------------------------- join_chunks *)

Record jstate := mkJ {
  j_line : text;                 (* line *)
  j_indent : option nat;         (* indent *)
  j_had : bool;                  (* had_standalone_comment *)
  j_prev : nat;                  (* prev_newlines *)
  j_out : list text;             (* result, newest first *)
  j_has_label : bool;            (* line_has_label *)
  j_has_code : bool;             (* line_has_code *)
  j_had_label : bool             (* had_label_line: the previous non-empty line held labels (and comments) but no code *)
}.

Definition j_init : jstate := mkJ [] None false 0 [] false false false.

(* the `if (!ignore && str.contains('\n')) || idx == num_chunks - 1 { ... }` body *)
Definition flush_line (o : options) (st : jstate) : jstate :=
  let line := j_line st in
  let lm := o_label_margin o in
  let col := lm + o_code_margin o in
  let '(line', had', prev', should_add, had_label') :=
    if all_ws line then
      let add := negb (j_had st) && negb (j_had_label st) && (j_prev st =? 0) in
      (line, j_had st, (if add then S (j_prev st) else j_prev st), add, j_had_label st)
    else
      (* a line of labels (and comments) without code; a line of comments behind such a line still belongs to the label *)
      let hl := (j_has_label st || j_had_label st) && negb (j_has_code st) in
      if col <? byte_len line then
        let '(label_code, comment) := split_floor line col in
        if all_ws label_code then (pad_right [] lm ++ comment, true, 0, true, hl)
        else (line, false, 0, true, hl)
      else (line, false, 0, true, hl) in
  let ind := match j_indent st with Some i => i | None => 0 end in
  mkJ [] None had' prev'
      (if should_add then trim_end (pad_right [] ind ++ line') :: j_out st else j_out st)
      false false had_label'.

(* the state with a new pending line (and the per-line flags) *)
Definition with_line (st : jstate) (line : text) (has_label has_code : bool) : jstate :=
  mkJ line (j_indent st) (j_had st) (j_prev st) (j_out st) has_label has_code (j_had_label st).

(* one piece `str` of `chunk.str.split_inclusive('\n')`;
   is_eol: the NEXT chunk's str is exactly "\n", or there is no next chunk; last: idx == num_chunks - 1 *)
Definition join_piece (o : options) (ty : option chunk_type) (is_eol last : bool) (st : jstate) (str : text) : jstate :=
  let line := j_line st in
  let lm := o_label_margin o in
  let '(st', ignore) :=
    match ty with
    | Some Label =>
        if lm <? byte_len line then (with_line st (line ++ str ++ [SP]) true (j_has_code st), false)
        else match o_label_alignment o with
             | ALeft => (with_line st (line ++ pad_right (str ++ [SP]) lm) true (j_has_code st), false)
             | ARight => (with_line st (line ++ pad_left (str ++ [SP]) lm) true (j_has_code st), false)
             end
    | None =>
        if text_eqb str [NL] && negb (match line with [] => true | _ => false end) && (byte_len line <=? lm)
        then (st, true)
        else (with_line st (pad_right line lm ++ str) (j_has_label st) (j_has_code st || negb (all_ws str)), false)
    | Some Comment =>
        if is_eol then (with_line st (pad_right line (lm + o_code_margin o) ++ str) (j_has_label st) (j_has_code st), false)
        else (with_line st (pad_right line lm ++ str ++ [SP]) (j_has_label st) (j_has_code st), false)
    end in
  if (negb ignore && contains_nl str) || last then flush_line o st' else st'.

Definition set_indent (st : jstate) (i : nat) : jstate :=
  match j_indent st with
  | Some _ => st
  | None => mkJ (j_line st) (Some i) (j_had st) (j_prev st) (j_out st) (j_has_label st) (j_has_code st) (j_had_label st)
  end.

(* a chunk together with what the loop looks ahead for *)
Definition next_is_nl (rest : list chunk) : bool :=
  match rest with [] => true | n :: _ => is_nl_chunk n end.
Definition is_last (rest : list chunk) : bool := match rest with [] => true | _ => false end.

(* str.trim_start_matches(|c| c == ' ' || c == '\t') *)
Fixpoint trim_blanks (s : text) : text :=
  match s with
  | c :: r => if ((c =? 32) || (c =? 9))%N then trim_blanks r else s
  | [] => []
  end.

(* the pieces of a chunk: `chunk.str.split_inclusive('\n')`; the lines of a block comment after its first one lose the
   blanks they start with (they are placed like the first line; keeping the blanks would shift them on every run) *)
Definition chunk_pieces (c : chunk) : list text :=
  match split_inclusive (c_str c) with
  | [] => []
  | p :: rest => p :: match c_ty c with Some Comment => map trim_blanks rest | _ => rest end
  end.

Definition join_chunk (o : options) (c : chunk) (is_eol last : bool) (st : jstate) : jstate :=
  fold_left (join_piece o (c_ty c) is_eol last) (chunk_pieces c) (set_indent st (c_indent c)).

Fixpoint join_loop (o : options) (cs : list chunk) (st : jstate) : jstate :=
  match cs with
  | [] => st
  | c :: rest => join_loop o rest (join_chunk o c (next_is_nl rest) (is_last rest) st)
  end.

Definition join_lines (cs : list chunk) (o : options) : list text := rev (j_out (join_loop o cs j_init)).
Definition join_chunks (cs : list chunk) (o : options) : text := join_nl (join_lines cs o).

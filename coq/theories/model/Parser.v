(* Code model of mos-core/src/parser/{mod.rs, config_map.rs, mnemonic.rs, identifier.rs} and the AST of ast.rs.
   Every parser function keeps its Rust name.  Tables (mnemonics, statement alt order, error stop set,
   keyword tags, which wrapper -- ws / mws / located -- each terminal uses, Display tables) come from
   Gen/ParserTables.v and Gen/ExprGrammar.v, regenerated from /repo on every run.

   Ghost data (what the Rust AST forgets, kept so that `show` is exact): the source spelling of every
   case-insensitive keyword, CRLF vs LF of a NewLine, the text of an unterminated block comment, the
   fact that a block's closing brace is missing (Rust clones the opening brace), the text taken by Eof. *)
From Coq Require Import List NArith Bool Arith.
Import ListNotations.
From Mos Require Import model.Utf model.Nom Gen.ParserTables.
From Mos Require Gen.BinOps Gen.ExprGrammar.
Open Scope N_scope.

Notation binop := BinOps.binop.

Definition slot (l : list wrapper) (k : nat) : wrapper := nth k l W_ws.
Definition kw (l : list (text * text)) (k : nat) : text * text := nth k l ([], []).

(* ------------------------------------------------------------------ AST (ast.rs) *)
Definition keyword := (text * text)%type.          (* (canonical spelling stored by Rust, source spelling [ghost]) *)
Definition path := list text.                      (* IdentifierPath *)

Inductive str_item :=
| SString (l : located text)
| SPath (l : located path).
Record istring := mkIStr { lquote : located N; items : list str_item }.

Inductive expr :=
| EBinary (op : located binop) (lhs rhs : located expr)
| EFactor (factor : located efactor) (tag_not tag_neg : option (located N))
with efactor :=
| FCurrentPc (star : located N)
| FParens (lparen : located N) (inner : located expr) (rparen : located N)
| FCall (name : located text) (lparen : located N) (args : list (located expr * option (located N))) (rparen : located N)
| FIdent (modifier : option (located AddressModifier)) (p : located path)
| FNumber (ty : located NumberType) (value : located text)
| FString (s : istring).

Definition arg_items (T : Type) := list (located T * option (located N)).

Inductive addressing_mode := AbsoluteOrZp | Immediate | Implied | Indirect | OuterIndirect.
Record register_suffix := mkSuffix { comma : located N; register : located (IndexRegister * text) }.
Record operand_t := mkOperand { o_expr : located expr; lchar : option (located N); rchar : option (located N);
                                o_mode : addressing_mode; suffix : option register_suffix }.

Definition import_as := (located keyword * located path)%type.
Record specific_import_arg := mkSpecific { sp_path : located path; sp_as : option import_as }.
Inductive import_args :=
| ImportAll (star : located N) (as_ : option import_as)
| ImportSpecific (l : arg_items specific_import_arg).

Inductive token :=
| TAlign (tag : located keyword) (value : located expr)
| TAssert (tag : located keyword) (value : located expr) (failure_message : option istring)
| TBraces (b : block_t) (scope : nat)
| TConfig (b : block_t)
| TConfigPair (key : located text) (eq_ : located N) (value : located token)
| TData (size : located (DataSize * text)) (values : arg_items expr)
| TDefinition (tag : located keyword) (id : located text) (value : option token)
| TEof (l : located text)                               (* ghost: the text `rest` swallowed *)
| TError (l : located text)
| TExpression (e : expr)
| TIf (tag_if : located keyword) (value : located expr) (if_ : block_t) (else_ : option (located keyword * block_t))
| TImport (tag : located keyword) (args : import_args) (from_ : located keyword) (filename : istring)
          (b : option block_t) (scope : nat)
| TFile (tag : located keyword) (filename : istring)
| TInstruction (mnemonic : located keyword) (operand : option operand_t)
| TLabel (id : located text) (colon : located N) (b : option block_t)
| TLoop (tag : located keyword) (scope : nat) (e : located expr) (b : block_t)
| TMacroDefinition (tag : located keyword) (id : located text) (lparen : located N) (args : arg_items text)
                   (rparen : located N) (b : block_t)
| TMacroInvocation (id : located text) (lparen : located N) (args : arg_items expr) (rparen : located N)
| TProgramCounterDefinition (star eq_ : located N) (value : located expr)
| TSegment (tag : located keyword) (id : located expr) (b : option block_t)
| TTest (tag : located keyword) (id : located expr) (b : block_t)
| TText (tag : located keyword) (encoding : option (located (TextEncoding * text))) (text_ : located expr)
| TTrace (tag : located keyword) (parens : option (located N * arg_items expr * located N))
| TVariableDefinition (ty : located (VariableType * text)) (id : located text) (eq_ : located N) (value : located expr)
with block_t :=
| Block (lparen : located N) (inner : list token) (rparen : option (located N)).  (* None: `}` missing (Rust: clone of lparen) *)

(* ------------------------------------------------------------------ trivia (mod.rs:106-214) *)
Definition t_slash_slash : text := [47; 47].
Definition t_slash_star : text := [47; 42].

(* cpp_comment: recognize(pair(tag(//), opt(is_not(LF CR)))) *)
Definition cpp_comment : parser text := recognize (pair_p (tag t_slash_slash) (opt (is_not cpp_comment_stop))).

(* the loop of c_comment after the opening tag; depth = comments still open besides the current one.
   Returns (text consumed, rest, terminated). *)
Fixpoint c_comment_scan (depth : nat) (s : text) : text * text * bool :=
  match s with
  | [] => ([], [], false)
  | c :: r =>
      match r with
      | d :: r' =>
          if (c =? 47) && (d =? 42) then
            let '(a, b, t) := c_comment_scan (S depth) r' in (c :: d :: a, b, t)
          else if (c =? 42) && (d =? 47) then
            match depth with
            | O => ([c; d], r', true)
            | S k => let '(a, b, t) := c_comment_scan k r' in (c :: d :: a, b, t)
            end
          else let '(a, b, t) := c_comment_scan depth r in (c :: a, b, t)
      | [] => ([c], [], false)
      end
  end.

(* c_comment: on an unterminated comment expect(take(1), unterminated-block-comment) reports at end of input,
   ignore_next_error() is set and the function returns rest(..) of the EMPTY remaining input: the comment text is
   not in the tree (Rust value: CStyle of the empty string), the whole input is consumed. *)
Definition c_comment : parser (text * bool) := fun st i =>
  match tag t_slash_star st i with
  | (st1, Ok _ r1) =>
      let '(a, b, t) := c_comment_scan 0 (rem r1) in
      let full := 47 :: 42 :: a in
      let r := consume full b i in
      if t then (st1, Ok (full, true) r)
      else (set_ignore_next (report_error (mkDiag (KExpect MUnterminated) (off r) (off r)) st1), Ok (full, false) r)
  | (st1, Err) => (st1, Err)
  | (st1, Abort x) => (st1, Abort x)
  end.

Definition trivia_impl : parser trivia :=
  alts [ map_p TWhitespace space1;
         map_p (fun x => TCStyle (fst x) (snd x)) c_comment;
         map_p TCppStyle cpp_comment ].

Definition to_ltrivia (l : located (list trivia)) : ltrivia := mkTriv (lo l) (hi l) (data l).
Definition newline : parser trivia :=
  map_p (fun x => TNewLine (match fst x with Some _ => true | None => false end)) (pair_p (opt (char_p 13)) (char_p 10)).

(* trivia / multiline_trivia: located(many1(..)) *)
Definition trivia_p : parser ltrivia := map_p to_ltrivia (located_p (many1 trivia_impl)).
Definition multiline_trivia : parser ltrivia := map_p to_ltrivia (located_p (many1 (alt trivia_impl newline))).

Definition ws {A} (p : parser A) : parser (located A) := with_trivia trivia_p p.
Definition mws {A} (p : parser A) : parser (located A) := with_trivia multiline_trivia p.
Definition wr {A} (w : wrapper) (p : parser A) : parser (located A) :=
  match w with W_ws => ws p | W_mws => mws p | W_located => located_p p end.

(* ------------------------------------------------------------------ identifiers *)
Definition t_underscore : text := [95].
Definition t_dash : text := [45].
Definition identifier_name : parser text :=
  recognize (pair_p (alt alpha1 (tag t_underscore)) (many0 (alt alphanumeric1 (tag t_underscore)))).
Definition identifier_scope : parser text :=
  map_p (fun x => [fst x]) (pair_p (alt (char_p 45) (char_p 43)) (not_p alphanumeric1)).
(* the Located produced by the inner ws is dropped: |ids| IdentifierPath::new(&ids.data) *)
Definition identifier_path : parser path :=
  map_p data (wr (slot W_identifier_path 0) (separated_list1 (char_p 46) (alt identifier_scope identifier_name))).

Definition keyword_p (k : text * text) : parser keyword := map_p (fun o => (snd k, o)) (tag_no_case (fst k)).
Definition tagged {V} (table : list (text * V)) : parser (V * text) :=
  alts (map (fun e => map_p (fun o => (snd e, o)) (tag_no_case (fst e))) table).

(* ------------------------------------------------------------------ strings *)
Definition str_stop : text := [123; 125; 34; 13; 10].   (* none_of: { } double-quote CR LF *)
Definition string_chunk (w : wrapper) : parser str_item := map_p SString (wr w (recognize (many1 (none_of str_stop)))).
Definition interpolated_string : parser istring :=
  map_p (fun x => mkIStr (fst x) (fst (snd x)))
    (pair_p (wr (slot W_interpolated_string 0) (char_p 34))
       (pair_p (many0 (alt (string_chunk (slot W_interpolated_string 1))
                           (map_p (fun x => SPath (fst (snd x)))
                              (pair_p (char_p 123) (pair_p (wr (slot W_interpolated_string 2) identifier_path) (char_p 125))))))
               (char_p 34))).
Definition quoted_string : parser istring :=
  map_p (fun x => mkIStr (fst x) (fst (snd x)))
    (pair_p (wr (slot W_quoted_string 0) (char_p 34))
       (pair_p (many0 (string_chunk (slot W_quoted_string 1))) (char_p 34))).

(* ------------------------------------------------------------------ expressions *)
Definition out_of_fuel {A} : parser A := fun st _ => (st, Abort OutOfFuel).

Definition span_merge3 {A B C} (a : located A) (b : located B) (c : located C) : N * N :=
  (N.min (N.min (lo a) (lo b)) (lo c), N.max (N.max (hi a) (hi b)) (hi c)).
Definition fold_expressions (initial : located expr) (remainder : list (located binop * located expr)) : located expr :=
  fold_left (fun acc pr => let '(l, h) := span_merge3 acc (fst pr) (snd pr) in
                           mkLoc l h (EBinary (fst pr) acc (snd pr)) None) remainder initial.

Definition operator (table : list (text * binop)) : parser binop :=
  alts (map (fun e => map_p (fun _ => snd e) (tag (fst e))) table).

(* arg_list: ws(item), then as long as ws(',') matches another ws(item) MUST follow (else the whole list fails);
   every item is parsed once *)
Fixpoint arg_list_loop {T} (fuel : nat) (item : parser T) (acc : arg_items T) (cur : located T) : parser (arg_items T) := fun st i =>
  match fuel with
  | O => (st, Abort OutOfFuel)
  | S f =>
      match wr (slot W_arg_list 1) (char_p 44) st i with
      | (st1, Ok comma r) =>
          match wr (slot W_arg_list 2) item st1 r with
          | (st2, Ok next r2) => arg_list_loop f item (acc ++ [(cur, Some comma)]) next st2 r2
          | (st2, Err) => (st2, Err)
          | (st2, Abort x) => (st2, Abort x)
          end
      | (st1, Err) => (st1, Ok (acc ++ [(cur, None)]) i)
      | (st1, Abort x) => (st1, Abort x)
      end
  end.
Definition arg_list {T} (item : parser T) : parser (arg_items T) := fun st i =>
  match wr (slot W_arg_list 0) item st i with
  | (st1, Ok first r) => arg_list_loop (S (length (rem r))) item [] first st1 r
  | (st1, Err) => (st1, Err)
  | (st1, Abort x) => (st1, Abort x)
  end.
Definition identifier_arg_list : parser (arg_items text) := arg_list identifier_name.

Definition digits01 : text := [48; 49].
Definition digits10 : text := [48; 49; 50; 51; 52; 53; 54; 55; 56; 57].
Definition pfx (k : nat) : N * NumberType := nth k number_prefixes (0, NumberType_Dec).
Definition nword (k : nat) : text := nth k number_words [].

Definition number : parser (located efactor) :=
  wr (slot W_number 0)
    (map_p (fun x => FNumber (fst x) (snd x))
       (alts [ pair_p (map_p (loc_map (fun _ => snd (pfx 0))) (wr (slot W_number 1) (char_p (fst (pfx 0)))))
                      (wr (slot W_number 2) (recognize (many1 hex_digit1)));
               pair_p (map_p (loc_map (fun _ => snd (pfx 1))) (wr (slot W_number 3) (char_p (fst (pfx 1)))))
                      (wr (slot W_number 4) (recognize (many1 (is_a digits01))));
               pair_p (wr (slot W_number 5) (value_p NumberType_Dec)) (wr (slot W_number 6) (recognize (many1 (is_a digits10))));
               pair_p (wr (slot W_number 7) (value_p NumberType_Dec)) (wr (slot W_number 8) (tag_no_case (nword 0)));
               pair_p (wr (slot W_number 9) (value_p NumberType_Dec)) (wr (slot W_number 10) (tag_no_case (nword 1))) ])).

Definition flag_chars : text := [33; 45].   (* one_of("!-") *)
Definition modifier_p : parser AddressModifier :=
  alts (map (fun e => map_p (fun _ => snd e) (char_p (fst e))) modifier_chars).
Definition identifier_value : parser (located efactor) :=
  wr (slot W_identifier_value 0)
    (map_p (fun x => FIdent (fst x) (snd x))
       (pair_p (opt (wr (slot W_identifier_value 1) modifier_p)) (wr (slot W_identifier_value 2) identifier_path))).

Definition current_pc : parser (located efactor) :=
  wr (slot W_current_pc 0) (map_p FCurrentPc (wr (slot W_current_pc 1) (char_p 42))).

Definition interpolated_string_factor : parser (located efactor) :=
  wr (slot W_interpolated_string_factor 0) (map_p FString interpolated_string).

Section WithExpression.
  Variable p_expr : parser (located expr).

  Definition expression_arg_list : parser (arg_items expr) := arg_list (map_p data p_expr).

  Definition expression_parens : parser (located efactor) :=
    wr (slot W_expression_parens 0)
      (map_p (fun x => FParens (fst x) (fst (snd x)) (snd (snd x)))
         (pair_p (wr (slot W_expression_parens 1) (char_p 40)) (pair_p (nested max_nesting_depth p_expr) (wr (slot W_expression_parens 2) (char_p 41))))).

  (* the tuple of fn_call_impl, without the outer located(..) *)
  Definition fn_call_parts (multiline : bool)
    : parser (located text * (located N * (option (arg_items expr) * located N))) :=
    pair_p (if multiline then wr (slot W_fn_call_impl 1) identifier_name else wr (slot W_fn_call_impl 2) identifier_name)
      (pair_p (wr (slot W_fn_call_impl 3) (char_p 40))
         (pair_p (opt (nested max_nesting_depth expression_arg_list)) (wr (slot W_fn_call_impl 4) (char_p 41)))).
  Definition unwrap_or_default {T} (o : option (list T)) : list T := match o with Some l => l | None => [] end.
  Definition fn_call_impl (multiline : bool) : parser (located efactor) :=
    wr (slot W_fn_call_impl 0)
      (map_p (fun x => FCall (fst x) (fst (snd x)) (unwrap_or_default (fst (snd (snd x)))) (snd (snd (snd x))))
         (fn_call_parts multiline)).
  Definition fn_call : parser (located efactor) := fn_call_impl false.

  Definition factor_alt (k : ExprGrammar.factor_kind) : parser (located efactor) :=
    match k with
    | ExprGrammar.K_number => number
    | ExprGrammar.K_fn_call => fn_call
    | ExprGrammar.K_identifier_value => identifier_value
    | ExprGrammar.K_current_pc => current_pc
    | ExprGrammar.K_expression_parens => expression_parens
    | ExprGrammar.K_interpolated_string_factor => interpolated_string_factor
    end.
  Definition expression_factor_inner : parser (located efactor) := alts (map factor_alt ExprGrammar.factor_alternatives).

  Definition expression_factor : parser (located expr) :=
    wr (slot W_expression_factor 0)
      (alt (map_p (fun f => EFactor f None None) expression_factor_inner)
           (map_p (fun x => EFactor (snd (snd (snd x))) (fst (snd x)) (fst (snd (snd x))))
              (* preceded(peek(one_of("!-")), tuple(..)) *)
              (pair_p (peek (one_of flag_chars))
                 (pair_p (opt (wr (slot W_expression_factor 1) (char_p 33)))
                    (pair_p (opt (wr (slot W_expression_factor 2) (char_p 45))) expression_factor_inner))))).

  Definition expression_term : parser (located expr) :=
    map_p (fun x => fold_expressions (fst x) (snd x))
      (pair_p expression_factor
         (many0 (pair_p (wr (slot W_expression_term 0) (operator ExprGrammar.tight_ops)) expression_factor))).

  Definition expression_body : parser (located expr) :=
    map_p (fun x => fold_expressions (fst x) (snd x))
      (pair_p expression_term
         (many0 (pair_p (wr (slot W_expression 0) (operator ExprGrammar.loose_ops)) expression_term))).
End WithExpression.

Fixpoint expression_fuel (fuel : nat) : parser (located expr) :=
  match fuel with
  | O => out_of_fuel
  | S f => fun st i => expression_body (expression_fuel f) st i   (* eta-expanded: built only when called *)
  end.
Definition expression : parser (located expr) := fun st i => expression_fuel (S (length (rem i))) st i.

Definition expression_args : parser (arg_items expr) := expression_arg_list expression.

(* ------------------------------------------------------------------ operands, instructions *)
Definition register_suffix_p (e : text * IndexRegister) : parser register_suffix :=
  map_p (fun x => mkSuffix (fst x) (loc_map (fun o => (snd e, o)) (snd x)))
    (pair_p (wr (slot W_register_suffix 0) (char_p 44)) (wr (slot W_register_suffix 1) (tag_no_case (fst e)))).
Definition optional_suffix : parser (option register_suffix) := opt (alts (map register_suffix_p register_tags)).

Definition operand : parser operand_t :=
  alts [ map_p (fun x => mkOperand (snd x) (Some (fst x)) None Immediate None)
           (pair_p (wr (slot W_operand 0) (char_p 35)) expression);
         map_p (fun x => mkOperand (fst (snd x)) (Some (fst x)) (Some (fst (snd (snd x)))) OuterIndirect (snd (snd (snd x))))
           (pair_p (wr (slot W_operand 1) (char_p 40)) (pair_p expression (pair_p (wr (slot W_operand 2) (char_p 41)) optional_suffix)));
         map_p (fun x => mkOperand (fst (snd x)) (Some (fst x)) (Some (snd (snd (snd x)))) Indirect (fst (snd (snd x))))
           (pair_p (wr (slot W_operand 3) (char_p 40)) (pair_p expression (pair_p optional_suffix (wr (slot W_operand 4) (char_p 41)))));
         map_p (fun x => mkOperand (fst x) None None AbsoluteOrZp (snd x)) (pair_p expression optional_suffix) ].

Definition mnemonic_of (table : list (text * text)) : parser keyword := alts (map keyword_p table).
Definition instruction : parser token :=
  alt (map_p (fun x => TInstruction (fst x) (snd x))
         (pair_p (wr (slot W_instruction 0) (mnemonic_of mnemonic_table)) (expect operand MEmpty)))
      (map_p (fun x => TInstruction (fst x) None)
         (pair_p (wr (slot W_instruction 1) (mnemonic_of implied_mnemonic_table)) (expect (not_p operand) MEmpty))).

(* ------------------------------------------------------------------ config maps (config_map.rs) *)
Definition config_key : parser text :=
  recognize (pair_p (alt alpha1 (tag t_dash)) (many0 (alt alphanumeric1 (tag t_dash)))).

Section WithConfigMap.
  Variable p_cfg : parser token.
  Definition kvp : parser token :=
    map_p (fun x => TConfigPair (fst x) (fst (snd x)) (snd (snd x)))
      (pair_p (wr (slot W_kvp 0) config_key)
         (pair_p (wr (slot W_kvp 1) (char_p 61))
                 (wr (slot W_kvp 2) (alt p_cfg (map_p (fun e => TExpression (data e)) expression))))).
  Definition config_map_body : parser token :=
    map_p (fun x => TConfig (Block (fst x) (fst (snd x)) (Some (snd (snd x)))))
      (pair_p (wr (slot W_config_map 0) (char_p 123)) (pair_p (many0 kvp) (wr (slot W_config_map 1) (char_p 125)))).
End WithConfigMap.
Fixpoint config_map_fuel (fuel : nat) : parser token :=
  match fuel with
  | O => out_of_fuel
  | S f => fun st i => config_map_body (config_map_fuel f) st i
  end.
Definition config_map : parser token := fun st i => config_map_fuel (S (length (rem i))) st i.

(* ------------------------------------------------------------------ statements *)
(* a parser whose success triggers State::new_anonymous_scope *)
Definition with_scope {A B} (p : parser A) (f : A -> nat -> B) : parser B := fun st i =>
  match p st i with
  | (st1, Ok a r) => let '(st2, n) := new_anonymous_scope st1 in (st2, Ok (f a n) r)
  | (st1, Err) => (st1, Err)
  | (st1, Abort x) => (st1, Abort x)
  end.

(* error_impl: an error token; reports `unexpected ..` over the token's span *)
Definition error_stop_p (in_block : bool) (c : N) : bool := mem c error_stop || (in_block && mem c error_stop_in_block).
Definition error_impl (in_block : bool) : parser token := fun st i =>
  match wr (slot W_error_impl 0)
          (recognize (alt (recognize (pair_p (one_of error_lead) (take_till (error_stop_p in_block))))
                          (take_till1 (error_stop_p in_block)))) st i with
  | (st1, Ok l r) => (report_error (mkDiag (KUnexpected (data l)) (lo l) (hi l)) st1, Ok (TError l) r)
  | (st1, Err) => (st1, Err)
  | (st1, Abort x) => (st1, Abort x)
  end.
Definition error : parser token := error_impl false.
Definition error_in_block : parser token := error_impl true.

Definition as_ : parser (option import_as) :=
  opt (pair_p (wr (slot W_as_ 0) (keyword_p (kw kw_as_ 0))) (wr (slot W_as_ 1) identifier_path)).

Section WithStatement.
  Variable p_stmt : parser token.

  Definition block : parser block_t :=
    map_p (fun x => Block (fst x) (fst (snd x)) (snd (snd x)))
      (pair_p (wr (slot W_block 0) (char_p 123))
         (pair_p (nested max_nesting_depth (many0 (alt p_stmt error_in_block))) (expect (wr (slot W_block 1) (char_p 125)) MClosing))).

  Definition braces : parser token := with_scope block TBraces.

  Definition label : parser token :=
    map_p (fun x => TLabel (fst x) (fst (snd x)) (snd (snd x)))
      (pair_p (wr (slot W_label 0) identifier_name) (pair_p (wr (slot W_label 1) (char_p 58)) (opt block))).

  Definition data_ : parser token :=
    map_p (fun x => TData (fst x) (unwrap_or_default (snd x)))
      (pair_p (alts (map (fun e => wr (slot W_data (fst e)) (tagged [snd e])) (combine (seq 0 (length data_tags)) data_tags)))
              (expect expression_args MExpression)).

  Definition varconst_impl (k : text * VariableType) : parser token :=
    map_p (fun x => TVariableDefinition (fst x) (fst (snd x)) (fst (snd (snd x))) (snd (snd (snd x))))
      (pair_p (wr (slot W_varconst_impl 0) (tagged [k]))
         (pair_p (wr (slot W_varconst_impl 1) identifier_name) (pair_p (wr (slot W_varconst_impl 2) (char_p 61)) expression))).
  Definition variable_definition : parser token := varconst_impl kw_variable_definition.
  Definition const_definition : parser token := varconst_impl kw_const_definition.

  Definition pc_definition : parser token :=
    map_p (fun x => TProgramCounterDefinition (fst x) (fst (snd x)) (snd (snd x)))
      (pair_p (wr (slot W_pc_definition 0) (char_p 42)) (pair_p (wr (slot W_pc_definition 1) (char_p 61)) expression)).

  Definition config_definition : parser token :=
    map_p (fun x => TDefinition (fst x) (fst (snd x)) (snd (snd x)))
      (pair_p (wr (slot W_config_definition 0) (keyword_p (kw kw_config_definition 0)))
         (pair_p (wr (slot W_config_definition 1) identifier_name) (expect config_map MConfig))).

  Definition macro_definition : parser token :=
    map_p (fun x => TMacroDefinition (fst x) (fst (snd x)) (fst (snd (snd x))) (unwrap_or_default (fst (snd (snd (snd x)))))
                      (fst (snd (snd (snd (snd x))))) (snd (snd (snd (snd (snd x))))))
      (pair_p (wr (slot W_macro_definition 0) (keyword_p (kw kw_macro_definition 0)))
         (pair_p (wr (slot W_macro_definition 1) identifier_name)
            (pair_p (wr (slot W_macro_definition 2) (char_p 40))
               (pair_p (opt identifier_arg_list) (pair_p (wr (slot W_macro_definition 3) (char_p 41)) block))))).

  (* fn_call_impl(input, true); the Located wrapper of the factor is dropped when the token is built *)
  Definition macro_invocation : parser token :=
    map_p (fun x => TMacroInvocation (fst x) (fst (snd x)) (unwrap_or_default (fst (snd (snd x)))) (snd (snd (snd x))))
      (fn_call_parts expression true).

  Definition segment : parser token :=
    map_p (fun x => TSegment (fst x) (fst (snd x)) (snd (snd x)))
      (pair_p (wr (slot W_segment 0) (keyword_p (kw kw_segment 0))) (pair_p expression (opt block))).

  Definition loop_ : parser token :=
    with_scope (pair_p (wr (slot W_loop_ 0) (keyword_p (kw kw_loop_ 0))) (pair_p expression block))
      (fun x n => TLoop (fst x) n (fst (snd x)) (snd (snd x))).

  Definition if_ : parser token :=
    map_p (fun x => TIf (fst x) (fst (snd x)) (fst (snd (snd x))) (snd (snd (snd x))))
      (pair_p (wr (slot W_if_ 0) (keyword_p (kw kw_if_ 0)))
         (pair_p expression (pair_p block (opt (pair_p (wr (slot W_if_ 1) (keyword_p (kw kw_if_ 1))) block))))).

  Definition align : parser token :=
    map_p (fun x => TAlign (fst x) (snd x)) (pair_p (wr (slot W_align 0) (keyword_p (kw kw_align 0))) expression).

  Definition specific_arg : parser specific_import_arg :=
    map_p (fun x => mkSpecific (fst x) (snd x)) (pair_p (wr (slot W_import 0) identifier_path) as_).
  Definition import : parser token :=
    with_scope
      (pair_p (wr (slot W_import 1) (keyword_p (kw kw_import 0)))
         (pair_p (alt (map_p (fun x => ImportAll (fst x) (snd x)) (pair_p (wr (slot W_import 2) (char_p 42)) as_))
                      (map_p ImportSpecific (arg_list specific_arg)))
            (pair_p (wr (slot W_import 3) (keyword_p (kw kw_import 1))) (pair_p quoted_string (opt block)))))
      (fun x n => TImport (fst x) (fst (snd x)) (fst (snd (snd x))) (fst (snd (snd (snd x)))) (snd (snd (snd (snd x)))) n).

  Definition text_ : parser token :=
    map_p (fun x => TText (fst x) (fst (snd x)) (snd (snd x)))
      (pair_p (wr (slot W_text 0) (keyword_p (kw kw_text 0)))
         (alt (map_p (fun x => (Some (fst x), snd x)) (pair_p (wr (slot W_text 1) (tagged encoding_tags)) expression))
              (map_p (fun e => (None, e)) expression))).

  Definition file : parser token :=
    map_p (fun x => TFile (fst x) (snd x)) (pair_p (wr (slot W_file 0) (keyword_p (kw kw_file 0))) interpolated_string).

  Definition test : parser token :=
    map_p (fun x => TTest (fst x) (fst (snd x)) (snd (snd x)))
      (pair_p (wr (slot W_test 0) (keyword_p (kw kw_test 0))) (pair_p expression block)).

  Definition assert : parser token :=
    map_p (fun x => TAssert (fst x) (fst (snd x)) (snd (snd x)))
      (pair_p (wr (slot W_assert 0) (keyword_p (kw kw_assert 0))) (pair_p expression (opt interpolated_string))).

  Definition trace : parser token :=
    map_p (fun x => TTrace (fst x)
                      (match snd x with
                       | Some y => Some (fst y, unwrap_or_default (fst (snd y)), snd (snd y))
                       | None => None end))
      (pair_p (wr (slot W_trace 0) (keyword_p (kw kw_trace 0)))
         (opt (pair_p (wr (slot W_trace 1) (char_p 40)) (pair_p (opt expression_args) (wr (slot W_trace 2) (char_p 41)))))).

  Definition stmt_parser (k : stmt_kind) : parser token :=
    match k with
    | S_braces => braces | S_label => label | S_instruction => instruction
    | S_variable_definition => variable_definition | S_const_definition => const_definition
    | S_pc_definition => pc_definition | S_config_definition => config_definition
    | S_macro_definition => macro_definition | S_macro_invocation => macro_invocation
    | S_data => data_ | S_segment => segment | S_loop_ => loop_ | S_if_ => if_ | S_align => align
    | S_import => import | S_text => text_ | S_file => file | S_test => test | S_assert => assert | S_trace => trace
    end.
  Definition statement_body : parser token := alts (map stmt_parser statement_alts).
End WithStatement.

Fixpoint statement_fuel (fuel : nat) : parser token :=
  match fuel with
  | O => out_of_fuel
  | S f => fun st i => statement_body (statement_fuel f) st i
  end.
Definition statement : parser token := fun st i => statement_fuel (S (length (rem i))) st i.

(* eof: mws(rest) *)
Definition eof : parser token := map_p TEof (wr (slot W_eof 0) rest).

(* source_file: tuple((many0(alt((statement, error))), eof)) *)
Definition source_file : parser (list token) :=
  map_p (fun x => fst x ++ [snd x]) (pair_p (many0 (alt statement error)) eof).

(* parse_with_instance: all_consuming(source_file)(input).ok().unwrap() *)
Inductive parse_result := Parsed (tokens : list token) (diagnostics : list diag) | ParsePanic | ParseOutOfFuel.
Definition parse (s : text) : parse_result :=
  match source_file st0 (mkIn 0 s) with
  | (st, Ok toks r) => match rem r with [] => Parsed toks (rev (errors st)) | _ => ParsePanic end
  | (_, Err) => ParsePanic
  | (_, Abort Panic) => ParsePanic
  | (_, Abort OutOfFuel) => ParseOutOfFuel
  end.

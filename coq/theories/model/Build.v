(* Code model: mos/src/commands/build.rs `build_command`: the control flow over an abstract file system.
   The ORDER of the steps is not written here: it is Gen.BuildFlow.build_steps, regenerated from the Rust source on every
   run (translate/t_buildflow.py); this file gives each step its meaning.  parse / codegen / merge_segments / the writers
   are Section variables (arbitrary functions): the theorems hold whatever they compute.
   `unwrap()` on a missing value is Panic; an I/O failure while writing is IoError (files may then be partly written). *)
From Coq Require Import List Bool.
Import ListNotations.
From Mos Require Import Gen.BuildFlow.

Section Build.
  Variables path content tree gen bank diag : Type.

  Record fs := mkFs { dirs : list path; files : list (path * content) }.

  Record config := mkConfig {
    cfg_target_dir : path;
    cfg_listing : bool;             (* build.listing *)
    cfg_format_prg : bool;          (* build.output_format == Some(Prg) *)
    cfg_symbols : bool              (* build.symbols non-empty *)
  }.

  Variable parse : config -> fs -> option tree * list diag.            (* reads the sources from the file system *)
  Variable codegen : config -> tree -> option gen * list diag.
  Variable banks_len : gen -> nat.
  Variable prg_diag : diag.
  Variable merge_segments : gen -> list bank + list diag.
  (* the writers create/overwrite files; they may fail (false) after having written something *)
  Variable write_banks : config -> gen -> list bank -> fs -> fs * bool.
  Variable write_listing : config -> gen -> fs -> fs * bool.
  Variable write_symbols : config -> gen -> fs -> fs * bool.
  Variable mkdir_ok : path -> fs -> bool.

  Inductive outcome := Built | Failed (ds : list diag) | IoError | Panic.

  Record st := mkSt {
    s_fs : fs;
    s_tree : option tree; s_perr : list diag;
    s_gen : option gen; s_cerr : list diag;
    s_banks : option (list bank)
  }.

  Definition is_nil {A} (l : list A) : bool := match l with [] => true | _ => false end.

  (* fs::create_dir_all: adds directories, never touches a file *)
  Definition create_dir_all (p : path) (f : fs) : fs := mkFs (p :: dirs f) (files f).

  (* inl = continue with the new state, inr = build_command returns *)
  Definition do_step (cfg : config) (s : step) (x : st) : st + (fs * outcome) :=
    match s with
    | SCreateDir =>
        if mkdir_ok (cfg_target_dir cfg) (s_fs x)
        then inl (mkSt (create_dir_all (cfg_target_dir cfg) (s_fs x)) (s_tree x) (s_perr x) (s_gen x) (s_cerr x) (s_banks x))
        else inr (s_fs x, IoError)
    | SParse =>
        let (t, e) := parse cfg (s_fs x) in inl (mkSt (s_fs x) t e (s_gen x) (s_cerr x) (s_banks x))
    | SReturnIfParseErrors =>
        if negb (is_nil (s_perr x)) then inr (s_fs x, Failed (s_perr x))
        else match s_tree x with Some _ => inl x | None => inr (s_fs x, Panic) end
    | SCodegen =>
        match s_tree x with
        | Some t => let (g, e) := codegen cfg t in inl (mkSt (s_fs x) (s_tree x) (s_perr x) g e (s_banks x))
        | None => inr (s_fs x, Panic)
        end
    | SReturnIfCodegenErrors =>
        if negb (is_nil (s_cerr x)) then inr (s_fs x, Failed (s_cerr x))
        else match s_gen x with Some _ => inl x | None => inr (s_fs x, Panic) end
    | SPrgBankCheck =>
        match s_gen x with
        | Some g => if cfg_format_prg cfg && negb (Nat.eqb (banks_len g) 1) then inr (s_fs x, Failed [prg_diag]) else inl x
        | None => inr (s_fs x, Panic)
        end
    | SMerge =>
        match s_gen x with
        | Some g => match merge_segments g with
                    | inl banks => inl (mkSt (s_fs x) (s_tree x) (s_perr x) (s_gen x) (s_cerr x) (Some banks))
                    | inr ds => inr (s_fs x, Failed ds)
                    end
        | None => inr (s_fs x, Panic)
        end
    | SWriteBanks =>
        match s_gen x, s_banks x with
        | Some g, Some banks =>
            let (f, ok) := write_banks cfg g banks (s_fs x) in
            if ok then inl (mkSt f (s_tree x) (s_perr x) (s_gen x) (s_cerr x) (s_banks x)) else inr (f, IoError)
        | _, _ => inr (s_fs x, Panic)
        end
    | SWriteListing =>
        if cfg_listing cfg then
          match s_gen x with
          | Some g => let (f, ok) := write_listing cfg g (s_fs x) in
                      if ok then inl (mkSt f (s_tree x) (s_perr x) (s_gen x) (s_cerr x) (s_banks x)) else inr (f, IoError)
          | None => inr (s_fs x, Panic)
          end
        else inl x
    | SWriteSymbols =>
        if cfg_symbols cfg then
          match s_gen x with
          | Some g => let (f, ok) := write_symbols cfg g (s_fs x) in
                      if ok then inl (mkSt f (s_tree x) (s_perr x) (s_gen x) (s_cerr x) (s_banks x)) else inr (f, IoError)
          | None => inr (s_fs x, Panic)
          end
        else inl x
    end.

  Fixpoint run_steps (cfg : config) (steps : list step) (x : st) : fs * outcome :=
    match steps with
    | [] => (s_fs x, Built)
    | s :: r => match do_step cfg s x with inl x' => run_steps cfg r x' | inr res => res end
    end.

  Definition build (cfg : config) (f : fs) : fs * outcome :=
    run_steps cfg build_steps (mkSt f None [] None [] None).
End Build.

(* Code model: the emission path of codegen -- Segment (codegen/segment.rs: new, reset is not needed within a pass,
   set_pc, target_pc, target_offset, range, range_data, emit) and CodegenContext::emit (codegen/mod.rs: source map entry
   at the TARGET pc, then segment.emit), plus the macro re-attribution around a macro body
   (`first_offset = source_map.offsets().len(); emit body; move_offsets(first_offset, parent_scope, name.span)`).
   One pass is a sequence of operations (`op`); everything else codegen does (symbols, evaluation) only decides WHICH
   operations happen and is not part of this model.
   The 64 KiB `data` array is a write log (newest first); reading an address never written yields 0 like `[0; 65536]`. *)
From Coq Require Import List NArith ZArith Bool Arith.
Import ListNotations.
From Mos Require Import model.SourceMap model.Listing.
Open Scope Z_scope.

Record seg := mkSegS {
  g_pc : Z;
  g_written : bool;          (* !data.is_empty() *)
  g_lo : Z; g_hi : Z;        (* range *)
  g_mem : list (Z * N);      (* data, as a write log *)
  g_initial_pc : Z;
  g_target_address : Z
}.

Definition seg_new (initial_pc target_address : Z) : seg :=
  mkSegS initial_pc false initial_pc initial_pc [] initial_pc target_address.
Definition target_offset (g : seg) : Z := g_target_address g - g_initial_pc g.
Definition target_pc (g : seg) : Z := g_pc g + target_offset g.
Definition set_pc (g : seg) (pc : Z) : seg :=
  mkSegS pc (g_written g) (g_lo g) (g_hi g) (g_mem g) (g_initial_pc g) (g_target_address g).

Fixpoint write (mem : list (Z * N)) (a : Z) (bytes : list N) : list (Z * N) :=
  match bytes with [] => mem | b :: r => write ((a, b) :: mem) (a + 1) r end.
Fixpoint read (mem : list (Z * N)) (a : Z) : N :=
  match mem with [] => 0%N | (a', b) :: r => if a' =? a then b else read r a end.

(* Segment::emit; None = `false` (out of range) *)
Definition seg_emit (g : seg) (bytes : list N) : option seg :=
  let start := g_pc g in
  let stop := g_pc g + Z.of_nat (length bytes) in
  if (start >? 65535) || (stop >? 65536) then None
  else
    let lo := if (start <? g_lo g) || negb (g_written g) then start else g_lo g in
    let hi := if (stop >? g_hi g) || negb (g_written g) then stop else g_hi g in
    Some (mkSegS stop true lo hi (write (g_mem g) start bytes) (g_initial_pc g) (g_target_address g)).

Definition range_data (g : seg) : list N :=
  if g_written g then map (fun k => read (g_mem g) (g_lo g + Z.of_nat k)) (seq 0 (Z.to_nat (g_hi g - g_lo g))) else [].

Definition view (g : seg) : lseg := mkLseg (g_lo g) (g_hi g) (range_data g) (target_offset g).

(* the part of the CodegenContext that emission touches *)
Record ctx := mkCtx {
  c_segments : list (N * seg);
  c_current : option N;                       (* current_segment *)
  c_scope : N;                                (* current_scope_nx *)
  c_sm : source_map;
  c_macros : list (nat * N * span);           (* open macro invocations: (first_offset, parent_scope, name.span) *)
  c_move : bool                               (* options.move_macro_source_map_to_invocation *)
}.

Fixpoint get_seg (segs : list (N * seg)) (name : N) : option seg :=
  match segs with [] => None | (k, g) :: r => if N.eqb k name then Some g else get_seg r name end.
Fixpoint put_seg (segs : list (N * seg)) (name : N) (g : seg) : list (N * seg) :=
  match segs with
  | [] => []
  | (k, g0) :: r => if N.eqb k name then (k, g) :: r else (k, g0) :: put_seg r name g
  end.

Inductive op :=
  | OEmit (sp : span) (bytes : list N)        (* self.emit(span, bytes) *)
  | OSetPc (pc : Z)                           (* `* = pc` *)
  | OSegment (name : N)                       (* current_segment = name  (.segment "name" { / } restores) *)
  | OScope (scope : N)                        (* with_scope entry / exit *)
  | OMacroBegin (macro_scope : N) (name_span : span)
  | OMacroEnd.

Inductive outcome := Done (c : ctx) | SegmentOutOfRange (c : ctx) | PanicNoSegment | PanicMacroStack.

(* CodegenContext::emit *)
Definition emit (c : ctx) (sp : span) (bytes : list N) : outcome :=
  match c_current c with
  | None => Done c
  | Some name =>
      match get_seg (c_segments c) name with
      | None => PanicNoSegment                (* self.segments.get_mut(name).unwrap() *)
      | Some g =>
          let sm := add (c_sm c) (c_scope c) sp name (target_pc g) (length bytes) in
          match seg_emit g bytes with
          | Some g' => Done (mkCtx (put_seg (c_segments c) name g') (c_current c) (c_scope c) sm (c_macros c) (c_move c))
          | None => SegmentOutOfRange (mkCtx (c_segments c) (c_current c) (c_scope c) sm (c_macros c) (c_move c))
          end
      end
  end.

Definition step (c : ctx) (o : op) : outcome :=
  match o with
  | OEmit sp bytes => emit c sp bytes
  | OSetPc pc =>
      match c_current c with
      | Some name => match get_seg (c_segments c) name with
                     | Some g => Done (mkCtx (put_seg (c_segments c) name (set_pc g pc)) (c_current c) (c_scope c) (c_sm c) (c_macros c) (c_move c))
                     | None => Done c
                     end
      | None => Done c
      end
  | OSegment name => Done (mkCtx (c_segments c) (Some name) (c_scope c) (c_sm c) (c_macros c) (c_move c))
  | OScope s => Done (mkCtx (c_segments c) (c_current c) s (c_sm c) (c_macros c) (c_move c))
  | OMacroBegin macro_scope name_span =>
      Done (mkCtx (c_segments c) (c_current c) macro_scope (c_sm c)
                  ((length (c_sm c), c_scope c, name_span) :: c_macros c) (c_move c))
  | OMacroEnd =>
      match c_macros c with
      | [] => PanicMacroStack
      | (first, parent_scope, name_span) :: rest =>
          let sm := if c_move c then move_offsets (c_sm c) first parent_scope name_span else c_sm c in
          Done (mkCtx (c_segments c) (c_current c) parent_scope sm rest (c_move c))
      end
  end.

Fixpoint run (ops : list op) (c : ctx) : outcome :=
  match ops with
  | [] => Done c
  | o :: r => match step c o with Done c' => run r c' | other => other end
  end.

Definition view_segments (c : ctx) : segments := map (fun kg => (fst kg, view (snd kg))) (c_segments c).

(* SymGraph -- the symbol table of mos-core/src/codegen/symbols.rs (SymbolTable over petgraph::StableGraph).

   Only what navigation and rename depend on is modelled: nodes are indices, edges are labelled with identifiers.
   petgraph keeps, per node, a linked list of outgoing and one of incoming edges; a new edge is put at the head of
   both.  One global edge list, NEWEST FIRST, restricted to a node, therefore reproduces both iteration orders
   (`edges_directed(nx, Outgoing)` and `edges_directed(nx, Incoming)`), also after removals.
   Node data is irrelevant to all functions below (it matters only to `get_symbol`, see Analysis.v).

   Rust names are kept.  No proofs in this file. *)
From Coq Require Import List NArith Arith Bool.
Import ListNotations.

Definition ident := list N.          (* Unicode scalars of an Identifier *)
Definition path := list ident.       (* IdentifierPath *)
Definition node := nat.              (* SymbolIndex *)

Fixpoint ident_eqb (a b : ident) : bool :=
  match a, b with
  | [], [] => true
  | x :: a', y :: b' => N.eqb x y && ident_eqb a' b'
  | _, _ => false
  end.

(* "super" *)
Definition super_id : ident := [115; 117; 112; 101; 114]%N.
(* Identifier::is_super lower-cases first (`SUPER.x`, `Super.x` are `super.x`); identifiers are otherwise
   case-sensitive.  ASCII. *)
Definition to_lower (c : N) : N := if N.leb 65 c && N.leb c 90 then (c + 32)%N else c.
Definition is_super (id : ident) : bool := ident_eqb (map to_lower id) super_id.
Definition contains_super (p : path) : bool := existsb is_super p.

Record edge := mkEdge { e_src : node; e_lbl : ident; e_dst : node }.
Definition graph := list edge.       (* newest first *)

Inductive QueryTraversalStep := Symbol (nx : node) | Super (nx : node).

Definition step_node (s : QueryTraversalStep) : node := match s with Symbol n => n | Super n => n end.

(* fn child: first outgoing edge whose weight is `id` *)
Definition child (g : graph) (nx : node) (id : ident) : option node :=
  option_map e_dst (find (fun e => Nat.eqb (e_src e) nx && ident_eqb (e_lbl e) id) g).

(* fn parent: source of the LAST (= oldest) incoming edge: the edge the symbol was inserted with; edges added later
   by `export` make it visible elsewhere but do not change the scope it was defined in (92c8ba5) *)
Definition parent (g : graph) (nx : node) : option node :=
  option_map e_src (find (fun e => Nat.eqb (e_dst e) nx) (rev g)).

(* one iteration of try_index's loop *)
Definition index_step (g : graph) (nx : node) (id : ident) : option node :=
  if is_super id then parent g nx else child g nx id.

(* fn try_index *)
Fixpoint try_index (g : graph) (cur : option node) (p : path) : option node :=
  match p with
  | [] => cur
  | id :: rest =>
      match cur with
      | None => None
      | Some nx => try_index g (index_step g nx id) rest
      end
  end.

(* fn insert: add_node + add_edge(parent, new, id); the fresh index is supplied by the caller *)
Definition insert (g : graph) (parent_nx : node) (id : ident) (new_nx : node) : graph :=
  mkEdge parent_nx id new_nx :: g.

(* fn export, after ensure_index: refuses when an edge `new_id` from new_nx leads elsewhere *)
Definition export (g : graph) (to_export_nx new_nx : node) (new_id : ident) : option graph :=
  if existsb (fun e => Nat.eqb (e_src e) new_nx && negb (Nat.eqb (e_dst e) to_export_nx) && ident_eqb (e_lbl e) new_id) g
  then None
  else Some (mkEdge new_nx new_id to_export_nx :: g).

(* fn remove: remove_node drops the node's edges *)
Definition remove (g : graph) (nx : node) : graph :=
  filter (fun e => negb (Nat.eqb (e_src e) nx || Nat.eqb (e_dst e) nx)) g.

(* fn rename: every edge nx -> child_nx gets the weight new_id *)
Definition rename (g : graph) (nx child_nx : node) (new_id : ident) : graph :=
  map (fun e => if Nat.eqb (e_src e) nx && Nat.eqb (e_dst e) child_nx then mkEdge nx new_id child_nx else e) g.

(* the `while let Some(id) = ids.pop_front()` loop of query_traversal_steps, from node c:
   the nodes reached after each identifier, or None as soon as one identifier does not resolve *)
Fixpoint walk (g : graph) (c : node) (p : path) : option (list node) :=
  match p with
  | [] => Some []
  | id :: rest =>
      match index_step g c id with
      | None => None
      | Some c' => option_map (cons c') (walk g c' rest)
      end
  end.

(* fn query_traversal_steps.  The recursion bubbles up along `parent`; the graph need not be a tree, so it is
   fuelled.  None = out of fuel (never a normal result; statements name it). *)
Fixpoint query_traversal_steps (fuel : nat) (g : graph) (nx : node) (p : path) : option (list QueryTraversalStep) :=
  match fuel with
  | O => None
  | S fuel' =>
      match walk g nx p with
      | Some l => Some (match p with [] => [Symbol nx] | _ => map Symbol l end)
      | None =>
          if contains_super p then Some []
          else match parent g nx with
               | Some parent_nx => option_map (cons (Super parent_nx)) (query_traversal_steps fuel' g parent_nx p)
               | None => Some []
               end
      end
  end.

(* fn query: the last step, if it is a Symbol *)
Definition last_symbol (steps : list QueryTraversalStep) : option node :=
  match last steps (Super 0) with
  | Symbol nx => Some nx
  | Super _ => None
  end.

Definition query (fuel : nat) (g : graph) (nx : node) (p : path) : option (option node) :=
  option_map last_symbol (query_traversal_steps fuel g nx p).

(* fn query_steps_to_path *)
Fixpoint query_steps_to_path (g : graph) (nx : node) (steps : list QueryTraversalStep) (include_super : bool) : option path :=
  match steps with
  | [] => Some []
  | Symbol child_nx :: rest =>
      match find (fun e => Nat.eqb (e_src e) nx && Nat.eqb (e_dst e) child_nx) g with
      | Some e => option_map (cons (e_lbl e)) (query_steps_to_path g child_nx rest include_super)
      | None => None
      end
  | Super parent_nx :: rest =>
      option_map (fun p => if include_super then super_id :: p else p) (query_steps_to_path g parent_nx rest include_super)
  end.

(* depth of a node along `parent`, used to supply enough fuel *)
Fixpoint depth (fuel : nat) (g : graph) (nx : node) : option nat :=
  match fuel with
  | O => None
  | S f => match parent g nx with
           | None => Some 0
           | Some p => option_map S (depth f g p)
           end
  end.

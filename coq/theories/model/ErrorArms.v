(* Code model: which span the diagnostics of the modelled error constructors carry (codegen/mod.rs error arms,
   evaluator.rs expect_args).  The choice of the span per error kind is Gen.ErrSpans.err_span_source (regenerated from
   the Rust source on every run); this file says what each source means on the parts of the offending construct. *)
From Coq Require Import ZArith Bool.
From Mos Require Import Gen.ErrSpans.
Open Scope Z_scope.

Record sp := mkSp { lo : Z; hi : Z }.                      (* byte offsets within one file *)
(* Span::merge *)
Definition merge (a b : sp) : sp := mkSp (Z.min (lo a) (lo b)) (Z.max (hi a) (hi b)).

(* the spans the error arms can see *)
Record parts := mkParts {
  p_usage_path : sp;            (* the identifier path used in an expression *)
  p_invocation_name : sp;       (* `name` of a macro invocation *)
  p_macro_definition_id : sp;   (* `id` of the .macro definition it refers to *)
  p_segment_id : sp;            (* the name expression of `.segment` *)
  p_definition_id : sp;         (* `id` of the (re)definition being executed *)
  p_previous_definition_id : sp;(* `id` of the earlier definition of the same symbol *)
  p_mnemonic : sp;
  p_operand : option sp
}.

Definition full_span (p : parts) : sp :=
  match p_operand p with Some o => merge o (p_mnemonic p) | None => p_mnemonic p end.

Definition span_of_source (s : span_source) (p : parts) : sp :=
  match s with
  | SrcUsagePath => p_usage_path p
  | SrcInvocationName => p_invocation_name p
  | SrcSegmentId => p_segment_id p
  | SrcDefinitionId => p_definition_id p
  | SrcInstructionFull => full_span p
  | SrcMnemonic => p_mnemonic p
  end.

(* the label of the diagnostic raised for an error of kind k at a construct with these parts *)
Definition diag_span (k : err_kind) (p : parts) : sp := span_of_source (err_span_source k) p.

(* ------------------------------------------------------------------ which identifiers of an expression are looked up
   Evaluator::evaluate_expression: a factor that is an identifier is looked up (and tracked as a usage: unresolved ones
   enter CodegenContext::undefined); parentheses / flags / modifiers evaluate their inner expression; a binary expression
   evaluates lhs, then rhs, then applies the operator (Gen.ErrSpans.binary_evaluates_both, shape-checked on every run):
   `&&` and `||` do not short-circuit.  (An evaluation ERROR in lhs -- overflow etc. -- ends the evaluation with that
   error; the statement is rejected anyway.) *)
From Coq Require Import List NArith.
Import ListNotations.
Inductive uexpr :=
| ULit                              (* number / string / current pc *)
| UIdent (path : N)                 (* an identifier path (abstracted to a number) *)
| UWrap (inner : uexpr)             (* parentheses, `!`, `-`, `<`, `>` *)
| UCall (args : list uexpr)         (* a function call evaluates all its arguments; defined(..) forgets only its own *)
| UBin (lhs rhs : uexpr).           (* any binary operator, && and || included *)

Fixpoint tracked (e : uexpr) : list N :=
  match e with
  | ULit => []
  | UIdent p => [p]
  | UWrap i => tracked i
  | UCall args => (fix go (l : list uexpr) := match l with [] => [] | a :: r => tracked a ++ go r end) args
  | UBin l r => tracked l ++ (if binary_evaluates_both then tracked r else [])
  end.

(* the identifier occurs in the expression outside the argument list of a call *)
Fixpoint mentions (p : N) (e : uexpr) : Prop :=
  match e with
  | ULit => False
  | UIdent q => q = p
  | UWrap i => mentions p i
  | UCall _ => False
  | UBin l r => mentions p l \/ mentions p r
  end.

(* Code model: which span the diagnostics of the modelled error constructors carry (codegen/mod.rs error arms,
   evaluator.rs expect_args).  The choice of the span per error kind is Gen.ErrSpans.err_span_source (regenerated from
   the Rust source on every run); this file says what each source means on the parts of the offending construct. *)
From Coq Require Import ZArith Bool.
From Mos Require Import Gen.ErrSpans.
Open Scope Z_scope.

Record sp := mkSp { lo : Z; hi : Z }.                      (* byte offsets within one file *)
(* Span::merge *)
Definition merge (a b : sp) : sp := mkSp (Z.min (lo a) (lo b)) (Z.max (hi a) (hi b)).

(* the spans the error arms can see *)
Record parts := mkParts {
  p_usage_path : sp;            (* the identifier path used in an expression *)
  p_invocation_name : sp;       (* `name` of a macro invocation *)
  p_macro_definition_id : sp;   (* `id` of the .macro definition it refers to *)
  p_segment_id : sp;            (* the name expression of `.segment` *)
  p_definition_id : sp;         (* `id` of the (re)definition being executed *)
  p_previous_definition_id : sp;(* `id` of the earlier definition of the same symbol *)
  p_mnemonic : sp;
  p_operand : option sp
}.

Definition full_span (p : parts) : sp :=
  match p_operand p with Some o => merge o (p_mnemonic p) | None => p_mnemonic p end.

Definition span_of_source (s : span_source) (p : parts) : sp :=
  match s with
  | SrcUsagePath => p_usage_path p
  | SrcInvocationName => p_invocation_name p
  | SrcSegmentId => p_segment_id p
  | SrcDefinitionId => p_definition_id p
  | SrcInstructionFull => full_span p
  | SrcMnemonic => p_mnemonic p
  end.

(* the label of the diagnostic raised for an error of kind k at a construct with these parts *)
Definition diag_span (k : err_kind) (p : parts) : sp := span_of_source (err_span_source k) p.

(* Code model of the Display impls of parser/ast.rs (Located, Trivia, Expression, ExpressionFactor,
   InterpolatedString, Block, Token, format_arglist, format_trivia).

   `atoms_*` lists, in the order Display writes them, the pieces a value is printed from; `rust_atom` is what
   Rust's Display writes for a piece (keywords upper-cased from their canonical spelling, NewLine as LF, an
   unterminated comment as nothing, a missing closing brace as a clone of the opening one, nothing for the text taken
   by Eof); `exact_atom` is the source text the piece was parsed from (uses the model's ghost data).
   render = concatenation of rust_atom, show = concatenation of exact_atom. *)
From Coq Require Import List NArith Bool.
Import ListNotations.
From Mos Require Import model.Utf model.Nom Gen.ParserTables model.Parser.
Open Scope N_scope.

Definition span := (N * N)%type.
Inductive atom :=
| AItem (t : trivia)                                  (* one trivia item *)
| ATriv (t : ltrivia)                                 (* format_trivia of a Located *)
| AText (sp : option span) (s : text)                 (* text printed verbatim *)
| AKw (sp : option span) (canon orig : text)          (* a case-insensitive keyword *)
| AMissing (lp : located N)                           (* closing brace that was not there *)
| AEof (sp : option span) (s : text).                 (* what Eof's `rest` took: not printed by Display *)

Definition triv_exact (t : trivia) : text :=
  match t with
  | TWhitespace s => s
  | TNewLine crlf => if crlf then [13; 10] else [10]
  | TCStyle s _ => s
  | TCppStyle s => s
  end.
Definition triv_rust (t : trivia) : text :=
  match t with
  | TWhitespace s => s
  | TNewLine _ => [10]
  | TCStyle s terminated => if terminated then s else []
  | TCppStyle s => s
  end.
Definition triv_lossy (t : trivia) : bool := match t with TCStyle _ false => true | _ => false end.

Definition upper (s : text) : text := map ascii_upper s.

Definition exact_atom (a : atom) : text :=
  match a with
  | AItem t => triv_exact t
  | ATriv t => concat (map triv_exact (tv_items t))
  | AText _ s => s
  | AKw _ _ orig => orig
  | AMissing _ => []
  | AEof _ s => s
  end.
Definition rust_atom (a : atom) : text :=
  match a with
  | AItem t => triv_rust t
  | ATriv t => concat (map triv_rust (tv_items t))
  | AText _ s => s
  | AKw _ canon _ => upper canon
  | AMissing lp => match triv lp with Some t => concat (map triv_rust (tv_items t)) | None => [] end ++ [125]
  | AEof _ _ => []
  end.
Definition span_atom (a : atom) : option span :=
  match a with
  | AItem _ => None
  | ATriv t => Some (tv_lo t, tv_hi t)
  | AText sp _ => sp
  | AKw sp _ _ => sp
  | AMissing _ => None
  | AEof sp _ => sp
  end.
Definition lossy_atom (a : atom) : bool :=
  match a with
  | AItem t => triv_lossy t
  | ATriv t => existsb triv_lossy (tv_items t)
  | AMissing _ => true
  | _ => false
  end.

Definition exact (l : list atom) : text := concat (map exact_atom l).
Definition rust (l : list atom) : text := concat (map rust_atom l).
Definition lossy (l : list atom) : bool := existsb lossy_atom l.

(* ---- Located<T>: "{}{}", format_trivia(&self.trivia), &self.data ---- *)
Definition a_triv (t : option ltrivia) : list atom := match t with Some t => [ATriv t] | None => [] end.
Definition a_loc {A} (f : A -> list atom) (l : located A) : list atom := a_triv (triv l) ++ f (data l).
Definition sp_of {A} (l : located A) : option span := Some (lo l, hi l).
(* terminals: the piece carries the Located's span *)
Definition a_text (l : located text) : list atom := a_triv (triv l) ++ [AText (sp_of l) (data l)].
Definition a_char (l : located N) : list atom := a_triv (triv l) ++ [AText (sp_of l) [data l]].
Definition a_kw (l : located keyword) : list atom := a_triv (triv l) ++ [AKw (sp_of l) (fst (data l)) (snd (data l))].
Definition a_tagged {V} (disp : V -> text) (l : located (V * text)) : list atom :=
  a_triv (triv l) ++ [AKw (sp_of l) (disp (fst (data l))) (snd (data l))].
Definition a_disp {V} (disp : V -> text) (l : located V) : list atom := a_triv (triv l) ++ [AText (sp_of l) (disp (data l))].
Definition a_opt {A} (f : A -> list atom) (o : option A) : list atom := match o with Some a => f a | None => [] end.

Fixpoint join_path (p : path) : text :=
  match p with
  | [] => []
  | [x] => x
  | x :: r => x ++ 46 :: join_path r
  end.
Definition a_path (l : located path) : list atom := a_triv (triv l) ++ [AText (sp_of l) (join_path (data l))].

(* InterpolatedString / InterpolatedStringItem *)
Definition a_str_item (it : str_item) : list atom :=
  match it with
  | SString l => a_text l
  | SPath l => AText None [123] :: a_path l ++ [AText None [125]]
  end.
Definition a_istring (s : istring) : list atom :=
  a_char (lquote s) ++ concat (map a_str_item (items s)) ++ [AText None [34]].

(* format_arglist *)
Definition a_args {T} (f : T -> list atom) (l : arg_items T) : list atom :=
  concat (map (fun a => a_loc f (fst a) ++ a_opt a_char (snd a)) l).

(* Expression / ExpressionFactor *)
Fixpoint a_expr (e : expr) : list atom :=
  match e with
  | EBinary op l r =>
      (a_triv (triv l) ++ a_expr (data l)) ++ a_disp disp_BinaryOp op ++ (a_triv (triv r) ++ a_expr (data r))
  | EFactor f tn tg => a_opt a_char tn ++ a_opt a_char tg ++ (a_triv (triv f) ++ a_efactor (data f))
  end
with a_efactor (f : efactor) : list atom :=
  match f with
  | FCurrentPc star => a_char star
  | FParens lp inner rp => a_char lp ++ (a_triv (triv inner) ++ a_expr (data inner)) ++ a_char rp
  | FCall name lp args rp =>
      a_text name ++ a_char lp
      ++ concat (map (fun a => (a_triv (triv (fst a)) ++ a_expr (data (fst a))) ++ a_opt a_char (snd a)) args)
      ++ a_char rp
  | FIdent m p => a_opt (a_disp disp_AddressModifier) m ++ a_path p
  | FNumber ty v => a_disp disp_NumberType ty ++ a_text v
  | FString s => a_istring s
  end.
Definition a_lexpr (l : located expr) : list atom := a_loc a_expr l.
Definition a_lfactor (l : located efactor) : list atom := a_loc a_efactor l.
Definition a_eargs (l : arg_items expr) : list atom := a_args a_expr l.

(* Token::Instruction: the operand by addressing mode *)
Definition a_suffix (s : register_suffix) : list atom := a_char (comma s) ++ a_tagged disp_IndexRegister (register s).
Definition a_operand (o : operand_t) : list atom :=
  match o_mode o with
  | AbsoluteOrZp => a_lexpr (o_expr o) ++ a_opt a_suffix (suffix o)
  | Immediate => a_opt a_char (lchar o) ++ a_lexpr (o_expr o)
  | Implied => []
  | OuterIndirect => a_opt a_char (lchar o) ++ a_lexpr (o_expr o) ++ a_opt a_char (rchar o) ++ a_opt a_suffix (suffix o)
  | Indirect => a_opt a_char (lchar o) ++ a_lexpr (o_expr o) ++ a_opt a_suffix (suffix o) ++ a_opt a_char (rchar o)
  end.

Definition a_import_as (a : import_as) : list atom := a_kw (fst a) ++ a_path (snd a).
Definition a_specific (a : specific_import_arg) : list atom := a_path (sp_path a) ++ a_opt a_import_as (sp_as a).
Definition a_import_args (a : import_args) : list atom :=
  match a with
  | ImportAll star as_ => a_char star ++ a_opt a_import_as as_
  | ImportSpecific l => a_args a_specific l
  end.

Fixpoint a_token (t : token) : list atom :=
  match t with
  | TAlign tag value => a_kw tag ++ a_lexpr value
  | TAssert tag value msg => a_kw tag ++ a_lexpr value ++ a_opt a_istring msg
  | TBraces b _ => a_block b
  | TConfig b => a_block b
  | TConfigPair key eq_ value => a_text key ++ a_char eq_ ++ (a_triv (triv value) ++ a_token (data value))
  | TData size values => a_tagged disp_DataSize size ++ a_eargs values
  | TDefinition tag id value => a_kw tag ++ a_text id ++ match value with Some v => a_token v | None => [] end
  | TEof l => a_triv (triv l) ++ [AEof (sp_of l) (data l)]
  | TError l => a_text l
  | TExpression e => a_expr e
  | TIf tag_if value if_ else_ =>
      a_kw tag_if ++ a_lexpr value ++ a_block if_
      ++ match else_ with Some e => a_kw (fst e) ++ a_block (snd e) | None => [] end
  | TImport tag args from_ filename b _ =>
      a_kw tag ++ a_import_args args ++ a_kw from_ ++ a_istring filename ++ match b with Some b => a_block b | None => [] end
  | TFile tag filename => a_kw tag ++ a_istring filename
  | TInstruction mn op => a_kw mn ++ a_opt a_operand op
  | TLabel id colon b => a_text id ++ a_char colon ++ match b with Some b => a_block b | None => [] end
  | TLoop tag _ e b => a_kw tag ++ a_lexpr e ++ a_block b
  | TMacroDefinition tag id lp args rp b =>
      a_kw tag ++ a_text id ++ a_char lp ++ a_args (fun s => [AText None s]) args ++ a_char rp ++ a_block b
  | TMacroInvocation id lp args rp => a_text id ++ a_char lp ++ a_eargs args ++ a_char rp
  | TProgramCounterDefinition star eq_ value => a_char star ++ a_char eq_ ++ a_lexpr value
  | TSegment tag id b => a_kw tag ++ a_lexpr id ++ match b with Some b => a_block b | None => [] end
  | TTest tag id b => a_kw tag ++ a_lexpr id ++ a_block b
  | TText tag enc e => a_kw tag ++ a_opt (a_tagged disp_TextEncoding) enc ++ a_lexpr e
  | TTrace tag parens =>
      a_kw tag ++ match parens with Some p => a_char (fst (fst p)) ++ a_eargs (snd (fst p)) ++ a_char (snd p) | None => [] end
  | TVariableDefinition ty id eq_ value => a_tagged disp_VariableType ty ++ a_text id ++ a_char eq_ ++ a_lexpr value
  end
with a_block (b : block_t) : list atom :=
  match b with
  | Block lp inner rp =>
      a_char lp ++ concat (map a_token inner) ++ match rp with Some r => a_char r | None => [AMissing lp] end
  end.

Definition a_tokens (l : list token) : list atom := concat (map a_token l).

(* concatenated Display of a file's tokens, and the exact source text they were parsed from *)
Definition render (l : list token) : text := rust (a_tokens l).
Definition show (l : list token) : text := exact (a_tokens l).

(* the text taken by the Eof token's `rest` *)
Definition eof_rest (l : list token) : text :=
  match rev l with
  | TEof e :: _ => data e
  | _ => []
  end.

(* FormatTokens.v -- executable model of the token layer of mos-core/src/formatting/mod.rs:
   CodeFormatter (chunks, indent, spc_if_next), push / push_type, the Formattable impls, format_token (one arm per
   Token variant), format_block, format_expression(_factor), format_line, format_tokens, format.
   The AST mirrors parser/ast.rs at the granularity the formatter looks at: every leaf the formatter renders with
   `Display` is a `text` (the Display string, supplied by the probe's AST dump); every `Located<T>` keeps its trivia.
   The newline rule table, the option defaults and the casing table come from Gen/FmtRules.v (translated from the Rust
   source on every run).  No proofs in this file. *)
From Coq Require Import List NArith Bool Arith.
Import ListNotations.
From Mos Require Import model.Utf model.Format Gen.FmtRules.
Open Scope nat_scope.

(* ---------------------------------------------------------------- AST (parser/ast.rs) *)

Inductive trivia := Whitespace (s : text) | TNewLine | CStyle (s : text) | CppStyle (s : text).

(* Located<T>: span dropped; trivia = Option<Box<Located<Vec<Trivia>>>> *)
Record located (A : Type) := mkLoc { l_trivia : option (list trivia); l_data : A }.
Arguments mkLoc {A}.
Arguments l_trivia {A}.
Arguments l_data {A}.

Definition ltext := located text.

Inductive istring_item :=
| IString (s : ltext)              (* InterpolatedStringItem::String(Located<String>) *)
| IIdentifierPath (p : ltext).     (* InterpolatedStringItem::IdentifierPath(Located<IdentifierPath>) *)

Record istring := mkIStr { is_lquote : ltext; is_items : list istring_item }.

Inductive expr :=
| BinaryExpression (lhs : located expr) (op : ltext) (rhs : located expr)
| Factor (tag_not tag_neg : option ltext) (factor : located factor_)
with factor_ :=
| CurrentProgramCounter (star : ltext)
| ExprParens (lparen : ltext) (inner : located expr) (rparen : ltext)
| FunctionCall (name lparen : ltext) (args : list (located expr * option ltext)) (rparen : ltext)
| IdentifierValue (path : ltext) (modifier : option ltext)
| Number (ty value : ltext)
| FInterpolatedString (s : istring).

Definition arg_exprs := list (located expr * option ltext).     (* Vec<ArgItem<Expression>> *)
Definition arg_ids := list (ltext * option ltext).              (* Vec<ArgItem<Identifier>> *)

Inductive addressing_mode := AbsoluteOrZp | Immediate | Implied | Indirect | OuterIndirect.

Record operand := mkOperand {
  op_expr : located expr;
  op_lchar : option ltext;
  op_rchar : option ltext;
  op_mode : addressing_mode;
  op_suffix : option (ltext * ltext)       (* RegisterSuffix { comma, register } ; register = Display of IndexRegister *)
}.

Record import_as := mkImportAs { ia_tag : ltext; ia_path : ltext }.
Record specific_import_arg := mkSpecific { sa_path : ltext; sa_as : option import_as }.
Inductive import_args :=
| All (star : ltext) (as_ : option import_as)
| Specific (args : list (located specific_import_arg * option ltext)).

Inductive token :=
| Align (tag : ltext) (value : located expr)
| Assert (tag : ltext) (value : located expr) (failure_message : option istring)
| Braces (b : block)
| Config (b : block)
| ConfigPair (key eq : ltext) (value : located token)
| Data (values : arg_exprs) (size : ltext)
| Definition_ (tag id : ltext) (value : option token)
| Eof (l : located unit)
| Error (e : ltext)
| Expression (e : expr)
| File (tag : ltext) (filename : istring)
| If (tag_if : ltext) (value : located expr) (if_ : block) (tag_else : option ltext) (else_ : option block)
| Import (tag : ltext) (args : import_args) (from : ltext) (filename : istring) (b : option block)
| Instruction (mnemonic : ltext) (op : option operand)
| Label_ (id colon : ltext) (b : option block)
| Loop (tag : ltext) (e : located expr) (b : block)
| MacroDefinition (tag id lparen : ltext) (args : arg_ids) (rparen : ltext) (b : block)
| MacroInvocation (id lparen : ltext) (args : arg_exprs) (rparen : ltext)
| ProgramCounterDefinition (star eq : ltext) (value : located expr)
| Segment (tag : ltext) (id : located expr) (b : option block)
| Test (tag : ltext) (id : located expr) (b : block)
| Text (tag : ltext) (encoding : option ltext) (text_ : located expr)
| Trace (tag : ltext) (lparen : option ltext) (args : arg_exprs) (rparen : option ltext)
| VariableDefinition (ty id eq : ltext) (value : located expr)
with block := mkBlock (lparen : ltext) (inner : list token) (rparen : ltext).

Definition kind_of (t : token) : kind :=
  match t with
  | Align _ _ => KAlign | Assert _ _ _ => KAssert | Braces _ => KBraces | Config _ => KConfig
  | ConfigPair _ _ _ => KConfigPair | Data _ _ => KData | Definition_ _ _ _ => KDefinition | Eof _ => KEof
  | Error _ => KError | Expression _ => KExpression | File _ _ => KFile | If _ _ _ _ _ => KIf
  | Import _ _ _ _ _ => KImport | Instruction _ _ => KInstruction | Label_ _ _ _ => KLabel | Loop _ _ _ => KLoop
  | MacroDefinition _ _ _ _ _ _ => KMacroDefinition | MacroInvocation _ _ _ _ => KMacroInvocation
  | ProgramCounterDefinition _ _ _ => KProgramCounterDefinition | Segment _ _ _ => KSegment | Test _ _ _ => KTest
  | Text _ _ _ => KText | Trace _ _ _ _ => KTrace | VariableDefinition _ _ _ _ => KVariableDefinition
  end.

(* `block.is_some()` as bound in the newline rule table (Import { block, .. } and Label { block, .. }) *)
Definition has_block (t : token) : bool :=
  match t with
  | Import _ _ _ _ (Some _) => true
  | Label_ _ _ (Some _) => true
  | _ => false
  end.

Definition block_lparen (b : block) : ltext := match b with mkBlock l _ _ => l end.
Definition block_inner (b : block) : list token := match b with mkBlock _ i _ => i end.
Definition block_rparen (b : block) : ltext := match b with mkBlock _ _ r => r end.

(* Expression::trivia() *)
Definition expr_trivia (e : expr) : option (list trivia) :=
  match e with
  | BinaryExpression lhs _ _ => l_trivia lhs
  | Factor _ _ f => l_trivia f
  end.

(* Token::trivia(): the trivia in front of the first item of the token *)
Definition token_trivia (t : token) : option (list trivia) :=
  match t with
  | Align tag _ | Assert tag _ _ | Definition_ tag _ _ | File tag _ | If tag _ _ _ _ | Import tag _ _ _ _
  | Loop tag _ _ | MacroDefinition tag _ _ _ _ _ | Segment tag _ _ | Test tag _ _ | Text tag _ _ | Trace tag _ _ _ => l_trivia tag
  | Braces b | Config b => l_trivia (block_lparen b)
  | ConfigPair key _ _ => l_trivia key
  | Data _ size => l_trivia size
  | Eof l => l_trivia l
  | Error e => l_trivia e
  | Expression e => expr_trivia e
  | Instruction m _ => l_trivia m
  | Label_ id _ _ => l_trivia id
  | MacroInvocation id _ _ _ => l_trivia id
  | ProgramCounterDefinition star _ _ => l_trivia star
  | VariableDefinition ty _ _ _ => l_trivia ty
  end.

(* ---------------------------------------------------------------- CodeFormatter *)

Record fstate := mkF {
  f_chunks : list chunk;     (* self.chunks, NEWEST FIRST *)
  f_spc : bool;              (* self.spc_if_next *)
  f_indent : nat             (* self.indent *)
}.

Definition f_init : fstate := mkF [] false 0.

(* push_type: empty strings are not pushed (and leave spc_if_next untouched); a pending space is prepended *)
Definition push_type (ty : option chunk_type) (s : text) (st : fstate) : fstate :=
  match s with
  | [] => st
  | _ => let s' := if f_spc st then SP :: s else s in
         mkF (mkChunk ty (f_indent st) s' :: f_chunks st) false (f_indent st)
  end.
Definition push (s : text) (st : fstate) : fstate := push_type None s st.
Definition spc_if_next (st : fstate) : fstate := mkF (f_chunks st) true (f_indent st).
Definition clear_spc_if_next (st : fstate) : fstate := mkF (f_chunks st) false (f_indent st).

(* impl Formattable for &Vec<Trivia> *)
Definition fmt_trivium (t : trivia) (st : fstate) : fstate :=
  match t with
  | CStyle c | CppStyle c => push_type (Some Comment) c st
  | Whitespace _ => st
  | TNewLine => push [NL] st
  end.
Definition fmt_trivia (ts : list trivia) (st : fstate) : fstate := fold_left (fun s t => fmt_trivium t s) ts st.
Definition fmt_otrivia (ot : option (list trivia)) (st : fstate) : fstate :=
  match ot with Some ts => fmt_trivia ts st | None => st end.

(* impl Formattable for &Located<T>: the trivia, then the data *)
Definition fmt_loc (l : ltext) (st : fstate) : fstate := push (l_data l) (fmt_otrivia (l_trivia l) st).
(* impl Formattable for &Option<T> *)
Definition fmt_opt {A} (f : A -> fstate -> fstate) (x : option A) (st : fstate) : fstate :=
  match x with Some a => f a st | None => st end.

(* Display for Trivia / format_trivia / Display for Located<T> (used where a Located is pushed as a plain string) *)
Definition display_trivium (t : trivia) : text :=
  match t with Whitespace s => s | TNewLine => [NL] | CStyle s => s | CppStyle s => s end.
Definition display_located (l : ltext) : text :=
  match l_trivia l with Some ts => concat (map display_trivium ts) | None => [] end ++ l_data l.

(* Casing::format, on the ASCII texts it is applied to (mnemonic names, X / Y) *)
Definition ascii_upper (c : N) : N := if ((97 <=? c) && (c <=? 122))%N then (c - 32)%N else c.
Definition ascii_lower (c : N) : N := if ((65 <=? c) && (c <=? 90))%N then (c + 32)%N else c.
Definition casing_format (c : casing) (s : text) : text :=
  if casing_upper c then map ascii_upper s else map ascii_lower s.

Definition QUOTE : N := 34%N.
Definition LBRACE : N := 123%N.
Definition RBRACE : N := 125%N.
Definition COLON : N := 58%N.

(* impl Formattable for &InterpolatedString *)
Definition fmt_istring_item (i : istring_item) (st : fstate) : fstate :=
  match i with
  | IString s => push (display_located s) st
  | IIdentifierPath p =>      (* the trivia in front of the path: emitted iff Gen.FmtRules.emits_interpolation_trivia *)
      push [RBRACE] ((if emits_interpolation_trivia then fmt_loc p else push (l_data p)) (push [LBRACE] st))
  end.
Definition fmt_istring (s : istring) (st : fstate) : fstate :=
  push [QUOTE] (fold_left (fun a i => fmt_istring_item i a) (is_items s) (fmt_loc (is_lquote s) st)).

(* format_expression / format_expression_factor, with `fmt(&Located<Expression>)` = trivia, then the expression *)
Fixpoint format_expression (e : expr) (st : fstate) {struct e} : fstate :=
  match e with
  | BinaryExpression lhs op rhs =>
      let st := format_expression (l_data lhs) (fmt_otrivia (l_trivia lhs) st) in
      let st := push [SP] st in
      let st := fmt_loc op st in
      let st := push [SP] st in
      format_expression (l_data rhs) (fmt_otrivia (l_trivia rhs) st)
  | Factor tag_not tag_neg f =>
      let st := fmt_opt fmt_loc tag_not st in
      let st := fmt_opt fmt_loc tag_neg st in
      format_expression_factor (l_data f) (fmt_otrivia (l_trivia f) st)
  end
with format_expression_factor (f : factor_) (st : fstate) {struct f} : fstate :=
  match f with
  | CurrentProgramCounter star => fmt_loc star st
  | ExprParens lparen inner rparen =>
      fmt_loc rparen (format_expression (l_data inner) (fmt_otrivia (l_trivia inner) (fmt_loc lparen st)))
  | FunctionCall name lparen args rparen =>
      let st := fmt_loc lparen (fmt_loc name st) in
      (* impl Formattable for &Vec<ArgItem<Expression>> *)
      let st := fold_left (fun a (ec : located expr * option ltext) =>
                             spc_if_next (fmt_opt fmt_loc (snd ec)
                               (format_expression (l_data (fst ec)) (fmt_otrivia (l_trivia (fst ec)) a)))) args st in
      fmt_loc rparen (clear_spc_if_next st)
  | IdentifierValue path modifier => fmt_loc path (fmt_opt fmt_loc modifier st)
  | Number ty value => fmt_loc value (fmt_loc ty st)
  | FInterpolatedString s => fmt_istring s st
  end.

Definition fmt_lexpr (e : located expr) (st : fstate) : fstate :=
  format_expression (l_data e) (fmt_otrivia (l_trivia e) st).

(* impl Formattable for &Vec<ArgItem<Expression>> *)
Definition fmt_arg_exprs (args : arg_exprs) (st : fstate) : fstate :=
  clear_spc_if_next (fold_left (fun a (ec : located expr * option ltext) =>
                                  spc_if_next (fmt_opt fmt_loc (snd ec) (fmt_lexpr (fst ec) a))) args st).
(* impl Formattable for &Vec<ArgItem<Identifier>> *)
Definition fmt_arg_ids (args : arg_ids) (st : fstate) : fstate :=
  clear_spc_if_next (fold_left (fun a (ic : ltext * option ltext) =>
                                  spc_if_next (fmt_opt fmt_loc (snd ic) (fmt_loc (fst ic) a))) args st).

(* impl Formattable for &ImportAs *)
Definition fmt_import_as (a : import_as) (st : fstate) : fstate :=
  fmt_loc (ia_path a) (push [SP] (fmt_loc (ia_tag a) st)).

(* impl Formattable for &Vec<ArgItem<SpecificImportArg>>: `path.data.path`; whether the trivia of the Located wrapper
   around the SpecificImportArg is emitted first is read off the source (Gen.FmtRules.emits_import_arg_trivia) *)
Definition fmt_arg_specific (args : list (located specific_import_arg * option ltext)) (st : fstate) : fstate :=
  clear_spc_if_next (fold_left (fun a (pc : located specific_import_arg * option ltext) =>
      let p := l_data (fst pc) in
      let a := if emits_import_arg_trivia then fmt_otrivia (l_trivia (fst pc)) a else a in
      spc_if_next (fmt_opt fmt_loc (snd pc) (fmt_opt fmt_import_as (sa_as p) (spc_if_next (fmt_loc (sa_path p) a))))) args st).

(* impl Formattable for &Operand *)
Definition fmt_suffix (o : options) (suffix : option (ltext * ltext)) (st : fstate) : fstate :=
  match suffix with
  | Some (comma, register) =>
      let st := spc_if_next (fmt_loc comma st) in
      let st := fmt_loc (mkLoc (l_trivia register) (casing_format (o_register_casing o) (l_data register))) st in
      clear_spc_if_next st
  | None => st
  end.
Definition fmt_operand (o : options) (op : operand) (st : fstate) : fstate :=
  let st := fmt_lexpr (op_expr op) (fmt_opt fmt_loc (op_lchar op) st) in
  match op_mode op with
  | Indirect => fmt_opt fmt_loc (op_rchar op) (fmt_suffix o (op_suffix op) st)
  | OuterIndirect => fmt_suffix o (op_suffix op) (fmt_opt fmt_loc (op_rchar op) st)
  | _ => fmt_suffix o (op_suffix op) st
  end.

(* ---------------------------------------------------------------- format_tokens / format_line *)

(* the newline pushed before tokens[idx] (idx > 0) according to the rule table *)
Definition trivia_has_newline (ot : option (list trivia)) : bool :=
  match ot with Some ts => existsb (fun t => match t with TNewLine => true | _ => false end) ts | None => false end.
Definition is_eof_token (t : token) : bool := match t with Eof _ => true | _ => false end.
Definition is_blockless_label (t : token) : bool := match t with Label_ _ _ None => true | _ => false end.

Definition newline_before (prev : option token) (t : token) (st : fstate) : fstate :=
  match prev with
  | Some p =>
      match kind_of t with
      | KError => st                                   (* `if let Token::Error(_) = token { }` *)
      | _ =>
        (* a statement that starts on the line of the previous statement gets a line of its own
           (present in the source iff Gen.FmtRules.separates_same_line_statements) *)
        let st := if separates_same_line_statements && negb (trivia_has_newline (token_trivia t))
                     && negb (is_eof_token t) && negb (is_blockless_label p)
                  then push [NL] st else st in
        if pushes_newline (kind_of t) (has_block t) (kind_of p) then push [NL] st else st
      end
  | None => st
  end.

(* format_tokens, parameterised by format_token (so that format_block can call it on its inner tokens).
   `veof`: format_block formats `inner ++ [Token::Eof(rparen's trivia)]`; that appended Eof token is passed here as
   `Some trivia` instead of being appended to the list (an Eof token emits nothing itself).
   Chunks produced by the leading trivia are collected separately so that `trim_leading_trivia` can remove the
   newline chunks at `chunk_index`. *)
Definition eof_of (tr : option (list trivia)) : token := Eof (mkLoc tr tt).

Fixpoint drop_nl_chunks (cs : list chunk) : list chunk :=
  match cs with
  | c :: r => if is_nl_chunk c then drop_nl_chunks r else cs
  | [] => []
  end.

Section FormatTokens.
  (* ft and veof are fixed outside the recursion so that format_block may pass `format_token o` *)
  Variable ft : token -> fstate -> fstate.
  Variable veof : option (option (list trivia)).

  Fixpoint format_tokens_loop (prev : option token) (ts : list token) (st : fstate) {struct ts} : fstate :=
    match ts with
    | [] =>
        match veof with
        | Some tr => newline_before prev (eof_of tr) st        (* the appended Eof: rule newline, no text, no trivia after it *)
        | None => st
        end
    | t :: rest =>
        let st := newline_before prev t st in
        let st := ft t st in                                   (* format_line: the token ... *)
        let st := match rest with                              (* ... then the trivia of the next token *)
                  | n :: _ => fmt_otrivia (token_trivia n) st
                  | [] => match veof with Some tr => fmt_otrivia tr st | None => st end
                  end in
        format_tokens_loop (Some t) rest st
    end.

  Definition format_tokens_with (ts : list token) (trim_leading_trivia : bool) (st : fstate) : fstate :=
    (* format_line(tokens, None): trivia of the first token *)
    let first_trivia := match ts with
                        | t :: _ => token_trivia t
                        | [] => match veof with Some tr => tr | None => None end
                        end in
    let sub := fmt_otrivia first_trivia (mkF [] (f_spc st) (f_indent st)) in
    let lead := rev (f_chunks sub) in                                      (* oldest first *)
    let lead := if trim_leading_trivia then drop_nl_chunks lead else lead in
    let st := mkF (rev lead ++ f_chunks st) (f_spc sub) (f_indent sub) in
    format_tokens_loop None ts st.
End FormatTokens.

(* ---------------------------------------------------------------- format_token / format_block *)

(* pieces of format_block *)
(* the comments in front of `{` (present in the source iff Gen.FmtRules.emits_lbrace_trivia): a block comment is kept in
   front of the brace, a line comment ends its line; whitespace and newlines of that trivia are dropped *)
Definition fmt_lbrace_trivium (t : trivia) (st : fstate) : fstate :=
  match t with
  | CStyle c => push_type (Some Comment) c st
  | CppStyle c => push [NL] (push_type (Some Comment) c st)
  | Whitespace _ | TNewLine => st
  end.
Definition fmt_lbrace_trivia (ot : option (list trivia)) (st : fstate) : fstate :=
  match ot with Some ts => fold_left (fun s t => fmt_lbrace_trivium t s) ts st | None => st end.
(* `self.chunks.last().map(|c| c.str != "\n").unwrap_or(true)` negated: the newest chunk is a newline chunk *)
Definition last_is_nl (st : fstate) : bool := match f_chunks st with c :: _ => is_nl_chunk c | [] => false end.
(* with the brace on a new line it starts a line of its own; since the `{` repair no second line break is pushed when the
   newest chunk already is one (behind a line comment, or when the trivia of a config value carried the line break) *)
Definition open_block (o : options) (lparen : ltext) (st : fstate) : fstate :=
  match o_braces o with
  | SameLine => push [NL] (push (l_data lparen) st)
  | NewLine => push [NL] (push (l_data lparen) (if emits_lbrace_trivia && last_is_nl st then st else push [NL] st))
  end.
Definition indent_by (k : nat) (st : fstate) : fstate := mkF (f_chunks st) (f_spc st) (f_indent st + k).     (* self.indent += k *)
Definition dedent_by (k : nat) (st : fstate) : fstate := mkF (f_chunks st) (f_spc st) (f_indent st - k).     (* self.indent -= k *)
(* `while let Some(last) = self.chunks.last() { if last.str == "\n" { pop } else { break } }` *)
Definition pop_newlines (st : fstate) : fstate := mkF (drop_nl_chunks (f_chunks st)) (f_spc st) (f_indent st).


Fixpoint format_token (o : options) (t : token) (st : fstate) {struct t} : fstate :=
  match t with
  | Align tag value => fmt_lexpr value (push [SP] (push (l_data tag) st))
  | Assert tag value failure_message =>
      fmt_opt fmt_istring failure_message (spc_if_next (fmt_lexpr value (push [SP] (push (l_data tag) st))))
  | Braces b => format_block o false b st
  | Config b => format_block o true b st
  | ConfigPair key eq value =>
      let st := push [SP] (fmt_loc eq (push [SP] (push (l_data key) st))) in
      format_token o (l_data value) (fmt_otrivia (l_trivia value) st)
  | Data values size => fmt_arg_exprs values (push [SP] (push (l_data size) st))
  | Definition_ tag id value =>
      let st := push [SP] (fmt_loc id (push [SP] (push (l_data tag) st))) in
      match value with Some v => format_token o v st | None => st end
  | Error e => push (l_data e) st
  | Eof _ => st
  | Expression e => format_expression e st
  | File tag filename => fmt_istring filename (push [SP] (push (l_data tag) st))
  | If tag_if value if_ tag_else else_ =>
      let st := format_block o true if_ (push [SP] (fmt_lexpr value (push [SP] (push (l_data tag_if) st)))) in
      match tag_else with
      | Some te =>
          match o_braces o with
          | SameLine =>
              let st := push [SP] (fmt_loc te (push [SP] st)) in
              match else_ with Some e => format_block o true e st | None => st (* Rust: unwrap() panics; the parser never builds this *) end
          | NewLine =>
              (* `else` starts a line of its own; when it already does, its trivia carries the line break *)
              let st := if trivia_has_newline (l_trivia te) then st else push [NL] st in
              let st := fmt_loc te st in
              match else_ with Some e => format_block o true e st | None => st end
          end
      | None => st
      end
  | Import tag args from filename b =>
      let st := push [SP] (push (l_data tag) st) in
      let st := match args with
                | All c as_ => clear_spc_if_next (fmt_opt fmt_import_as as_ (spc_if_next (fmt_loc c st)))
                | Specific args => fmt_arg_specific args st
                end in
      let st := spc_if_next (fmt_istring filename (push [SP] (fmt_loc from (push [SP] st)))) in
      match b with Some b => format_block o true b st | None => st end
  | Instruction mnemonic op =>
      let st := spc_if_next (push (casing_format (o_casing o) (l_data mnemonic)) st) in
      clear_spc_if_next (fmt_opt (fmt_operand o) op st)
  | Label_ id colon b =>
      let st := push_type (Some Label) (l_data id ++ [COLON]) st in
      match b with Some b => format_block o true b st | None => st end
  | Loop tag e b => format_block o true b (push [SP] (fmt_lexpr e (push [SP] (push (l_data tag) st))))
  | MacroDefinition tag id lparen args rparen b =>
      let st := fmt_loc lparen (fmt_loc id (push [SP] (push (l_data tag) st))) in
      format_block o true b (spc_if_next (fmt_loc rparen (fmt_arg_ids args st)))
  | MacroInvocation id lparen args rparen =>
      fmt_loc rparen (fmt_arg_exprs args (fmt_loc lparen (push (l_data id) st)))
  | ProgramCounterDefinition star eq value =>
      fmt_lexpr value (push [SP] (fmt_loc eq (push [SP] (push (l_data star) st))))
  | Segment tag id b =>
      let st := push [SP] (fmt_lexpr id (push [SP] (push (l_data tag) st))) in
      match b with Some b => format_block o true b st | None => st end
  | Test tag id b => format_block o true b (spc_if_next (fmt_lexpr id (spc_if_next (push (l_data tag) st))))
  | Text tag encoding text_ =>
      fmt_lexpr text_ (spc_if_next (fmt_opt fmt_loc encoding (spc_if_next (push (l_data tag) st))))
  | Trace tag lparen args rparen =>
      fmt_opt fmt_loc rparen (fmt_arg_exprs args (fmt_opt fmt_loc lparen (spc_if_next (push (l_data tag) st))))
  | VariableDefinition ty id eq value =>
      fmt_lexpr value (push [SP] (fmt_loc eq (push [SP] (fmt_loc id (push [SP] (push (l_data ty) st))))))
  end
(* lt = false: format_block_without_lparen_trivia (a block statement: the trivia of `{` is its leading trivia) *)
with format_block (o : options) (lt : bool) (b : block) (st : fstate) {struct b} : fstate :=
  match b with
  | mkBlock lparen inner rparen =>
      let emit := lt && emits_lbrace_trivia in
      let st := if emit then fmt_lbrace_trivia (l_trivia lparen) st else st in
      let st := open_block o lparen st in
      let st := indent_by (o_indent o) st in
      let st := format_tokens_with (format_token o) (Some (l_trivia rparen)) inner true st in
      let st := dedent_by (o_indent o) st in
      let st := pop_newlines st in                              (* the inner chunks end with exactly one new-line *)
      let st := push [NL] st in
      push (l_data rparen) st
  end.

(* CodeFormatter::format: the chunk list of a file, then line assembly *)
Definition format_chunks (o : options) (ts : list token) : list chunk :=
  rev (f_chunks (format_tokens_with (format_token o) None ts false f_init)).
Definition format (o : options) (ts : list token) : text := join_chunks (format_chunks o ts) o.

(* RenameNames -- rename.rs `names_in`: the words of the text of a definition site / usage with their offsets (in
   characters), except the second word (`as` of an import argument `x as y`).  model/Rename.v takes the result as the
   environment function `names`.  No proofs in this file. *)
From Coq Require Import List NArith Arith Bool.
Import ListNotations.

Definition is_space (c : N) : bool := N.eqb c 32 || N.eqb c 9.

(* split_whitespace with positions: pos = offset of the next character, cur = the word being read (offset, reversed) *)
Fixpoint words (t : list N) (pos : nat) (cur : option (nat * list N)) : list (nat * list N) :=
  match t with
  | [] => match cur with Some (o, w) => [(o, rev w)] | None => [] end
  | c :: r =>
      if is_space c
      then match cur with Some (o, w) => (o, rev w) :: words r (S pos) None | None => words r (S pos) None end
      else words r (S pos) (match cur with Some (o, w) => Some (o, c :: w) | None => Some (pos, [c]) end)
  end.

(* fn names_in: every word but the second *)
Definition names_in (t : list N) : list (nat * list N) :=
  match words t 0 None with
  | a :: _ :: rest => a :: rest
  | l => l
  end.

(* the word stands at its offset *)
Definition stands_at (whole : list N) (e : nat * list N) : Prop :=
  firstn (length (snd e)) (skipn (fst e) whole) = snd e.

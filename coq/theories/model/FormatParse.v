(* FormatParse.v -- the formatter applied to the parser model's tokens: the AST of model/FormatTokens.v is a PROJECTION of
   the token type of model/Parser.v (spans, anonymous-scope numbers and ghost data dropped; every leaf the formatter
   renders with Display replaced by its Display string, as in Display.v: keywords by their canonical spelling, mnemonics
   by Display of Mnemonic = upper case, enums by the translated disp_* tables, identifier paths joined with '.').
   With it `format o (parse s)` is a Gallina term: format_source.  No proofs in this file. *)
From Coq Require Import List NArith Bool.
Import ListNotations.
From Mos Require model.Nom model.Parser model.Display.
From Mos Require Import model.Utf Gen.ParserTables model.Format Gen.FmtRules model.FormatTokens.


Definition p_trivium (t : Nom.trivia) : trivia :=
  match t with
  | Nom.TWhitespace s => Whitespace s
  | Nom.TNewLine _ => TNewLine
  | Nom.TCStyle s terminated => CStyle (if terminated then s else [])    (* Rust keeps "" for an unterminated comment *)
  | Nom.TCppStyle s => CppStyle s
  end.
Definition p_triv (t : option Nom.ltrivia) : option (list trivia) :=
  match t with Some lt => Some (map p_trivium (Nom.tv_items lt)) | None => None end.
Definition p_loc {A B} (f : A -> B) (l : Nom.located A) : located B := mkLoc (p_triv (Nom.triv l)) (f (Nom.data l)).

Definition p_text (l : Nom.located Nom.text) : ltext := p_loc (fun s => s) l.
Definition p_char (l : Nom.located N) : ltext := p_loc (fun c => [c]) l.
Definition p_kw (l : Nom.located Parser.keyword) : ltext := p_loc (fun k => fst k) l.              (* the canonical spelling *)
Definition p_mnemonic (l : Nom.located Parser.keyword) : ltext := p_loc (fun k => Display.upper (fst k)) l.   (* Display for Mnemonic *)
Definition p_tagged {V} (disp : V -> list N) (l : Nom.located (V * Nom.text)) : ltext := p_loc (fun x => disp (fst x)) l.
Definition p_disp {V} (disp : V -> list N) (l : Nom.located V) : ltext := p_loc disp l.
Definition p_path (l : Nom.located Parser.path) : ltext := p_loc Display.join_path l.
Definition p_opt {A B} (f : A -> B) (o : option A) : option B := match o with Some a => Some (f a) | None => None end.

Definition p_str_item (it : Parser.str_item) : istring_item :=
  match it with Parser.SString l => IString (p_text l) | Parser.SPath l => IIdentifierPath (p_path l) end.
Definition p_istring (s : Parser.istring) : istring := mkIStr (p_char (Parser.lquote s)) (map p_str_item (Parser.items s)).

Fixpoint p_expr (e : Parser.expr) : expr :=
  match e with
  | Parser.EBinary op lhs rhs =>
      BinaryExpression (mkLoc (p_triv (Nom.triv lhs)) (p_expr (Nom.data lhs))) (p_disp disp_BinaryOp op)
                       (mkLoc (p_triv (Nom.triv rhs)) (p_expr (Nom.data rhs)))
  | Parser.EFactor f tag_not tag_neg =>
      Factor (p_opt p_char tag_not) (p_opt p_char tag_neg) (mkLoc (p_triv (Nom.triv f)) (p_efactor (Nom.data f)))
  end
with p_efactor (f : Parser.efactor) : factor_ :=
  match f with
  | Parser.FCurrentPc star => CurrentProgramCounter (p_char star)
  | Parser.FParens lp inner rp => ExprParens (p_char lp) (mkLoc (p_triv (Nom.triv inner)) (p_expr (Nom.data inner))) (p_char rp)
  | Parser.FCall name lp args rp =>
      FunctionCall (p_text name) (p_char lp)
        (map (fun a : Nom.located Parser.expr * option (Nom.located N) =>
                (mkLoc (p_triv (Nom.triv (fst a))) (p_expr (Nom.data (fst a))), p_opt p_char (snd a))) args)
        (p_char rp)
  | Parser.FIdent m p => IdentifierValue (p_path p) (p_opt (p_disp disp_AddressModifier) m)
  | Parser.FNumber ty v => Number (p_disp disp_NumberType ty) (p_text v)
  | Parser.FString s => FInterpolatedString (p_istring s)
  end.
Definition p_lexpr (l : Nom.located Parser.expr) : located expr := p_loc p_expr l.
Definition p_eargs (l : Parser.arg_items Parser.expr) : arg_exprs := map (fun a => (p_lexpr (fst a), p_opt p_char (snd a))) l.

Definition p_mode (m : Parser.addressing_mode) : addressing_mode :=
  match m with
  | Parser.AbsoluteOrZp => AbsoluteOrZp | Parser.Immediate => Immediate | Parser.Implied => Implied
  | Parser.Indirect => Indirect | Parser.OuterIndirect => OuterIndirect
  end.
Definition p_operand (o : Parser.operand_t) : operand :=
  mkOperand (p_lexpr (Parser.o_expr o)) (p_opt p_char (Parser.lchar o)) (p_opt p_char (Parser.rchar o)) (p_mode (Parser.o_mode o))
            (p_opt (fun s => (p_char (Parser.comma s), p_tagged disp_IndexRegister (Parser.register s))) (Parser.suffix o)).

Definition p_import_as (a : Parser.import_as) : import_as := mkImportAs (p_kw (fst a)) (p_path (snd a)).
Definition p_import_args (a : Parser.import_args) : import_args :=
  match a with
  | Parser.ImportAll star as_ => All (p_char star) (p_opt p_import_as as_)
  | Parser.ImportSpecific l =>
      Specific (map (fun a : Nom.located Parser.specific_import_arg * option (Nom.located N) =>
                       (p_loc (fun s => mkSpecific (p_path (Parser.sp_path s)) (p_opt p_import_as (Parser.sp_as s))) (fst a),
                        p_opt p_char (snd a))) l)
  end.

Definition RBRACE_t : list N := [125%N].

Fixpoint project (t : Parser.token) : token :=
  match t with
  | Parser.TAlign tag value => Align (p_kw tag) (p_lexpr value)
  | Parser.TAssert tag value msg => Assert (p_kw tag) (p_lexpr value) (p_opt p_istring msg)
  | Parser.TBraces b _ => Braces (p_block b)
  | Parser.TConfig b => Config (p_block b)
  | Parser.TConfigPair key eq_ value => ConfigPair (p_text key) (p_char eq_) (mkLoc (p_triv (Nom.triv value)) (project (Nom.data value)))
  | Parser.TData size values => Data (p_eargs values) (p_tagged disp_DataSize size)
  | Parser.TDefinition tag id value => Definition_ (p_kw tag) (p_text id) (match value with Some v => Some (project v) | None => None end)
  | Parser.TEof l => Eof (mkLoc (p_triv (Nom.triv l)) tt)
  | Parser.TError l => Error (p_text l)
  | Parser.TExpression e => Expression (p_expr e)
  | Parser.TIf tag_if value if_ else_ =>
      If (p_kw tag_if) (p_lexpr value) (p_block if_)
         (match else_ with Some e => Some (p_kw (fst e)) | None => None end)
         (match else_ with Some e => Some (p_block (snd e)) | None => None end)
  | Parser.TImport tag args from_ filename b _ =>
      Import (p_kw tag) (p_import_args args) (p_kw from_) (p_istring filename) (match b with Some b => Some (p_block b) | None => None end)
  | Parser.TFile tag filename => File (p_kw tag) (p_istring filename)
  | Parser.TInstruction mn op => Instruction (p_mnemonic mn) (p_opt p_operand op)
  | Parser.TLabel id colon b => Label_ (p_text id) (p_char colon) (match b with Some b => Some (p_block b) | None => None end)
  | Parser.TLoop tag _ e b => Loop (p_kw tag) (p_lexpr e) (p_block b)
  | Parser.TMacroDefinition tag id lp args rp b =>
      MacroDefinition (p_kw tag) (p_text id) (p_char lp) (map (fun a => (p_text (fst a), p_opt p_char (snd a))) args) (p_char rp) (p_block b)
  | Parser.TMacroInvocation id lp args rp => MacroInvocation (p_text id) (p_char lp) (p_eargs args) (p_char rp)
  | Parser.TProgramCounterDefinition star eq_ value => ProgramCounterDefinition (p_char star) (p_char eq_) (p_lexpr value)
  | Parser.TSegment tag id b => Segment (p_kw tag) (p_lexpr id) (match b with Some b => Some (p_block b) | None => None end)
  | Parser.TTest tag id b => Test (p_kw tag) (p_lexpr id) (p_block b)
  | Parser.TText tag enc e => Text (p_kw tag) (p_opt (p_tagged disp_TextEncoding) enc) (p_lexpr e)
  | Parser.TTrace tag parens =>
      Trace (p_kw tag) (match parens with Some p => Some (p_char (fst (fst p))) | None => None end)
            (match parens with Some p => p_eargs (snd (fst p)) | None => [] end)
            (match parens with Some p => Some (p_char (snd p)) | None => None end)
  | Parser.TVariableDefinition ty id eq_ value => VariableDefinition (p_tagged disp_VariableType ty) (p_text id) (p_char eq_) (p_lexpr value)
  end
with p_block (b : Parser.block_t) : block :=
  match b with
  | Parser.Block lp inner rp =>
      mkBlock (p_char lp)
              ((fix go (l : list Parser.token) : list token := match l with [] => [] | t :: r => project t :: go r end) inner)
              (match rp with
               | Some r => p_char r
               | None => mkLoc (p_triv (Nom.triv lp)) RBRACE_t     (* Rust: lparen.clone().map_into(|_| '}') *)
               end)
  end.

Definition project_tokens (l : list Parser.token) : list token := map project l.

(* format(path, parse_or_err(path)?, options) for a single file: None = parse diagnostics (or the parser model gave up) *)
Definition format_source (o : options) (s : text) : option text :=
  match Parser.parse s with
  | Parser.Parsed toks [] => Some (format o (project_tokens toks))
  | _ => None
  end.

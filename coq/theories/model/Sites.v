(* Code model for C06: every place where mos-core can panic, abort or run without bound on user input, as a total
   function with explicit Panic / Unbounded results.  Which variant of each site the source has now comes from
   Gen/C06Sites.v and Gen/BinOps.v (translated on every run).  No proofs in this file. *)
From Coq Require Import List NArith ZArith Bool.
Import ListNotations.
From Mos Require Import model.I64 Gen.BinOps model.Expr Gen.C06Sites.
Open Scope Z_scope.

Inductive site (A : Type) : Type :=
  | SOk (a : A)                 (* a value *)
  | SDiag (d : nat)             (* a diagnostic (numbered per site) *)
  | SPanic.                     (* the Rust code panics here *)
Arguments SOk {A}. Arguments SDiag {A}. Arguments SPanic {A}.

(* ---- usize / i64 casts ---- *)
Definition usize_max : Z := two64 - 1.
Definition isize_max : Z := i64_max.
Definition as_usize (z : Z) : Z := z mod two64.               (* `v as usize` of an i64 *)
Definition usize_as_i64 (u : Z) : Z := wrap64 u.              (* `u as i64` of a usize *)

(* ---- Token::Align: number of padding bytes (before the segment's own range check) ----
   variants: guard `align <= 0` present or not; `%` (truncating, panics on 0 and on MIN % -1) or rem_euclid;
   optional cap.  Vec::resize(padding) panics with "capacity overflow" above isize::MAX. *)
Definition diag_align_not_positive : nat := 1%nat.
Definition align_padding_with (guard euclid : bool) (cap : option Z) (pc align : Z) : site Z :=
  let pci := usize_as_i64 pc in
  if guard && (align <=? 0) then SDiag diag_align_not_positive
  else if align =? 0 then SPanic                                     (* remainder with a divisor of zero *)
  else if (pci =? i64_min) && (align =? -1) then SPanic              (* remainder overflows *)
  else
    let r := if euclid then pci mod (Z.abs align) else Z.rem pci align in
    if negb (in_i64 (align - r)) then SPanic                         (* attempt to subtract with overflow *)
    else
      let p := align - r in
      let p := match cap with Some c => Z.min p c | None => p end in
      let n := as_usize p in
      if isize_max <? n then SPanic                                  (* capacity overflow *)
      else SOk n.
Definition align_padding : Z -> Z -> site Z := align_padding_with align_guard_positive align_rem_euclid align_cap.

(* ---- Token::Loop: `for index in 0..loop_count`, after the budget check: `used` = iterations already started in this
   pass by all loops together; result = the new count of started iterations (the loop then runs max 0 count times) ---- *)
Definition diag_loop_budget : nat := 9%nat.
Definition loop_iterations (count : Z) : Z := Z.max 0 count.
(* what a loop that is entered adds to the counter: its iterations, i.e. nothing for a negative count (`loop_count.max(0)`);
   without the clamp a negative count would refund budget to the loops that follow *)
Definition loop_charge (count : Z) : Z := if loop_charge_clamped then loop_iterations count else count.
Definition loop_enter (used count : Z) : site Z :=
  match loop_count_limit with
  | Some limit =>
      if negb (in_i64 (limit - used)) then SPanic                      (* `MAX_LOOP_ITERATIONS - self.loop_iterations` *)
      else if limit - used <? count then SDiag diag_loop_budget
      else if negb (in_i64 (used + loop_charge count)) then SPanic      (* `self.loop_iterations += ..` *)
      else SOk (used + loop_charge count)
  | None => SOk (used + loop_charge count)
  end.

(* ---- Identifier::new and the names that reach it from strings ---- *)
Definition has_period (s : list N) : bool := existsb (N.eqb 46) s.
Definition identifier_new (s : list N) : site (list N) :=
  if identifier_new_asserts && has_period s then SPanic else SOk s.
Definition diag_name_with_period : nat := 2%nat.
(* bank name, segment name, segment option `bank`, `.segment <string>` *)
Definition name_from_string (s : list N) : site (list N) :=
  if names_checked_for_period && has_period s then SDiag diag_name_with_period else identifier_new s.

(* ---- program counter arithmetic (codegen/program_counter.rs, segment.rs); pcs are usize values ---- *)
Definition pc_from_i64 (v : Z) : Z := as_usize v.                   (* `* = v`, start = v, pc = v *)
(* the range check where a value enters the program counter (`* =`, ConfigExtractor::check_address for start / pc) *)
Definition diag_pc_out_of_range : nat := 8%nat.
(* the segment options start / pc are addresses: 0..segment_address_limit *)
Definition address_check (v : Z) : site Z :=
  if pc_values_checked && negb ((0 <=? v) && (v <=? segment_address_limit)) then SDiag diag_pc_out_of_range else SOk (pc_from_i64 v).
(* `* = v`: an address, or the end of the address space: 0..pc_limit *)
Definition pc_value_check (v : Z) : site Z :=
  if pc_values_checked && negb ((0 <=? v) && (v <=? pc_limit)) then SDiag diag_pc_out_of_range else SOk (pc_from_i64 v).
(* Bank::prg_header(range.start): `debug_assert!(pc < 65536)` *)
Definition prg_header (start : Z) : site (Z * Z) := if start <? 65536 then SOk (start mod 256, (start / 256) mod 256) else SPanic.
(* register_all_segment_symbols meets a symbol of the program at `segments.<name>.start`: the assembler's symbol has no span *)
Definition diag_redefine : nat := 11%nat.
Definition spanless_clash : site unit := if spanless_clash_reported then SDiag diag_redefine else SPanic.
(* the invariant the range checks establish for the pc of a segment (initial, target): inside 0..pc_limit, and the
   relocated pc is not negative *)
Definition pc_ok (pc initial target : Z) : Prop :=
  0 <= pc <= pc_limit /\ 0 <= initial <= pc_limit /\ 0 <= target <= pc_limit /\ 0 <= pc + (target - initial).
(* `* = v` with the current segment's target offset (None: no current segment): the new pc, if one is set *)
Definition set_pc_site (v : Z) (offset : option Z) : site (option Z) :=
  match pc_value_check v with
  | SDiag d => SDiag d
  | SPanic => SPanic
  | SOk pc => match offset with
              | None => SOk None
              | Some off => if relocated_pc_checked && (v + off <? 0) then SDiag diag_pc_out_of_range else SOk (Some pc)
              end
  end.
Definition pc_add (pc n : Z) : site Z :=                             (* ProgramCounter + usize *)
  if pc_add_checked then SOk ((pc + n) mod two64) else if two64 <=? pc + n then SPanic else SOk (pc + n).
(* branch arm: `(self.try_current_target_pc().unwrap_or_else(|| target_pc.into()) + 2)`: in the segment-less pass 0 the
   base is the branch target itself *)
Definition branch_base (cur : option Z) (target : Z) : site Z :=
  pc_add (match cur with Some p => p | None => pc_from_i64 target end) 2.
(* `let mut offset = target_pc - cur_pc;` with cur_pc = (base + 2).as_i64() *)
Definition branch_offset (cur : option Z) (target : Z) : site Z :=
  match branch_base cur target with
  | SOk b => let o := target - usize_as_i64 b in
             if in_i64 o then SOk o else if branch_sub_checked then SOk (wrap64 o) else SPanic
  | SDiag d => SDiag d
  | SPanic => SPanic
  end.
(* Segment::emit: `let end = self.pc + bytes.len()` is computed before the range test *)
Definition diag_segment_out_of_range : nat := 3%nat.
Definition segment_emit (pc len : Z) : site Z :=
  if negb emit_end_checked && (two64 <=? pc + len) then SPanic
  else if (65535 <? pc) || (65536 <? pc + len) then SDiag diag_segment_out_of_range
  else SOk (pc + len).
(* SourceMap::add: `pc.as_usize()..(pc.as_usize() + len)` with the *target* pc, before Segment::emit *)
Definition source_map_add (tpc len : Z) : site unit := if two64 <=? tpc + len then SPanic else SOk tt.
(* target_offset = target_address.as_i64() - initial_pc.as_i64(); target_pc = (pc.as_i64() + offset) as usize *)
Definition target_pc (pc initial target : Z) : site Z :=
  let off := usize_as_i64 target - usize_as_i64 initial in
  if target_pc_checked then SOk (as_usize (wrap64 (usize_as_i64 pc + wrap64 off)))
  else if negb (in_i64 off) then SPanic
  else if negb (in_i64 (usize_as_i64 pc + off)) then SPanic
  else SOk (as_usize (usize_as_i64 pc + off)).

(* ---- the whole `.align <expr>` statement at target pc `pc` (segment pc = target pc): evaluate, pad, emit ---- *)
Definition diag_evaluation : nat := 4%nat.
Definition diag_not_an_integer : nat := 5%nat.
Inductive stmt_result := RNothing | REmitted (new_pc : Z) | RDiag (d : nat) | RPanic.

Definition eval_i64 (en : env) (e : expr) : site (option Z) :=
  match eval en e with
  | EVal None => SOk None
  | EVal (Some (SNum z)) => SOk (Some z)
  | EVal (Some (SStr _)) => SDiag diag_not_an_integer
  | EErr _ => SDiag diag_evaluation
  | EPanic => SPanic
  end.

Definition stmt_align (en : env) (pc : Z) (e : expr) : stmt_result :=
  match eval_i64 en e with
  | SPanic => RPanic | SDiag d => RDiag d | SOk None => RNothing
  | SOk (Some align) =>
      match align_padding pc align with
      | SPanic => RPanic | SDiag d => RDiag d
      | SOk n => match segment_emit pc n with SPanic => RPanic | SDiag d => RDiag d | SOk p => REmitted p end
      end
  end.

(* `.byte/.word/.dword <expr>` at pc *)
Definition stmt_data (en : env) (pc : Z) (size : Z) (e : expr) : stmt_result :=
  match eval_i64 en e with
  | SPanic => RPanic | SDiag d => RDiag d
  | SOk None => match segment_emit pc 0 with SPanic => RPanic | SDiag d => RDiag d | SOk p => REmitted p end
  | SOk (Some _) => match segment_emit pc size with SPanic => RPanic | SDiag d => RDiag d | SOk p => REmitted p end
  end.

(* target_offset of a segment, when the subtraction does not overflow *)
Definition seg_offset (initial target : Z) : Z := usize_as_i64 target - usize_as_i64 initial.

(* one emitted byte at pc in a segment (initial, target): target_pc and SourceMap::add first, then Segment::emit *)
Definition emit_one (pc initial target : Z) : stmt_result :=
  match target_pc pc initial target with
  | SPanic => RPanic | SDiag d => RDiag d
  | SOk t =>
      match source_map_add t 1 with
      | SPanic => RPanic | SDiag d => RDiag d
      | SOk _ => match segment_emit pc 1 with SPanic => RPanic | SDiag d => RDiag d | SOk p => REmitted p end
      end
  end.

(* `* = <expr>` followed by one emitted byte, in a segment with the given (already accepted) start and pc option *)
Definition stmt_pc_then_byte (en : env) (initial target : Z) (e : expr) : stmt_result :=
  match eval_i64 en e with
  | SPanic => RPanic | SDiag d => RDiag d | SOk None => RNothing
  | SOk (Some v) =>
      match set_pc_site v (Some (seg_offset initial target)) with
      | SPanic => RPanic | SDiag d => RDiag d
      | SOk None => RNothing
      | SOk (Some pc) => emit_one pc initial target
      end
  end.

(* `.define segment { start = s pc = t }` followed by one emitted byte *)
Definition stmt_segment_then_byte (s t : Z) : stmt_result :=
  match address_check s with
  | SPanic => RPanic | SDiag d => RDiag d
  | SOk initial => match address_check t with
                   | SPanic => RPanic | SDiag d => RDiag d
                   | SOk target => emit_one initial initial target
                   end
  end.

(* ---- recursion depth of emit_token through imports and macro invocations ----
   a call graph: node i calls the nodes in (nth i g []); depth of the recursion started at a node, with the guards
   the source has.  `Unbounded` = the recursion never returns (stack overflow in the implementation). *)
Inductive depth := Depth (n : nat) | CycleReported | Unbounded.

Fixpoint reaches_cycle (fuel : nat) (g : list (list nat)) (stack : list nat) (v : nat) : bool :=
  match fuel with
  | O => true
  | S f => if existsb (Nat.eqb v) stack then true
           else existsb (reaches_cycle f g (v :: stack)) (nth v g [])
  end.
(* a path without repetition has at most |g| nodes: |g| + 1 levels of fuel decide reachability of a cycle *)
Definition cyclic_from (g : list (list nat)) (v : nat) : bool := reaches_cycle (S (length g)) g [] v.

Fixpoint acyclic_depth (fuel : nat) (g : list (list nat)) (v : nat) : nat :=
  match fuel with
  | O => O
  | S f => S (fold_right Nat.max O (map (acyclic_depth f g) (nth v g [])))
  end.

(* imports: the file graph (0 = main file) *)
Definition import_depth (g : list (list nat)) : depth :=
  if cyclic_from g 0%nat then (if import_cycle_detected then CycleReported else Unbounded)
  else Depth (acyclic_depth (S (length g)) g 0%nat).
(* macros: node 0 = the top level; node i > 0 = macro i; edges = invocations (in the body, in taken branches) *)
Definition macro_depth (g : list (list nat)) : depth :=
  if cyclic_from g 0%nat then
    match nesting_depth_limit, macro_depth_limit with
    | None, None => Unbounded
    | _, _ => CycleReported           (* the 65th nested invocation is a diagnostic at that invocation *)
    end
  else Depth (acyclic_depth (S (length g)) g 0%nat).

(* ---- the recursion guards: emit_token (code generator) and `nested` (parser) count the containers around a token /
   a text and refuse to descend past the limit ---- *)
Definition diag_nested_too_deep : nat := 10%nat.
(* result: the depth at which the contents are processed *)
Definition guard_enter (limit : option nat) (depth : nat) : site nat :=
  match limit with
  | Some m => if Nat.leb m depth then SDiag diag_nested_too_deep else SOk (S depth)
  | None => SOk (S depth)
  end.
Definition codegen_enter : nat -> site nat := guard_enter nesting_depth_limit.
(* the parser's guard increments first and compares afterwards: same accepted depths *)
Definition parser_enter : nat -> site nat := guard_enter parser_nesting_limit.

(* the code generator's guard with its per-pass state: `entered` containers so far and whether a limit was hit already.
   Walk over a tree of containers as emit_token does it: a refused container is not entered, and after the first refusal
   nothing is entered any more for the rest of the pass. *)
Inductive tree := Node (children : list tree).
Record gstate := mkG { g_entered : Z; g_exhausted : bool; g_max_depth : nat; g_reported : nat }.
Definition over_depth (d : nat) : bool := match nesting_depth_limit with Some m => Nat.leb m d | None => false end.
Definition over_budget (n : Z) : bool := match container_budget with Some b => b <=? n | None => false end.
Fixpoint walk (fuel : nat) (d : nat) (t : tree) (st : gstate) : gstate :=
  match fuel with
  | O => st
  | S f =>
      match t with
      | Node cs =>
          if g_exhausted st && (match container_budget with Some _ => true | None => false end) then st      (* `if self.nesting_exhausted { return Ok(()) }` *)
          else if over_depth d || over_budget (g_entered st) then
            mkG (g_entered st) true (g_max_depth st) (S (g_reported st))                                       (* the diagnostic *)
          else
            fold_left (fun st' c => walk f (S d) c st') cs
                      (mkG (g_entered st + 1) (g_exhausted st) (Nat.max (g_max_depth st) (S d)) (g_reported st))
      end
  end.
Definition walk_pass (fuel : nat) (t : tree) : gstate := walk fuel 0 t (mkG 0 false 0 0).

(* how often the innermost text of n nested parentheses / argument lists is parsed when the parse fails (worst case):
   every level that tries the same text twice doubles it *)
Fixpoint parse_attempts (retries_per_level : nat) (n : nat) : nat :=
  match n with O => 1%nat | S k => (retries_per_level * parse_attempts retries_per_level k)%nat end.
Definition factor_attempts_per_level : nat := if factor_retry_guarded then 1%nat else 2%nat.
Definition arg_list_attempts_per_level : nat := if arg_list_items_parsed_once then 1%nat else 2%nat.

(* a call of a function from within the arguments of a call of the same function: with a lock around the callback the
   second `lock()` never returns *)
Inductive call_result := CallReturns | CallDeadlocks.
Definition nested_call_of_same_function : call_result := if function_callbacks_locked then CallDeadlocks else CallReturns.

(* ---- with_dummy_segment: the set of segments as a count of `$dummy` entries; nested use ---- *)
(* after an inner with_dummy_segment returns inside an outer one, is `$dummy` still there for the outer's next emit? *)
Definition dummy_present_after_nested : bool := dummy_segment_restored.
Definition emit_after_nested_dummy : site unit := if dummy_present_after_nested then SOk tt else SPanic.   (* get_mut(name).unwrap() *)

(* ---- `.define bank { size = .. fill = .. }` and BinaryWriter::merge_segments: bytes allocated for the padding ---- *)
Definition diag_bank_size_negative : nat := 6%nat.
Definition diag_bank_size_mismatch : nat := 7%nat.
Definition bank_padding (size len : Z) (has_fill : bool) : site Z :=
  if (size <? 0) || (match bank_size_limit with Some m => m <? size | None => false end) then SDiag diag_bank_size_negative
  else if len <? size then (if has_fill then SOk (size - len) else SDiag diag_bank_size_mismatch)
  else if size <? len then SDiag diag_bank_size_mismatch
  else SOk 0.

(* (no Known_* classes are left: every site above is total on the current source) *)

(* brace / parenthesis nesting of a text: what the parser's guard counts *)
Fixpoint nesting_depth (cur best : nat) (s : list N) : nat :=
  match s with
  | [] => best
  | c :: r => if (N.eqb c 123 || N.eqb c 40)%bool then nesting_depth (S cur) (Nat.max best (S cur)) r
              else if (N.eqb c 125 || N.eqb c 41)%bool then nesting_depth (Nat.pred cur) best r
              else nesting_depth cur best r
  end.

(* Rename -- the RenameHandler of mos/src/lsp/rename.rs.

   The handler reads the text of every definition site / usage span back from the source and takes the names in it
   (`names_in`): one identifier, or two for the argument `x as y` of a specific import, each with its offset in the
   span.  Here that is the function `names : Span -> list (nat * ident)`.  It determines the NAME UNDER THE CURSOR and
   edits exactly the places where the symbol found at the position is written with that name.  It does not touch
   the symbol table.

   Rust names are kept.  No proofs in this file. *)
From Coq Require Import List NArith Arith Bool.
Import ListNotations.
From Mos Require Import model.SymGraph model.Analysis.

Record TextEdit := mkEdit { ed_span : Span; ed_text : ident }.

(* an identifier: [A-Za-z0-9_]+ (programs are ASCII): the sites of `-` and `+` are braces *)
Definition is_ident_char (c : N) : bool :=
  (N.leb 48 c && N.leb c 57) || (N.leb 65 c && N.leb c 90) || (N.leb 97 c && N.leb c 122) || N.eqb c 95.
Definition ident_ok (id : ident) : bool :=
  match id with [] => false | _ => forallb is_ident_char id end.

(* the name of `dl` that the column points at (both ends inclusive) *)
Definition name_at (names : Span -> list (nat * ident)) (dl : DefinitionLocation) (col : nat) : option ident :=
  option_map snd
    (find (fun e => Nat.leb (s_c0 (dl_span dl) + fst e) col && Nat.leb col (s_c0 (dl_span dl) + fst e + List.length (snd e)))
          (names (dl_span dl))).

Fixpoint find_map {A B : Type} (f : A -> option B) (l : list A) : option B :=
  match l with
  | [] => None
  | x :: rest => match f x with Some y => Some y | None => find_map f rest end
  end.

Definition name_under_cursor (names : Span -> list (nat * ident)) (d : Def) (file line col : nat) : option ident :=
  find_map (fun dl => name_at names dl col)
           (filter (fun dl => span_contains (dl_span dl) file line col) (definition_and_usages d)).

(* the edits of one place: every name in it that is the old name *)
Definition edits_of (names : Span -> list (nat * ident)) (old new : ident) (dl : DefinitionLocation) : list TextEdit :=
  map (fun e => mkEdit (subspan (dl_span dl) (fst e) (fst e + List.length (snd e))) new)
      (filter (fun e => ident_eqb (snd e) old) (names (dl_span dl))).

Inductive RenameResult :=
| RenNone                                   (* the request is answered with null *)
| RenEdits (old_name : ident) (edits : list TextEdit).

Definition rename_symbol (names : Span -> list (nat * ident)) (d : Def) (file line col : nat) (new_name : ident)
  : RenameResult :=
  match location d with
  | None => RenNone
  | Some _ =>
      match name_under_cursor names d file line col with
      | Some old => if negb (is_super old) && ident_ok old
                    then RenEdits old (flat_map (edits_of names old new_name) (definition_and_usages d))
                    else RenNone
      | None => RenNone
      end
  end.

(* RenameHandler::handle: the first definition found at the position *)
Definition rename_handler (a : Analysis) (names : Span -> list (nat * ident))
           (file line col : nat) (new_name : ident) : RenameResult :=
  match find_ a file line col with
  | [] => RenNone
  | (DtFilename _, _) :: _ => RenNone
  | (_, d) :: _ => rename_symbol names d file line col new_name
  end.

(* PrepareRenameRequestHandler (the part that decides): an identifier other than `super` on which something is found *)
Definition prepare_rename (a : Analysis) (id_under_cursor : ident) (file line col : nat) : bool :=
  negb (match id_under_cursor with [] => true | _ => false end) &&
  negb (is_super id_under_cursor) && negb (match find_ a file line col with [] => true | _ => false end).

(* Rename -- the RenameHandler of mos/src/lsp/rename.rs.

   The handler reads the text of every usage span back from the source (`source_slice`) and turns it into an
   IdentifierPath; here that is the function `slice : Span -> path` (for an ordinary usage one identifier; for the
   argument of a specific import the whole `x as y`, which IdentifierPath::from makes ONE identifier; for a `super`
   usage the identifier super).  The HashMaps of the handler are keyed by usage; the loop that renames "all other
   paths by which the symbol may be reached" only relabels edges to the same new name, so its order is irrelevant.

   Rust names are kept.  No proofs in this file. *)
From Coq Require Import List NArith Arith Bool.
Import ListNotations.
From Mos Require Import model.SymGraph model.Analysis.

Record TextEdit := mkEdit { ed_span : Span; ed_text : path }.   (* new_text = the path's Display: identifiers joined by '.' *)

(* "First, determine all the query steps for every usage": (usage, steps, old path); None = out of fuel *)
Fixpoint usage_steps (fuel : nat) (g : graph) (slice : Span -> path) (us : list DefinitionLocation)
  : option (list (DefinitionLocation * list QueryTraversalStep * path)) :=
  match us with
  | [] => Some []
  | dl :: rest =>
      let p := slice (dl_span dl) in
      match query_traversal_steps fuel g (parent_scope dl) p, usage_steps fuel g slice rest with
      | Some steps, Some r => Some ((dl, steps, p) :: r)
      | _, _ => None
      end
  end.

(* "rename it across all other paths by which it may be reached" *)
Fixpoint rename_usages (g : graph) (l : list (DefinitionLocation * list QueryTraversalStep * path)) (new_id : ident) : graph :=
  match l with
  | [] => g
  | (dl, steps, _) :: rest =>
      let g' := match last_symbol steps with
                | Some nx => rename g (parent_scope dl) nx new_id
                | None => g
                end in
      rename_usages g' rest new_id
  end.

(* "reconstruct the identifiers": the new text of one usage, if query_steps_to_path yields one *)
Definition new_path (g : graph) (e : DefinitionLocation * list QueryTraversalStep * path) : option path :=
  let '(dl, steps, old_path) := e in
  query_steps_to_path g (parent_scope dl) steps (contains_super old_path).

Definition is_super_slice (slice : Span -> path) (dl : DefinitionLocation) : bool :=
  match slice (dl_span dl) with
  | [id] => is_super id
  | _ => false
  end.

(* the text at a definition site is an identifier ([A-Za-z0-9_]+; programs are ASCII): the sites of `-` and `+` are braces *)
Definition is_ident_char (c : N) : bool :=
  (N.leb 48 c && N.leb c 57) || (N.leb 65 c && N.leb c 90) || (N.leb 97 c && N.leb c 122) || N.eqb c 95.
Definition ident_ok (id : ident) : bool :=
  match id with [] => false | _ => forallb is_ident_char id end.
Definition def_site_is_identifier (slice : Span -> path) (loc : DefinitionLocation) : bool :=
  match slice (dl_span loc) with
  | [id] => ident_ok id
  | _ => false
  end.

Inductive RenameResult :=
| RenNone                                   (* the request is answered with null *)
| RenEdits (g' : graph) (edits : list TextEdit)
| RenOutOfFuel.

Definition rename_symbol (fuel : nat) (g : graph) (slice : Span -> path) (def_symbol_nx : node) (d : Def) (new_name : ident)
  : RenameResult :=
  match location d with
  | None => RenNone
  | Some loc =>
      if negb (def_site_is_identifier slice loc) then RenNone else
      match usage_steps fuel g slice (usages d) with
      | None => RenOutOfFuel
      | Some steps =>
          let g1 := rename g (parent_scope loc) def_symbol_nx new_name in
          let g2 := rename_usages g1 steps new_name in
          let text_of (dl : DefinitionLocation) : path :=
            match find (fun e => loc_eqb (fst (fst e)) dl) steps with
            | Some e => match new_path g2 e with Some p => p | None => [new_name] end
            | None => [new_name]
            end in
          RenEdits g2 (map (fun dl => mkEdit (dl_span dl) (text_of dl))
                           (filter (fun dl => negb (is_super_slice slice dl)) (definition_and_usages d)))
      end
  end.

(* RenameHandler::handle: the first definition found at the position *)
Definition rename_handler (fuel : nat) (g : graph) (a : Analysis) (slice : Span -> path)
           (file line col : nat) (new_name : ident) : RenameResult :=
  match find_ a file line col with
  | [] => RenNone
  | (DtFilename _, _) :: _ => RenNone
  | (DtSymbol nx, d) :: _ => rename_symbol fuel g slice nx d new_name
  end.

(* PrepareRenameRequestHandler (the part that decides): an identifier other than `super` on which something is found *)
Definition prepare_rename (a : Analysis) (id_under_cursor : ident) (file line col : nat) : bool :=
  negb (match id_under_cursor with [] => true | _ => false end) &&
  negb (is_super id_under_cursor) && negb (match find_ a file line col with [] => true | _ => false end).

(* Code model for C10 (builds are reproducible): every iteration over a HashMap / HashSet whose elements can reach
   build output, with the iteration order supplied by a permutation oracle.

   Mirrors (Rust names kept):
     itertools `sorted` / `sorted_by_key` (stable)                      -> sort
     codegen/mod.rs  codegen(): report of `ctx.undefined`               -> report_undefined
     codegen/symbols.rs  children(), all(), all_impl()                  -> all_impl, all
     io/vice.rs  to_vice_symbols                                        -> to_vice_symbols
     io/listing.rs to_listing + commands/build.rs listing loop          -> write_listings
     parser/mod.rs parse(): work list, pending imports, code map,
       anonymous-scope counter (parser/ast.rs State)                    -> parse
     codegen/mod.rs Token::Import, ImportArgs::All: export loop         -> import_all
     codegen/config_validator.rs: "missing required fields"            -> missing_required
     mos/src/diagnostic_emitter.rs emit_diagnostics (no sorting)        -> emit_diagnostics

   Which collection type / sort key is used at each site is NOT written here: it is read from the Rust source on
   every run by translate/t_repro.py (Gen/ReproSites.v) and passed in as `coll_kind` / `undef_key` / `bool`.

   An oracle is `forall A, list nat -> list A -> list A`: the `list nat` names the call (site :: dynamic call path), so
   that two maps with equal contents may still be iterated in different orders.  Theorems quantify over all oracles
   with `Permutation (pi A c l) l`.  No proofs in this file. *)
From Coq Require Import List NArith ZArith Bool.
Import ListNotations.

Definition oracle := forall A : Type, list nat -> list A -> list A.
Definition ident_oracle : oracle := fun _ _ l => l.
Definition rev_oracle : oracle := fun _ _ l => rev l.
Fixpoint call_eqb (a b : list nat) : bool :=
  match a, b with
  | [], [] => true
  | x :: a', y :: b' => Nat.eqb x y && call_eqb a' b'
  | _, _ => false
  end.
Definition rev_at_oracle (c0 : list nat) : oracle := fun _ c l => if call_eqb c c0 then rev l else l.

(* ------------------------------------------------------------------ stable sort *)
Section Sort.
  Context {A : Type}.
  Variable leb : A -> A -> bool.
  Fixpoint insert (x : A) (l : list A) : list A :=
    match l with
    | [] => [x]
    | y :: t => if leb x y then x :: y :: t else y :: insert x t
    end.
  (* stable: an element is placed before the first element it is <= to, and elements are inserted right to left *)
  Fixpoint sort (l : list A) : list A :=
    match l with
    | [] => []
    | x :: t => insert x (sort t)
    end.
End Sort.

(* ------------------------------------------------------------------ orders on the data involved *)
Definition name := list N.                      (* a string: Unicode scalars; Rust compares the UTF-8 bytes, same order *)

Fixpoint lex_leb {A} (eqb leb : A -> A -> bool) (a b : list A) : bool :=
  match a, b with
  | [], _ => true
  | _ :: _, [] => false
  | x :: a', y :: b' => if eqb x y then lex_leb eqb leb a' b' else leb x y
  end.
Fixpoint list_eqb {A} (eqb : A -> A -> bool) (a b : list A) : bool :=
  match a, b with
  | [], [] => true
  | x :: a', y :: b' => eqb x y && list_eqb eqb a' b'
  | _, _ => false
  end.
(* derive(Ord) on a pair / a two-field struct: first components decide unless they are equal *)
Definition pair_leb {A B} (eqa lea : A -> A -> bool) (leb : B -> B -> bool) (x y : A * B) : bool :=
  if eqa (fst x) (fst y) then leb (snd x) (snd y) else lea (fst x) (fst y).
Definition name_leb : name -> name -> bool := lex_leb N.eqb N.leb.
Definition name_eqb : name -> name -> bool := list_eqb N.eqb.

Definition span := (N * N)%type.                (* (low, high) positions in the code map; derive(Ord): lexicographic *)
Definition span_leb : span -> span -> bool := pair_leb N.eqb N.leb N.leb.
Definition span_eqb (a b : span) : bool := N.eqb (fst a) (fst b) && N.eqb (snd a) (snd b).
Definition ospan_leb (a b : option span) : bool :=   (* Option: None < Some *)
  match a, b with
  | None, _ => true
  | Some _, None => false
  | Some x, Some y => span_leb x y
  end.
Definition ospan_eqb (a b : option span) : bool :=
  match a, b with
  | None, None => true
  | Some x, Some y => span_eqb x y
  | _, _ => false
  end.

Definition path := list name.                   (* PathBuf: compared component-wise *)
Definition path_leb : path -> path -> bool := lex_leb name_eqb name_leb.
Definition path_eqb : path -> path -> bool := list_eqb name_eqb.

(* ------------------------------------------------------------------ site descriptions (values come from Gen/ReproSites.v) *)
Inductive coll_kind := Hashed | Ordered.        (* HashMap/HashSet  vs  Vec/IndexMap (insertion order) *)
Inductive undef_key := KeyName | KeyNameSpan.   (* sorted_by_key(|k| k.id.to_string())  vs  (k.id.to_string(), k.span) *)
Inductive iter_kind := IterHashed | IterSortedByKey.   (* raw hash-map iteration  vs  sorted by a unique key first *)

Definition iterate {A} (k : coll_kind) (pi : oracle) (call : list nat) (l : list A) : list A :=
  match k with Hashed => pi A call l | Ordered => l end.

(* ------------------------------------------------------------------ diagnostics and the CLI emitter *)
Inductive diag :=
  | UnknownIdentifier (id : name) (sp : option span)
  | FileNotFound (p : path) (sp : span)
  | ParseError (sp : span)
  | CannotImportDefined (id : name) (sp : span)
  | MissingRequired (fields : list name).

(* diagnostic_emitter.rs: `for diag in diagnostics.iter()` -- no sorting; one rendered item per diagnostic, in order *)
Definition emit_diagnostics {R} (render : diag -> R) (ds : list diag) : list R := map render ds.

(* ------------------------------------------------------------------ codegen(): undefined symbols *)
Record undefined_symbol := mkUndef { us_scope : nat; us_id : name; us_span : option span }.

Definition undef_key_of (u : undefined_symbol) : name * option span := (us_id u, us_span u).
Definition undef_leb (k : undef_key) (a b : undefined_symbol) : bool :=
  match k with
  | KeyName => name_leb (us_id a) (us_id b)
  | KeyNameSpan => pair_leb name_eqb name_leb ospan_leb (undef_key_of a) (undef_key_of b)
  end.
Definition diag_of_key (k : name * option span) : diag := UnknownIdentifier (fst k) (snd k).
Definition undef_diag (u : undefined_symbol) : diag := diag_of_key (undef_key_of u).

(* ctx.undefined.iter().sorted_by_key(..).map(..).collect_vec() ; `und` = the elements of the hash set *)
Definition report_undefined (k : undef_key) (pi : oracle) (und : list undefined_symbol) : list diag :=
  map undef_diag (sort (undef_leb k) (pi _ [0%nat] und)).

(* ------------------------------------------------------------------ symbol table enumeration and VICE export *)
Inductive symbol_type := TyLabel | TyOther.
Record symbol := mkSym { sy_ty : symbol_type; sy_value : Z }.
(* a node of the symbol graph seen from the root: node index, data, outgoing edges (children() = a HashMap keyed by the
   edge identifier, so sibling identifiers are distinct and every path occurs once) *)
Inductive sym_node := Node (nx : nat) (data : option symbol) (children : list (name * sym_node)).

Definition dot : N := 46%N.
Fixpoint path_to_string (p : list name) : name :=     (* IdentifierPath Display: join(".") *)
  match p with
  | [] => []
  | [x] => x
  | x :: t => x ++ dot :: path_to_string t
  end.

(* all_impl: insert self, then for every child (hash order) recurse.  The oracle permutes the per-child results. *)
Fixpoint all_impl (pi : oracle) (call : list nat) (n : sym_node) (p : list name) : list (list name * symbol) :=
  match n with
  | Node nx d ch =>
      (match d with Some s => [(p, s)] | None => [] end) ++
      concat (pi _ (1%nat :: nx :: call)
                 (map (fun c => all_impl pi (nx :: call) (snd c) (p ++ [fst c])) ch))
  end.
(* all(): the resulting HashMap<IdentifierPath, _>, iterated by the caller *)
Definition all (pi : oracle) (root : sym_node) : list (list name * symbol) :=
  pi _ [2%nat] (all_impl pi [] root []).

Definition hex_digit (d : N) : N := if (d <? 10)%N then (48 + d)%N else (55 + d)%N.   (* {:X}: upper case *)
Fixpoint hex_aux (fuel : nat) (n : N) (acc : name) : name :=
  match fuel with
  | O => acc
  | S f => let acc' := hex_digit (n mod 16) :: acc in
           if (n / 16 =? 0)%N then acc' else hex_aux f (n / 16) acc'
  end.
(* format!("{:X}", i64): two's complement of negative values, at most 16 digits *)
Definition hex_i64 (v : Z) : name := hex_aux 16 (Z.to_N (v mod 18446744073709551616)) [].

Definition vice_prefix : name := [97; 108; 32; 67; 58]%N.       (* "al C:" *)
Definition vice_line (e : list name * symbol) : option name :=
  match sy_ty (snd e) with
  | TyLabel => Some (vice_prefix ++ hex_i64 (sy_value (snd e)) ++ [32; 46]%N ++ path_to_string (fst e))
  | TyOther => None
  end.
Fixpoint filter_map {A B} (f : A -> option B) (l : list A) : list B :=
  match l with
  | [] => []
  | x :: t => match f x with Some y => y :: filter_map f t | None => filter_map f t end
  end.
Fixpoint join (sep : name) (l : list name) : name :=
  match l with
  | [] => []
  | [x] => x
  | x :: t => x ++ sep ++ join sep t
  end.
Definition line_ending : name := [10%N].

(* table.all().into_iter().filter_map(..).sorted().join(LINE_ENDING) ; `sorted` = whether `.sorted()` is there *)
Definition to_vice_symbols (sorted : bool) (pi : oracle) (root : sym_node) : name :=
  let lines := filter_map vice_line (all pi root) in
  join line_ending (if sorted then sort name_leb lines else lines).

(* ------------------------------------------------------------------ listing files *)
(* to_listing returns HashMap<PathBuf, String> (one entry per file of the code map); build.rs writes
   target/<file_stem>.lst for every entry.  File system = association list, a later write replaces an earlier one. *)
Definition fs := list (name * name).
Fixpoint fs_write (f : fs) (n c : name) : fs :=
  match f with
  | [] => [(n, c)]
  | (n', c') :: t => if name_eqb n' n then (n, c) :: t else (n', c') :: fs_write t n c
  end.
Fixpoint fs_lookup (f : fs) (n : name) : option name :=
  match f with
  | [] => None
  | (n', c) :: t => if name_eqb n' n then Some c else fs_lookup t n
  end.
Definition listing_entry_leb : path * name -> path * name -> bool :=       (* Vec<(PathBuf, String)>::sort() *)
  pair_leb path_eqb path_leb name_leb.
Definition write_listings (k : iter_kind) (stem : path -> name) (pi : oracle) (listing : list (path * name)) : fs :=
  let entries := match k with
                 | IterHashed => pi _ [3%nat] listing
                 | IterSortedByKey => sort listing_entry_leb (pi _ [3%nat] listing)
                 end in
  fold_left (fun f e => fs_write f (stem (fst e)) (snd e)) entries [].

(* ------------------------------------------------------------------ parse(): work list of files to import *)
(* what matters of a file's text, in the order in which the parser meets it *)
Inductive event :=
  | EScope                                 (* `{`, `.loop`, ...: State::new_anonymous_scope *)
  | EImport (target : path) (sp : span)    (* `.import .. from "f"`: new_anonymous_scope, then to_import.insert(path, span) *)
  | EError (sp : span).                    (* a parse error at a file-relative span *)
Record source := mkSource { src_len : N; src_events : list event }.
Definition project := list (path * source).     (* the files that exist *)

Fixpoint find_file (p : project) (f : path) : option source :=
  match p with
  | [] => None
  | (g, s) :: t => if path_eqb g f then Some s else find_file t f
  end.

(* HashMap / IndexMap insert: an existing key keeps its place and takes the new value *)
Fixpoint map_insert (m : list (path * span)) (k : path) (v : span) : list (path * span) :=
  match m with
  | [] => [(k, v)]
  | (k', v') :: t => if path_eqb k' k then (k', v) :: t else (k', v') :: map_insert t k v
  end.

Record parsed_file := mkParsed {
  pf_path : path;
  pf_base : N;                 (* file.span.low in the code map *)
  pf_scopes : list nat         (* the `$scope_N` numbers handed out while this file was parsed, in order *)
}.
Record parse_state := mkPState {
  ps_counter : nat;            (* State::anonymous_scope_index *)
  ps_end : N;                  (* CodeMap::end_pos *)
  ps_files : list parsed_file; (* code_map.files(), in order of add_file *)
  ps_errors : list diag        (* State::errors *)
}.
Definition shift (base : N) (sp : span) : span := (base + fst sp, base + snd sp)%N.

(* parse_with_instance on one file: returns counter, scope numbers (reversed), pending imports, errors (reversed) *)
Fixpoint parse_events (base : N) (evs : list event) (counter : nat) (scopes : list nat)
         (to_import : list (path * span)) (errs : list diag)
  : nat * list nat * list (path * span) * list diag :=
  match evs with
  | [] => (counter, scopes, to_import, errs)
  | EScope :: t => parse_events base t (S counter) (S counter :: scopes) to_import errs
  | EImport f sp :: t => parse_events base t (S counter) (S counter :: scopes) (map_insert to_import f (shift base sp)) errs
  | EError sp :: t => parse_events base t counter scopes to_import (ParseError (shift base sp) :: errs)
  end.

Definition already_imported (st : parse_state) (f : path) : bool :=
  existsb (fun pf => path_eqb (pf_path pf) f) (ps_files st).

Inductive parse_result :=
  | Parsed (st : parse_state)
  | ParseOutOfFuel.

(* the `while !files_to_import.is_empty()` loop; the work list is a stack (Vec::push / Vec::pop), head = top.
   `iter` counts loop iterations and names the oracle call. *)
Fixpoint parse_loop (k : coll_kind) (pi : oracle) (p : project) (fuel : nat) (iter : nat)
         (work : list path) (st : parse_state) : parse_result :=
  match work with
  | [] => Parsed st
  | f :: rest =>
      match fuel with
      | O => ParseOutOfFuel
      | S fuel' =>
          if already_imported st f then parse_loop k pi p fuel' (S iter) rest st
          else
            match find_file p f with
            | None => Parsed st        (* unreachable: only existing files are pushed; main file checked by the caller *)
            | Some src =>
                let base := (ps_end st + 1)%N in
                let '(counter, scopes, to_import, errs) :=
                    parse_events base (src_events src) (ps_counter st) [] [] [] in
                let st1 := mkPState counter (base + src_len src)%N
                                    (ps_files st ++ [mkParsed f base (rev scopes)])
                                    (ps_errors st ++ rev errs) in
                (* for (also_import, span) in to_import: exists -> push, else report "file not found" *)
                let '(work', errs') :=
                    fold_left (fun acc e =>
                                 match find_file p (fst e) with
                                 | Some _ => (fst e :: fst acc, snd acc)
                                 | None => (fst acc, snd acc ++ [FileNotFound (fst e) (snd e)])
                                 end)
                              (iterate k pi [4%nat; iter] to_import) (rest, ps_errors st1) in
                parse_loop k pi p fuel' (S iter) work'
                           (mkPState (ps_counter st1) (ps_end st1) (ps_files st1) errs')
          end
      end
  end.

Definition count_imports (s : source) : nat :=
  length (filter (fun e => match e with EImport _ _ => true | _ => false end) (src_events s)).
Definition parse_fuel (p : project) : nat := S (fold_right (fun fs n => count_imports (snd fs) + n) 0 p).

Definition parse (k : coll_kind) (pi : oracle) (p : project) (main : path) : parse_result :=
  parse_loop k pi p (parse_fuel p) 0 [main] (mkPState 0 0 [] []).

(* the pending-import map a file produces (for the guard of the hashed variant) *)
Definition to_import_of (s : source) : list (path * span) :=
  snd (fst (parse_events 0 (src_events s) 0 [] [] [])).
Definition at_most_one_import_per_file (p : project) : bool :=
  forallb (fun fs => Nat.leb (length (to_import_of (snd fs))) 1) p.

(* ------------------------------------------------------------------ Token::Import, ImportArgs::All: the export loop *)
(* children of the import scope: (identifier, node index); `existing`: identifiers already defined in the target scope
   that point to a different node.  symbols.export returns false on the first clash -> the whole statement fails with
   "cannot import an already defined symbol: <id>". *)
(* sorted_by_key: the key is the pair (node index, identifier) *)
Definition child_key (c : name * nat) : nat * name := (snd c, fst c).
Definition child_leb (a b : name * nat) : bool := pair_leb Nat.eqb Nat.leb name_leb (child_key a) (child_key b).
Fixpoint export_loop (existing : list name) (to_export : list (name * nat)) (sp : span) (done : list name)
  : list name + diag :=
  match to_export with
  | [] => inl done
  | (id, _) :: t =>
      if existsb (name_eqb id) existing then inr (CannotImportDefined id sp)
      else export_loop existing t sp (done ++ [id])
  end.
(* the order in which the children of an import scope are visited (`call` = which import statement, which pass) *)
Definition children_order (k : iter_kind) (pi : oracle) (call : nat) (children : list (name * nat)) : list (name * nat) :=
  match k with
  | IterHashed => pi _ [5%nat; call] children
  | IterSortedByKey => sort child_leb (pi _ [5%nat; call] children)
  end.
Definition import_all (k : iter_kind) (pi : oracle) (call : nat) (children : list (name * nat)) (existing : list name)
           (sp : span) : list name + diag :=
  export_loop existing (children_order k pi call children) sp [].

(* ------------------------------------------------------------------ ConfigValidator::extract *)
(* req.iter().sorted().join(", ")  over the HashSet of still-missing required keys *)
Definition missing_required (pi : oracle) (req : list name) : diag :=
  MissingRequired (sort name_leb (pi _ [6%nat] req)).

(* ------------------------------------------------------------------ the build command, stage by stage *)
Record site_config := mkSites {
  sc_to_import : coll_kind;        (* parser/ast.rs ParserInstance::to_import *)
  sc_undef_key : undef_key;        (* codegen(): sort key of the undefined-symbol report *)
  sc_vice_sorted : bool;           (* io/vice.rs: `.sorted()` *)
  sc_listing : iter_kind;          (* build.rs: listing loop *)
  sc_import_all : iter_kind        (* codegen Token::Import All: children loop *)
}.

(* everything `mos build` lets the user see *)
Inductive build_output :=
  | BuildFailed (diagnostics : list diag)                       (* stdout, in emitter order; no file is written *)
  | BuildOk (binary : list N) (vice : name) (listings : fs)
  | BuildOutOfFuel.

(* what the (deterministic) code generator hands to the output stage for a given parse tree *)
Record codegen_result := mkCg {
  cg_errors : list diag;                       (* errors other than undefined symbols, already in order *)
  cg_undefined : list undefined_symbol;        (* contents of ctx.undefined when the loop gives up *)
  cg_binary : list N;
  cg_symbols : sym_node;
  cg_listing : list (path * name)
}.

(* `codegen` stands for the whole multi-pass code generator.  It gets the one hash iteration it performs on the build
   path -- the children of an import scope in `import *` -- as a callback, and is otherwise an arbitrary function. *)
Definition children_iter := nat -> list (name * nat) -> list (name * nat).

Definition build (sc : site_config) (stem : path -> name) (codegen : children_iter -> parse_state -> codegen_result)
           (pi : oracle) (p : project) (main : path) : build_output :=
  match parse (sc_to_import sc) pi p main with
  | ParseOutOfFuel => BuildOutOfFuel
  | Parsed st =>
      match ps_errors st with
      | _ :: _ => BuildFailed (emit_diagnostics (fun d => d) (ps_errors st))
      | [] =>
          let cg := codegen (children_order (sc_import_all sc) pi) st in
          match cg_errors cg, cg_undefined cg with
          | _ :: _, _ => BuildFailed (emit_diagnostics (fun d => d) (cg_errors cg))
          | [], _ :: _ => BuildFailed (emit_diagnostics (fun d => d) (report_undefined (sc_undef_key sc) pi (cg_undefined cg)))
          | [], [] =>
              BuildOk (cg_binary cg)
                      (to_vice_symbols (sc_vice_sorted sc) pi (cg_symbols cg))
                      (write_listings (sc_listing sc) stem pi (cg_listing cg))
          end
      end
  end.

(* Code model: the unit-test runner, mos/src/test_runner/mod.rs (TestRunner::new, execute_instruction, run,
   registers, step_over, step_out, format_trace, format_cpu_details), mos/src/memory_accessor.rs (ram, ram16),
   SymbolTable::{try_index, query} + ensure_cpu_symbols (symbols.rs) on a snapshot given as the list of all
   data-carrying nodes, and mos/src/commands/test.rs (test_command) + the exit status of main.rs.
   The CPU is spec/Cpu6502.v (the emulator crate is an external oracle, tied by the correspondence check).
   Tabular parts come from Gen/CpuSyms.v.  No proofs here.

   Interface for other models (debugger): runner, execute_result, execute_instruction, run, step_over, step_out. *)
From Coq Require Import List NArith ZArith Bool.
Import ListNotations.
From Mos Require Import model.I64 Gen.BinOps model.Expr spec.Cpu6502 Gen.CpuSyms.
Open Scope Z_scope.

(* ---------- symbol snapshots ---------- *)
Definition path := list text.
(* SymbolTable::all(): every node that carries data, with its full path from the root *)
Definition symtab := list (path * symdata).
Record snapshot := mkSnap { s_pc : Z; s_scope : path; s_syms : symtab }.
(* e.snapshot.pc.as_u16() *)
Definition s_pc16 (s : snapshot) : Z := s_pc s mod 65536.

Fixpoint path_eqb (a b : path) : bool :=
  match a, b with
  | [], [] => true
  | x :: a', y :: b' => text_eqb x y && path_eqb a' b'
  | _, _ => false
  end.
Fixpoint is_prefix (p q : path) : bool :=
  match p, q with
  | [], _ => true
  | x :: p', y :: q' => text_eqb x y && is_prefix p' q'
  | _ :: _, [] => false
  end.
(* a node exists when it is the root or lies on the path to some data-carrying node *)
Definition node_exists (t : symtab) (p : path) : bool :=
  match p with [] => true | _ => existsb (fun e => is_prefix p (fst e)) t end.
Definition node_data (t : symtab) (p : path) : option symdata :=
  match find (fun e => path_eqb p (fst e)) t with Some e => Some (snd e) | None => None end.

Definition t_super : text := [115; 117; 112; 101; 114]%N.
Definition contains_super (p : path) : bool := existsb (fun id => text_eqb id t_super) p.

(* SymbolTable::try_index: `super` goes to the parent, anything else to the child of that name *)
Fixpoint try_index (t : symtab) (cur : path) (p : path) : option path :=
  match p with
  | [] => Some cur
  | id :: rest =>
      if text_eqb id t_super then
        match cur with [] => None | _ => try_index t (removelast cur) rest end
      else
        let c := cur ++ [id] in
        if node_exists t c then try_index t c rest else None
  end.

(* the scopes visited when bubbling up: the scope itself, its parent, ..., the root *)
Fixpoint scopes_up_rev (rscope : path) : list path :=
  match rscope with
  | [] => [[]]
  | _ :: r => rev rscope :: scopes_up_rev r
  end.
Definition scopes_up (scope : path) : list path := scopes_up_rev (rev scope).

Fixpoint first_index (t : symtab) (scopes : list path) (p : path) : option path :=
  match scopes with
  | [] => None
  | s :: r => match try_index t s p with Some n => Some n | None => first_index t r p end
  end.

(* SymbolTable::query (query_traversal_steps): no bubbling when the path mentions `super` *)
Definition query (t : symtab) (scope : path) (p : path) : option path :=
  if contains_super p then try_index t scope p else first_index t (scopes_up scope) p.

(* Evaluator::get_symbol: query, then try_get (a node without data yields nothing; no further bubbling) *)
Definition get_symbol (t : symtab) (scope : path) (p : path) : option symdata :=
  match query t scope p with Some n => node_data t n | None => None end.

(* ---------- registers and flags as symbols: TestRunner::registers + ensure_cpu_symbols ---------- *)
Definition reg_value (c : cpu) (r : creg) : Z :=
  match r with RegSP => rSP c | RegA => rA c | RegX => rX c | RegY => rY c end.
Definition cpu_entries (c : cpu) : symtab :=
  map (fun e => ([cpu_scope_name; fst e], DNum (reg_value c (snd e)))) cpu_reg_syms ++
  map (fun e => ([cpu_scope_name; flags_scope_name; fst e], DNum (Z.land (status_byte (rP c)) (snd e)))) cpu_flag_syms.
(* update_data / insert under the root: the CPU entries take precedence over same-named data *)
Definition ensure_cpu_symbols (t : symtab) (c : cpu) : symtab := cpu_entries c ++ t.

(* the evaluator of a snapshot whose table got the entries `extra` under the root *)
Definition env_with (extra : symtab) (s : snapshot) : env :=
  let t := extra ++ s_syms s in
  mkEnv (fun p => get_symbol t (s_scope s) p) (Some (s_pc s)).
Definition env_of (c : cpu) (s : snapshot) : env := env_with (cpu_entries c) s.

(* ---------- the evaluator with the ram()/ram16() callbacks registered ---------- *)
(* TestRunnerMemoryAccessor::read(address, len): the bytes that exist in [address, address + len) -- a read that
   would run past the end of the `ram_size`-byte array is cut short *)
Fixpoint read_cells (m : ram) (a : Z) (n : nat) : list Z :=
  match n with
  | O => []
  | S k => ram_read m a :: read_cells m (a + 1) k
  end.
Definition accessor_read (m : ram) (address len : Z) : list Z :=
  let stop := Z.min (address + len) ram_size in
  read_cells m address (Z.to_nat (stop - address)).

(* RamFn::apply after the argument was evaluated: `read(a as u16, len)` with len 2 for ram16 and 1 for ram;
   ram takes bytes.first(), ram16 needs bytes.first() and bytes.get(1) (no value when the word leaves the memory) *)
Definition ram_fn (m : ram) (word : bool) (arg : eres) : eres :=
  match arg with
  | EVal (Some (SNum a)) =>
      let a16 := a mod ram_address_space in
      let bytes := accessor_read m a16 (if word then ram_word_len else ram_byte_len) in
      if word then
        match bytes with
        | lo :: hi :: _ => EVal (Some (SNum (ram16_combine lo hi)))
        | _ => EVal None
        end
      else
        match bytes with
        | b :: _ => EVal (Some (SNum b))
        | [] => EVal None
        end
  | EVal _ => EVal None
  | EErr x => EErr x
  | EPanic => EPanic
  end.

(* generic in the callback behind ram()/ram16() *)
Fixpoint eval_g (rf : ram -> bool -> eres -> eres) (m : ram) (en : env) (e : expr) : eres :=
  match e with
  | EBin op l r =>
      match eval_g rf m en l with
      | EErr x => EErr x
      | EPanic => EPanic
      | EVal lv =>
          match eval_g rf m en r with
          | EErr x => EErr x
          | EPanic => EPanic
          | EVal rv =>
              match lv, rv with
              | Some (SNum a), Some (SNum b) =>
                  match apply_i64 op a b with Val z => EVal (Some (SNum z)) | Panic => EPanic | Ovf => EErr (ErrOverflow op) end
              | Some (SStr a), Some (SStr b) =>
                  match try_apply_str op a b with Some v => EVal (Some v) | None => EErr (ErrStrOp op) end
              | Some (SNum _), Some (SStr _) | Some (SStr _), Some (SNum _) => EErr (ErrMixedOp op)
              | _, _ => EVal None
              end
          end
      end
  | EParens inner fnot fneg => with_flags fnot fneg (eval_g rf m en inner)
  | ECall name args fnot fneg =>
      with_flags fnot fneg
        (if text_eqb name fn_ram || text_eqb name fn_ram16 then
           match args with
           | [a] => rf m (text_eqb name fn_ram16) (eval_g rf m en a)
           | _ => EErr ErrArgCount
           end
         else if text_eqb name t_defined then
           match args with
           | [a] => match eval_g rf m en a with
                    | EVal (Some _) => EVal (Some (SNum 1))
                    | EVal None => EVal (Some (SNum 0))
                    | EErr _ => EVal (Some (SNum 0))
                    | EPanic => EPanic
                    end
           | _ => EErr ErrArgCount
           end
         else EErr (ErrUnknownFunction name))
  | ENum _ _ _ _ | EId _ _ _ _ | EPc _ _ | EStr _ _ _ => eval en e
  end.
Definition eval_t : ram -> env -> expr -> eres := eval_g ram_fn.

(* ---------- test elements ---------- *)
(* line/column of the assertion's expression as the diagnostic prints it *)
Record loc := mkLoc { l_line : Z; l_col : Z }.
Record assertion := mkAssertion {
  a_expr : expr;
  a_text : text;                     (* Display of the expression (source text incl. trivia) *)
  a_snap : snapshot;
  a_msg : option text;               (* failure_message, already interpolated at assembly time *)
  a_loc : loc
}.
Record trace := mkTrace { t_exprs : list (expr * text); t_snap : snapshot }.
Inductive test_element := Assertion (a : assertion) | Trace (t : trace).

Definition element_pc16 (e : test_element) : Z :=
  match e with Assertion a => s_pc16 (a_snap a) | Trace t => s_pc16 (t_snap t) end.

(* ---------- formatting ---------- *)
Definition hex_digit (d : Z) : N := Z.to_N (if d <? 10 then 48 + d else 55 + d).
Fixpoint hex_fixed (n : nat) (v : Z) : text :=
  match n with
  | O => []
  | S k => hex_fixed k (v / 16) ++ [hex_digit (v mod 16)]
  end.
(* format!("{:0wX}", v) for an i64: at least w digits, two's complement for negative values *)
Fixpoint hex_min_aux (fuel : nat) (v : Z) : text :=
  match fuel with
  | O => []
  | S k => if v <? 16 then [hex_digit v] else hex_min_aux k (v / 16) ++ [hex_digit (v mod 16)]
  end.
Definition hex_min (w : nat) (v : Z) : text :=
  let u := if v <? 0 then v + two64 else v in
  let d := hex_min_aux 16 u in
  repeat 48%N (w - List.length d) ++ d.

Definition t_dollar : text := [36]%N.
Definition t_unknown : text := [60; 117; 110; 107; 110; 111; 119; 110; 62]%N.
Definition t_comma : text := [44; 32]%N.
Definition t_eq : text := [32; 61; 32]%N.

Fixpoint join (sep : text) (l : list text) : text :=
  match l with
  | [] => []
  | [x] => x
  | x :: r => x ++ sep ++ join sep r
  end.

(* format_cpu_details(cpu, false) *)
Definition flag_chars (p : Z) : text :=
  let f (ch : N) (mask : Z) : N := if Z.land p mask =? 0 then 45%N else ch in
  [f 78%N 128; f 86%N 64; 45%N; f 66%N 16; f 68%N 8; f 73%N 4; f 90%N 2; f 67%N 1].
Definition format_cpu_details (c : cpu) : text :=
  [42; 32; 61; 32]%N ++ t_dollar ++ hex_fixed 4 (rPC c) ++
  [44; 32; 83; 80; 32; 61; 32]%N ++ t_dollar ++ hex_fixed 2 (rSP c) ++
  [44; 32; 102; 108; 97; 103; 115; 32; 61; 32]%N ++ flag_chars (status_byte (rP c)) ++
  [44; 32; 65; 32; 61; 32]%N ++ t_dollar ++ hex_fixed 2 (rA c) ++
  [44; 32; 88; 32; 61; 32]%N ++ t_dollar ++ hex_fixed 2 (rX c) ++
  [44; 32; 89; 32; 61; 32]%N ++ t_dollar ++ hex_fixed 2 (rY c).

(* format_trace: None when an expression panics *)
Definition format_value (r : eres) : option text :=
  match r with
  | EVal (Some (SNum v)) => Some (t_dollar ++ (if v <? 256 then hex_min 2 v else hex_min 4 v))
  | EVal (Some (SStr s)) => Some s
  | EVal None | EErr _ => Some t_unknown
  | EPanic => None
  end.
Fixpoint format_items (c : cpu) (s : snapshot) (l : list (expr * text)) : option (list text) :=
  match l with
  | [] => Some []
  | (e, txt) :: r =>
      match format_value (eval_t (rM c) (env_of c s) e) with
      | Some v => match format_items c s r with Some rest => Some ((txt ++ t_eq ++ v) :: rest) | None => None end
      | None => None
      end
  end.
Definition format_trace (c : cpu) (t : trace) : option text :=
  match t_exprs t with
  | [] => Some (format_cpu_details c)
  | l => option_map (join t_comma) (format_items c (t_snap t) l)
  end.

(* str::trim for the ASCII white space that can occur in an expression's text *)
Definition is_ws (ch : N) : bool := (ch =? 32)%N || (ch =? 9)%N || (ch =? 10)%N || (ch =? 13)%N.
Fixpoint trim_start (s : text) : text :=
  match s with ch :: r => if is_ws ch then trim_start r else s | [] => [] end.
Definition trim (s : text) : text := rev (trim_start (rev (trim_start s))).
Definition t_assertion_failed : text :=
  [97; 115; 115; 101; 114; 116; 105; 111; 110; 32; 102; 97; 105; 108; 101; 100; 58; 32]%N.
Definition failure_message (a : assertion) : text :=
  match a_msg a with Some m => m | None => t_assertion_failed ++ trim (a_text a) end.

(* ---------- the runner ---------- *)
Record runner := mkRunner {
  test_elements : list test_element;
  r_cpu : cpu;
  call_depth : Z;                    (* how many subroutine calls are open (jsr executed, its rts not yet) *)
  formatted_traces : list text
}.

(* the bookkeeping at the end of execute_instruction: `+= 1` on jsr, `saturating_sub(1)` on rts *)
Definition count_call (opcode depth : Z) : Z :=
  if opcode =? jsr_opcode then depth + 1
  else if opcode =? rts_opcode then Z.max 0 (depth - 1)
  else depth.

Record test_failure := mkFailure {
  f_message : text;
  f_loc : loc;
  f_cpu : cpu;
  f_traces : list text
}.

Inductive execute_result :=
  | Running (r : runner)
  | TestFailed (f : test_failure)
  | TestSuccess (r : runner)
  | ExecPanic                       (* an expression of a fired element panics (i64 overflow, ram16($ffff)) *)
  | OutOfSubset.                    (* the instruction at pc is outside spec/Cpu6502.v *)

Inductive check := CkPass | CkFail | CkPanic.
(* `eval_result == Some(Number(0)) || eval_result.is_none()` after `.ok().flatten()` *)
Definition check_assertion (c : cpu) (a : assertion) : check :=
  match eval_t (rM c) (env_of c (a_snap a)) (a_expr a) with
  | EVal (Some (SNum z)) => if z =? assertion_fail_value then CkFail else CkPass
  | EVal (Some (SStr _)) => CkPass
  | EVal None => CkFail
  | EErr _ => CkFail
  | EPanic => CkPanic
  end.

(* first loop: every trace whose pc matches, in list order *)
Fixpoint fire_traces (c : cpu) (pc : Z) (els : list test_element) : option (list text) :=
  match els with
  | [] => Some []
  | Trace t :: r =>
      if s_pc16 (t_snap t) =? pc then
        match format_trace c t with
        | Some f => option_map (cons f) (fire_traces c pc r)
        | None => None
        end
      else fire_traces c pc r
  | Assertion _ :: r => fire_traces c pc r
  end.

Inductive fired := FNone | FFail (a : assertion) | FPanic.
(* second loop: every assertion whose pc matches, in list order, until one fails *)
Fixpoint fire_assertions (c : cpu) (pc : Z) (els : list test_element) : fired :=
  match els with
  | [] => FNone
  | Assertion a :: r =>
      if s_pc16 (a_snap a) =? pc then
        match check_assertion c a with
        | CkPass => fire_assertions c pc r
        | CkFail => FFail a
        | CkPanic => FPanic
        end
      else fire_assertions c pc r
  | Trace _ :: r => fire_assertions c pc r
  end.

Definition execute_instruction (r : runner) : execute_result :=
  let c := r_cpu r in
  let pc := rPC c in
  match fire_traces c pc (test_elements r) with
  | None => ExecPanic
  | Some new_traces =>
      let traces := formatted_traces r ++ new_traces in
      match fire_assertions c pc (test_elements r) with
      | FPanic => ExecPanic
      | FFail a => TestFailed (mkFailure (failure_message a) (a_loc a) c traces)
      | FNone =>
          let r1 := mkRunner (test_elements r) c (call_depth r) traces in
          if rd (rM c) pc =? end_of_test_opcode then TestSuccess r1
          else
            let opcode := rd (rM c) pc in
            match exec c with
            | Some c' => Running (mkRunner (test_elements r) c' (count_call opcode (call_depth r)) traces)
            | None => OutOfSubset
            end
      end
  end.

Inductive verdict :=
  | Passed
  | Failed (f : test_failure)
  | VPanic
  | VOutOfSubset
  | VOutOfFuel.

(* TestRunner::run; the loop has no bound in the code: fuel counts instructions *)
Fixpoint run (fuel : nat) (r : runner) : verdict :=
  match fuel with
  | O => VOutOfFuel
  | S f =>
      match execute_instruction r with
      | Running r' => run f r'
      | TestFailed fl => Failed fl
      | TestSuccess _ => Passed
      | ExecPanic => VPanic
      | OutOfSubset => VOutOfSubset
      end
  end.

(* ---------- TestRunner::new ---------- *)
(* a bank after BinaryWriter::merge_segments: name, start address, bytes *)
Record bank := mkBank { b_name : text; b_start : Z; b_data : list N }.
Record test_case := mkTest {
  tc_name : text;
  tc_bank : text;                    (* bank of the segment that contains the test *)
  tc_pc : Z;                         (* value of the TestCase symbol: pc of the first instruction *)
  tc_elements : list test_element    (* ctx.remove_test_elements() of the build with this test active *)
}.
Definition find_bank (banks : list bank) (name : text) : option bank :=
  find (fun b => text_eqb (b_name b) name) banks.
(* None: `.unwrap()` on a missing bank (cannot happen after a successful merge_segments) *)
Definition new_runner (banks : list bank) (t : test_case) : option runner :=
  match find_bank banks (tc_bank t) with
  | Some b => Some (mkRunner (tc_elements t) (cpu_init (tc_pc t mod 65536) (load_program (b_start b) (b_data b))) 0 [])
  | None => None
  end.

Definition run_test (fuel : nat) (banks : list bank) (t : test_case) : verdict :=
  match new_runner banks t with Some r => run fuel r | None => VPanic end.

(* ---------- step_over / step_out (used by the debug adapter) ---------- *)
Definition result_cpu (before : runner) (x : execute_result) : cpu :=
  match x with Running r | TestSuccess r => r_cpu r | TestFailed f => f_cpu f | _ => r_cpu before end.

(* TestRunner::run_until_return: runs until the subroutine we are in returns; the calls made on the way are counted, so
   the rts that ends the run is its own.  None = out of fuel (the Rust loop has no bound). *)
Fixpoint run_until_return (fuel : nat) (nested_calls : Z) (r : runner) : option execute_result :=
  match fuel with
  | O => None
  | S f =>
      let opcode := rd (rM (r_cpu r)) (rPC (r_cpu r)) in
      match execute_instruction r with
      | Running r' =>
          if opcode =? jsr_opcode then run_until_return f (nested_calls + 1) r'
          else if opcode =? rts_opcode then
            if nested_calls =? 0 then Some (Running r') else run_until_return f (nested_calls - 1) r'
          else run_until_return f nested_calls r'
      | x => Some x
      end
  end.

(* on a jsr: enter the subroutine, then run until it returns; anything else: one instruction *)
Definition step_over (fuel : nat) (r : runner) : option execute_result :=
  let c := r_cpu r in
  if rd (rM c) (rPC c) =? jsr_opcode then
    match execute_instruction r with
    | Running r' => run_until_return fuel 0 r'
    | x => Some x
    end
  else Some (execute_instruction r).

(* outside any subroutine there is nothing to step out to *)
Definition step_out (fuel : nat) (r : runner) : option execute_result :=
  if call_depth r =? 0 then Some (Running r) else run_until_return fuel 0 r.

(* ---------- commands/test.rs::test_command and the process exit status ---------- *)
Record report := mkReport {
  rp_lines : list (text * bool);                 (* per test, in order: name, ok? *)
  rp_failed : list (text * test_failure);        (* the `failed tests:` section *)
  rp_num_passed : Z;
  rp_num_failed : Z;
  rp_exit_code : Z                               (* Ok(1) / Ok(0) *)
}.

Fixpoint collect (results : list (text * verdict)) : list (text * bool) * list (text * test_failure) * Z :=
  match results with
  | [] => ([], [], 0)
  | (name, v) :: r =>
      let '(ls, fs, np) := collect r in
      match v with
      | Failed f => ((name, false) :: ls, (name, f) :: fs, np)
      | _ => ((name, true) :: ls, fs, np + 1)
      end
  end.

(* only called with verdicts Passed / Failed: anything else aborts the command before a report exists *)
Definition test_command (results : list (text * verdict)) : report :=
  let '(ls, fs, np) := collect results in
  mkReport ls fs np (Z.of_nat (List.length fs))
           (match fs with [] => exit_code_ok | _ => exit_code_failed end).

(* main.rs: `if exit_code > 0 { std::process::exit(exit_code) } else { Ok(()) }` *)
Definition process_exit_status (rp : report) : Z :=
  if exit_code_threshold <? rp_exit_code rp then rp_exit_code rp else 0.

Definition is_final (v : verdict) : bool := match v with Passed | Failed _ => true | _ => false end.

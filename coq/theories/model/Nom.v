(* Code model: the nom 7.1 combinators used by mos-core/src/parser (complete versions, &str input wrapped
   in nom_locate::LocatedSpan), plus the parser-state plumbing of parser/ast.rs (State) and the wrappers
   `expect`, `located`, `located_with_trivia` of parser/mod.rs that are independent of the trivia grammar.

   * input = absolute BYTE offset + remaining text (Unicode scalar values); positions are never computed
     from the remaining length.
   * the state (diagnostics, ignore_next_error, anonymous scope counter) is threaded through every parser
     and is NOT rolled back when an alternative fails (Rust: shared `Arc<Mutex<State>>`).
   * results: Ok / Err (nom::Err::Error) / Abort Panic (a Rust panic) / Abort OutOfFuel (model artefact). *)
From Coq Require Import List NArith Bool Arith.
Import ListNotations.
From Mos Require Import model.Utf.
Open Scope N_scope.

Definition text := list N.

Fixpoint blen (s : text) : N :=
  match s with [] => 0 | c :: r => N.of_nat (width_utf8 c) + blen r end.

Record input := mkIn { off : N; rem : text }.

(* ---- diagnostics and parser state (ast.rs: State) ---- *)
Inductive dmsg := MEmpty | MUnterminated | MClosing | MExpression | MConfig | MNesting.
Inductive dkind := KExpect (m : dmsg) | KUnexpected (t : text).
Record diag := mkDiag { d_kind : dkind; d_lo : N; d_hi : N }.

Record pstate := mkSt { errors : list diag (* newest first *); ignore_next : bool; anon_idx : nat; nesting : nat }.
Definition st0 : pstate := mkSt [] false O O.

(* State::report_error *)
Definition report_error (d : diag) (st : pstate) : pstate :=
  if ignore_next st then mkSt (errors st) false (anon_idx st) (nesting st)
  else mkSt (d :: errors st) false (anon_idx st) (nesting st).
(* State::ignore_next_error *)
Definition set_ignore_next (st : pstate) : pstate := mkSt (errors st) true (anon_idx st) (nesting st).
(* State::new_anonymous_scope: returns the new index *)
Definition new_anonymous_scope (st : pstate) : pstate * nat :=
  (mkSt (errors st) (ignore_next st) (S (anon_idx st)) (nesting st), S (anon_idx st)).
(* State::enter_nesting / leave_nesting *)
Definition enter_nesting (st : pstate) : pstate := mkSt (errors st) (ignore_next st) (anon_idx st) (S (nesting st)).
Definition leave_nesting (st : pstate) : pstate := mkSt (errors st) (ignore_next st) (anon_idx st) (pred (nesting st)).

Inductive abort := Panic | OutOfFuel.
Inductive result (A : Type) := Ok (v : A) (r : input) | Err | Abort (a : abort).
Arguments Ok {A}. Arguments Err {A}. Arguments Abort {A}.
Definition parser (A : Type) := pstate -> input -> pstate * result A.

(* ---- character classes (nom: AsChar for char, ASCII only) ---- *)
Definition is_space (c : N) : bool := (c =? 32) || (c =? 9).
Definition is_digit (c : N) : bool := (48 <=? c) && (c <=? 57).
Definition is_alpha (c : N) : bool := ((65 <=? c) && (c <=? 90)) || ((97 <=? c) && (c <=? 122)).
Definition is_alnum (c : N) : bool := is_alpha c || is_digit c.
Definition is_hex (c : N) : bool := is_digit c || ((65 <=? c) && (c <=? 70)) || ((97 <=? c) && (c <=? 102)).
Definition mem (c : N) (cs : text) : bool := existsb (N.eqb c) cs.
Definition ascii_lower (c : N) : N := if (65 <=? c) && (c <=? 90) then c + 32 else c.
Definition ascii_upper (c : N) : N := if (97 <=? c) && (c <=? 122) then c - 32 else c.
(* str::eq_ignore_ascii_case on equally long byte strings, the second one ASCII: character-wise *)
Fixpoint ci_eqb (a b : text) : bool :=
  match a, b with
  | [], [] => true
  | x :: a', y :: b' => (ascii_lower x =? ascii_lower y) && ci_eqb a' b'
  | _, _ => false
  end.

(* ---- splitting ---- *)
Fixpoint take_while (f : N -> bool) (s : text) : text * text :=
  match s with
  | c :: r => if f c then let '(a, b) := take_while f r in (c :: a, b) else ([], s)
  | [] => ([], [])
  end.
Definition consume (a b : text) (i : input) : input := mkIn (off i + blen a) b.

(* n BYTES from the front: exact char boundary, too short, or inside a character (str::split_at panics) *)
Inductive bsplit := BExact (a b : text) | BShort | BInside.
Fixpoint take_bytes (s : text) (n : nat) : bsplit :=
  match n with
  | O => BExact [] s
  | _ => match s with
         | [] => BShort
         | c :: r => let w := width_utf8 c in
                     if (w <=? n)%nat then
                       match take_bytes r (n - w) with
                       | BExact a b => BExact (c :: a) b
                       | x => x
                       end
                     else BInside
         end
  end.

(* ---- terminals ---- *)
Definition take_while0_p (f : N -> bool) : parser text := fun st i =>
  let '(a, b) := take_while f (rem i) in (st, Ok a (consume a b i)).
Definition take_while1_p (f : N -> bool) : parser text := fun st i =>
  let '(a, b) := take_while f (rem i) in
  match a with [] => (st, Err) | _ => (st, Ok a (consume a b i)) end.

Definition space1 : parser text := take_while1_p is_space.
Definition alpha1 : parser text := take_while1_p is_alpha.
Definition alphanumeric1 : parser text := take_while1_p is_alnum.
Definition hex_digit1 : parser text := take_while1_p is_hex.
Definition is_a (cs : text) : parser text := take_while1_p (fun c => mem c cs).
Definition is_not (cs : text) : parser text := take_while1_p (fun c => negb (mem c cs)).
Definition take_till (f : N -> bool) : parser text := take_while0_p (fun c => negb (f c)).
Definition take_till1 (f : N -> bool) : parser text := take_while1_p (fun c => negb (f c)).
Definition rest : parser text := fun st i => (st, Ok (rem i) (consume (rem i) [] i)).

Definition satisfy (f : N -> bool) : parser N := fun st i =>
  match rem i with
  | c :: r => if f c then (st, Ok c (consume [c] r i)) else (st, Err)
  | [] => (st, Err)
  end.
Definition char_p (c : N) : parser N := satisfy (N.eqb c).
Definition one_of (cs : text) : parser N := satisfy (fun c => mem c cs).
Definition none_of (cs : text) : parser N := satisfy (fun c => negb (mem c cs)).

(* take(n): n characters *)
Definition take (n : nat) : parser text := fun st i =>
  if (n <=? length (firstn n (rem i)))%nat
  then (st, Ok (firstn n (rem i)) (consume (firstn n (rem i)) (skipn n (rem i)) i))
  else (st, Err).

(* tag: exact comparison (tags are ASCII) *)
Fixpoint is_prefix (t s : text) : bool :=
  match t, s with
  | [], _ => true
  | x :: t', c :: s' => (c =? x) && is_prefix t' s'
  | _ :: _, [] => false
  end.
Definition tag (t : text) : parser text := fun st i =>
  if is_prefix t (rem i)
  then (st, Ok (firstn (length t) (rem i)) (consume (firstn (length t) (rem i)) (skipn (length t) (rem i)) i))
  else (st, Err).

(* tag_no_case (parser/mod.rs, local; ASCII tags): `input.fragment().get(..tag.len())` -- None when the input is
   shorter than the tag or tag.len() BYTES is not a character boundary -- compared with eq_ignore_ascii_case,
   then split at tag.len().  Never panics.  A tag that starts with a letter (it could itself be an identifier) does
   not match when an identifier character follows it (word boundary). *)
Definition is_ident_char (c : N) : bool := is_alnum c || (c =? 95).
Definition word_tag (t : text) : bool := match t with c :: _ => is_alpha c | [] => false end.
Definition starts_ident (s : text) : bool := match s with c :: _ => is_ident_char c | [] => false end.
Definition tag_no_case (t : text) : parser text := fun st i =>
  match take_bytes (rem i) (length t) with
  | BExact a b => if ci_eqb a t && negb (word_tag t && starts_ident b) then (st, Ok a (consume a b i)) else (st, Err)
  | _ => (st, Err)
  end.

(* ---- combinators ---- *)
Definition value_p {A} (v : A) : parser A := fun st i => (st, Ok v i).

Definition map_p {A B} (f : A -> B) (p : parser A) : parser B := fun st i =>
  match p st i with
  | (st1, Ok a r) => (st1, Ok (f a) r)
  | (st1, Err) => (st1, Err)
  | (st1, Abort a) => (st1, Abort a)
  end.

Definition pair_p {A B} (p : parser A) (q : parser B) : parser (A * B) := fun st i =>
  match p st i with
  | (st1, Ok a r) =>
      match q st1 r with
      | (st2, Ok b r') => (st2, Ok (a, b) r')
      | (st2, Err) => (st2, Err)
      | (st2, Abort x) => (st2, Abort x)
      end
  | (st1, Err) => (st1, Err)
  | (st1, Abort x) => (st1, Abort x)
  end.

(* alt: the state reached by the failed alternative is kept *)
Definition alt {A} (p q : parser A) : parser A := fun st i =>
  match p st i with
  | (st1, Err) => q st1 i
  | x => x
  end.
Fixpoint alts {A} (ps : list (parser A)) : parser A :=
  match ps with
  | [] => fun st _ => (st, Err)
  | p :: r => alt p (alts r)
  end.

Definition opt {A} (p : parser A) : parser (option A) := fun st i =>
  match p st i with
  | (st1, Ok a r) => (st1, Ok (Some a) r)
  | (st1, Err) => (st1, Ok None i)
  | (st1, Abort x) => (st1, Abort x)
  end.

(* not: succeeds (consuming nothing) iff the parser fails *)
Definition not_p {A} (p : parser A) : parser unit := fun st i =>
  match p st i with
  | (st1, Ok _ _) => (st1, Err)
  | (st1, Err) => (st1, Ok tt i)
  | (st1, Abort x) => (st1, Abort x)
  end.

(* peek: the value, without consuming *)
Definition peek {A} (p : parser A) : parser A := fun st i =>
  match p st i with
  | (st1, Ok v _) => (st1, Ok v i)
  | x => x
  end.

(* recognize: the consumed text *)
Definition recognize {A} (p : parser A) : parser text := fun st i =>
  match p st i with
  | (st1, Ok _ r) => (st1, Ok (firstn (length (rem i) - length (rem r)) (rem i)) r)
  | (st1, Err) => (st1, Err)
  | (st1, Abort x) => (st1, Abort x)
  end.

(* many0: stops at the first Err; an iteration that succeeds without consuming is an Err of many0 itself *)
Fixpoint many0_aux {A} (fuel : nat) (p : parser A) : parser (list A) := fun st i =>
  match fuel with
  | O => (st, Abort OutOfFuel)
  | S f =>
      match p st i with
      | (st1, Err) => (st1, Ok [] i)
      | (st1, Abort x) => (st1, Abort x)
      | (st1, Ok a r) =>
          if (length (rem r) =? length (rem i))%nat then (st1, Err)
          else match many0_aux f p st1 r with
               | (st2, Ok l r') => (st2, Ok (a :: l) r')
               | (st2, Err) => (st2, Err)
               | (st2, Abort x) => (st2, Abort x)
               end
      end
  end.
Definition many0 {A} (p : parser A) : parser (list A) := fun st i => many0_aux (S (length (rem i))) p st i.

(* many1: the first element is mandatory and not subject to the progress check, then like many0 *)
Definition many1 {A} (p : parser A) : parser (list A) :=
  map_p (fun x => fst x :: snd x) (pair_p p (many0 p)).

(* separated_list1(sep, f): f (sep f)*; a trailing separator is not consumed *)
Definition separated_list1 {A B} (sep : parser B) (f : parser A) : parser (list A) :=
  map_p (fun x => fst x :: map snd (snd x)) (pair_p f (many0 (pair_p sep f))).

(* ---- parser/mod.rs: expect ---- *)
Definition expect {A} (p : parser A) (m : dmsg) : parser (option A) := fun st i =>
  match p st i with
  | (st1, Ok a r) => (st1, Ok (Some a) r)
  | (st1, Err) =>
      match m with
      | MEmpty => (st1, Ok None i)
      | _ => (report_error (mkDiag (KExpect m) (off i) (off i)) st1, Ok None i)
      end
  | (st1, Abort x) => (st1, Abort x)
  end.

(* ---- parser/mod.rs: nested (max_depth = MAX_NESTING_DEPTH of ast.rs): beyond the limit the parser is not run, a
   diagnostic with an empty span is reported and the result is nom's Error; the level is left again in every case ---- *)
Definition nested {A} (max_depth : nat) (p : parser A) : parser A := fun st i =>
  let st1 := enter_nesting st in
  if (nesting st1 <=? max_depth)%nat then
    match p st1 i with (st2, r) => (leave_nesting st2, r) end
  else (leave_nesting (report_error (mkDiag (KExpect MNesting) (off i) (off i)) st1), Err).

(* ---- Located ---- *)
Inductive trivia :=
| TWhitespace (s : text)
| TNewLine (crlf : bool)                (* ghost: Rust's Trivia::NewLine forgets whether it was CRLF *)
| TCStyle (s : text) (terminated : bool) (* terminated = false: Rust stores "" (the text up to EOF is dropped) *)
| TCppStyle (s : text).
Record ltrivia := mkTriv { tv_lo : N; tv_hi : N; tv_items : list trivia }.
Record located (A : Type) := mkLoc { lo : N; hi : N; data : A; triv : option ltrivia }.
Arguments mkLoc {A}. Arguments lo {A}. Arguments hi {A}. Arguments data {A}. Arguments triv {A}.

Definition loc_map {A B} (f : A -> B) (l : located A) : located B := mkLoc (lo l) (hi l) (f (data l)) (triv l).

(* located(inner) *)
Definition located_p {A} (p : parser A) : parser (located A) := fun st i =>
  match p st i with
  | (st1, Ok a r) => (st1, Ok (mkLoc (off i) (off r) a None) r)
  | (st1, Err) => (st1, Err)
  | (st1, Abort x) => (st1, Abort x)
  end.

(* `opt(<trivia parser>)` followed by located_with_trivia(inner) *)
Definition with_trivia {A} (tp : parser ltrivia) (p : parser A) : parser (located A) := fun st i =>
  match opt tp st i with
  | (st1, Ok t r) =>
      match p st1 r with
      | (st2, Ok a r') => (st2, Ok (mkLoc (off r) (off r') a t) r')
      | (st2, Err) => (st2, Err)
      | (st2, Abort x) => (st2, Abort x)
      end
  | (st1, Err) => (st1, Err)
  | (st1, Abort x) => (st1, Abort x)
  end.

(* Code model: codegen/text_encoding.rs encode_text and cbm/petscii.rs Petscii::from_str.
   The PETSCII table and the petscreen arms come from Gen/TextEnc.v (translated from the Rust source on every run). *)
From Coq Require Import List NArith Bool.
Import ListNotations.
From Mos Require Import Gen.TextEnc.
Open Scope N_scope.

(* first index p with PETSCII_TO_CHAR_MAP[p] == c *)
Fixpoint find_index (c : N) (l : list N) (i : N) : option N :=
  match l with
  | [] => None
  | x :: r => if x =? c then Some i else find_index c r (i + 1)
  end.
Definition petscii_of_char (c : N) : N :=
  match find_index c petscii_to_char_map 0 with Some p => p | None => petscii_none end.

Definition apply_action (a : screen_action) (b : N) : N :=
  match a with SAdd k => b + k | SSub k => b - k | SSame => b | SConst k => k end.
(* `match c { lo..=hi => .. }`: first arm whose range contains the byte; the Rust match is exhaustive over u8, so the
   final default is never reached for b < 256 (proved: C03_petscreen_exhaustive) *)
Fixpoint screen_of (arms : list (N * N * screen_action)) (b : N) : option N :=
  match arms with
  | [] => None
  | (lo, hi, act) :: r => if (lo <=? b) && (b <=? hi) then Some (apply_action act b) else screen_of r b
  end.
Definition petscreen_of_byte (b : N) : N := match screen_of petscreen_arms b with Some x => x | None => b end.

(* str::as_bytes(): UTF-8 *)
Definition utf8 (c : N) : list N :=
  if c <? 128 then [c]
  else if c <? 2048 then [192 + c / 64; 128 + c mod 64]
  else if c <? 65536 then [224 + c / 4096; 128 + (c / 64) mod 64; 128 + c mod 64]
  else [240 + c / 262144; 128 + (c / 4096) mod 64; 128 + (c / 64) mod 64; 128 + c mod 64].

Inductive encoding := EncAscii | EncPetscii | EncPetscreen.
Definition encode_text (enc : encoding) (s : list N) : list N :=
  match enc with
  | EncAscii => flat_map utf8 s
  | EncPetscii => map petscii_of_char s
  | EncPetscreen => map (fun c => petscreen_of_byte (petscii_of_char c)) s
  end.

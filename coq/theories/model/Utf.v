(* widths of a Unicode scalar value in UTF-8 bytes and UTF-16 code units, as Rust's str::len() and
   str::encode_utf16().count() add them up per char *)
From Coq Require Import NArith.
Local Open Scope N_scope.
Definition width_utf8 (c : N) : nat :=
  if c <? 128 then 1%nat else if c <? 2048 then 2%nat else if c <? 65536 then 3%nat else 4%nat.
Definition width_utf16 (c : N) : nat := if c <? 65536 then 1%nat else 2%nat.
Definition width_chars (c : N) : nat := 1%nat.

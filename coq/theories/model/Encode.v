(* Code model: get_opcode_bytes (opcodes.rs) over the translated table, the
   operand-form -> (AddressingMode, suffix) mapping of parser::operand, and the
   Token::Instruction arm of emit_token (codegen/mod.rs). *)
From Coq Require Import List NArith ZArith Bool.
Import ListNotations.
From Mos Require Import Gen.OpcodeTable spec.Isa.
Open Scope Z_scope.

Definition key_eqb (k1 k2 : mnemonic * am * option reg) : bool :=
  let '(m1, a1, r1) := k1 in let '(m2, a2, r2) := k2 in
  mnemonic_beq m1 m2 && am_beq a1 a2 &&
  match r1, r2 with None, None => true | Some x, Some y => reg_beq x y | _, _ => false end.

(* `match (mnemonic, am, suffix) { ... }`: first arm whose pattern matches *)
Fixpoint lookup_row (rs : list (mnemonic * am * option reg * list (N * nat))) (k : mnemonic * am * option reg)
  : option (list (N * nat)) :=
  match rs with
  | [] => None
  | (m, a, r, c) :: rest => if key_eqb (m, a, r) k then Some c else lookup_row rest k
  end.

Definition cmp_holds (c : cmp) (a b : Z) : bool := match c with CLt => a <? b | CLe => a <=? b end.

(* `operand as u8`, `(operand as u16).to_le_bytes()` for an i64 operand *)
Definition as_u8 (v : Z) : N := Z.to_N (v mod 256).
Definition as_u16_lo (v : Z) : N := Z.to_N ((v mod 65536) mod 256).
Definition as_u16_hi (v : Z) : N := Z.to_N ((v mod 65536) / 256).

(* the `for (opcode, operand_length) in possible_opcodes` loop *)
Fixpoint select (cands : list (N * nat)) (operand : Z) : option (list N) :=
  match cands with
  | [] => None
  | (opc, len) :: rest =>
      match len with
      | 0%nat => Some [opc]
      | 1%nat => if cmp_holds zp_cmp operand zp_limit then Some [opc; as_u8 operand] else select rest operand
      | 2%nat => Some [opc; as_u16_lo operand; as_u16_hi operand]
      | _ => select rest operand
      end
  end.

Definition get_opcode_bytes (m : mnemonic) (a : am) (sfx : option reg) (operand : Z) : option (list N) :=
  match lookup_row rows (m, a, sfx) with
  | Some cands => select cands operand
  | None => None
  end.

(* parser::operand: which (AddressingMode, suffix) each syntactic form produces.
   Note the Rust naming: `( e ) ,r` is OuterIndirect, `( e ,r )` is Indirect. *)
Definition form_operand (f : form) : option (am * option reg) :=
  match f with
  | FImplied => None
  | FImm => Some (Immediate, None)
  | FAbs => Some (AbsoluteOrZp, None)
  | FAbsX => Some (AbsoluteOrZp, Some X)
  | FAbsY => Some (AbsoluteOrZp, Some Y)
  | FIndX => Some (Indirect, Some X)
  | FIndYinner => Some (Indirect, Some Y)
  | FIndY => Some (OuterIndirect, Some Y)
  | FIndXouter => Some (OuterIndirect, Some X)
  | FInd => Some (OuterIndirect, None)
  end.

Inductive instr_error := TooFar | InvalidInstruction | InstrPanic.

Definition is_branch_code (m : mnemonic) : bool := existsb (mnemonic_beq m) branch_mnemonics.

Definition two64 : Z := 18446744073709551616.
Definition i64_min : Z := -9223372036854775808.
Definition i64_max : Z := 9223372036854775807.
Definition in_i64 (z : Z) : bool := (i64_min <=? z) && (z <=? i64_max).
(* `x as usize` for an i64 x, and `u as i64` for a usize u (64-bit target) *)
Definition as_usize (z : Z) : Z := z mod two64.
Definition usize_as_i64 (u : Z) : Z := if u <=? i64_max then u else u - two64.

(* Token::Instruction arm, after the operand expression has been evaluated to v.
   cur : try_current_target_pc().  Result: bytes handed to emit, and the error if any.
   InstrPanic marks where the dev build panics on integer overflow (unreachable when both operations wrap):
   `(pc + 2)` on usize (when there is no current pc the target itself is cast to usize) and
   `target_pc - cur_pc` on i64. *)
Definition emit_instruction (m : mnemonic) (f : form) (v : Z) (cur : option Z) : list N * option instr_error :=
  let '(value, a, sfx) :=
    match form_operand f with
    | Some (a, sfx) => (v, a, sfx)
    | None => (0, Implied, None)
    end in
  let value' : Z + instr_error :=
    if is_branch_code m then
      let target_pc := value in
      let base := match cur with Some p => p | None => as_usize target_pc end in
      (* `ProgramCounter + usize` and `target_pc - cur_pc`: plain (panic on overflow) or wrapping, as translated *)
      let sum := base + branch_plus in
      if (two64 <=? sum) && negb branch_add_wraps then inr InstrPanic else
      let cur_pc := usize_as_i64 (if two64 <=? sum then sum - two64 else sum) in
      let offset0 := target_pc - cur_pc in
      if negb (in_i64 offset0) && negb branch_sub_wraps then inr InstrPanic else
      let offset := if in_i64 offset0 then offset0 else usize_as_i64 (offset0 mod two64) in
      if (branch_lo <=? offset) && (offset <=? branch_hi) then
        inl (if offset <? 0 then offset + branch_fix else offset)
      else match branch_escape with
           | Some t => if target_pc =? t then inl 0 else inr TooFar   (* older trees: a target of 0 was never rejected *)
           | None => inr TooFar
           end
    else inl value in
  match value' with
  | inr TooFar => (branch_too_far_bytes, Some TooFar)   (* the two bytes are still occupied, the error is raised *)
  | inr e => ([], Some e)
  | inl value =>
      match get_opcode_bytes m a sfx value with
      | Some bytes => (bytes, None)
      | None => ([invalid_instruction_byte], Some InvalidInstruction)
      end
  end.

(* view used by the theorems: accepted bytes, or None when an error is raised *)
Definition code_encode (m : mnemonic) (f : form) (v : Z) (cur : option Z) : option (list N) :=
  match emit_instruction m f v cur with
  | (bytes, None) => Some bytes
  | (_, Some _) => None
  end.

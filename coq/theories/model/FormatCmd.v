(* FormatCmd.v -- model of the control flow of mos/src/commands/format.rs::format_command:
     let tree = parse_or_err(entry, FileSystemParsingSource)?;          -- any diagnostic => Err, nothing else happens
     for file in tree.files.keys() {
         let formatted = format(file, tree, cfg.formatting).replace('\n', LINE_ENDING);
         let mut f = OpenOptions::new().truncate(true).write(true).open(file)?;   -- may fail: the loop stops
         f.write_all(formatted.as_bytes())?;
     }
   The file system is observed as the list of operations performed.  No proofs in this file. *)
From Coq Require Import List NArith Bool.
Import ListNotations.
From Mos Require Import model.Format Gen.FmtRules model.FormatTokens.

Section FormatCommand.
  Variable file : Type.
  Variable line_ending : text.                 (* LINE_ENDING: "\n", or "\r\n" on Windows *)
  Variable can_open : file -> bool.            (* whether OpenOptions::open succeeds *)

  Inductive fs_op :=
  | OpenTruncate (f : file)                    (* the file is opened for writing and truncated *)
  | WriteAll (f : file) (bytes : text).

  (* parser::parse: the tree (its files in the iteration order of tree.files.keys()) and the diagnostics *)
  Record parse_result := mkParse { pr_files : list (file * list token); pr_diagnostics : nat }.

  (* parser::parse_or_err: `if error.is_empty() { Ok(tree) } else { Err(error) }` *)
  Definition parse_or_err (r : parse_result) : option (list (file * list token)) :=
    match pr_diagnostics r with O => Some (pr_files r) | S _ => None end.

  (* str::replace('\n', LINE_ENDING) *)
  Definition replace_nl (s : text) : text := flat_map (fun c => if (c =? NL)%N then line_ending else [c]) s.

  (* the loop; the boolean is `Ok(())` *)
  Fixpoint write_files (o : options) (files : list (file * list token)) : list fs_op * bool :=
    match files with
    | [] => ([], true)
    | (f, ts) :: rest =>
        let formatted := replace_nl (format o ts) in
        if can_open f then
          let '(ops, ok) := write_files o rest in (OpenTruncate f :: WriteAll f formatted :: ops, ok)
        else ([], false)
    end.

  Definition format_command (r : parse_result) (o : options) : list fs_op * bool :=
    match parse_or_err r with
    | None => ([], false)
    | Some files => write_files o files
    end.
End FormatCommand.

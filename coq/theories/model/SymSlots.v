(* SymSlots -- the node allocator of petgraph::StableGraph under the symbol table, and
   CodegenContext::analyse_unassembled (mos-core/src/codegen/mod.rs, 41281c3) on top of it.

   StableGraph keeps a free list of vacant node slots: `remove_node` pushes the slot, `add_node` pops the most
   recently freed slot if there is one and only otherwise appends a new index.  So the index of a new symbol may be
   SMALLER than indices that existed before.  No proofs in this file. *)
From Coq Require Import List NArith Arith Bool.
Import ListNotations.
From Mos Require Import model.SymGraph.

Record table := mkTable {
  t_edges : graph;          (* newest first *)
  t_live : list node;       (* occupied slots *)
  t_free : list node;       (* vacant slots, most recently freed first *)
  t_next : node             (* the graph's node bound: first index never used *)
}.

(* StableGraph::add_node *)
Definition add_node (t : table) : node * table :=
  match t_free t with
  | f :: fs => (f, mkTable (t_edges t) (f :: t_live t) fs (t_next t))
  | [] => (t_next t, mkTable (t_edges t) (t_next t :: t_live t) [] (S (t_next t)))
  end.

(* SymbolTable::insert *)
Definition insert_symbol (t : table) (parent_nx : node) (id : ident) : node * table :=
  let '(nx, t') := add_node t in
  (nx, mkTable (insert (t_edges t') parent_nx id nx) (t_live t') (t_free t') (t_next t')).

(* SymbolTable::remove = StableGraph::remove_node *)
Definition remove_symbol (t : table) (nx : node) : table :=
  mkTable (remove (t_edges t) nx) (filter (fun n => negb (Nat.eqb n nx)) (t_live t)) (nx :: t_free t) (t_next t).

(* what unassembled code does to the table: it defines symbols (below an existing node or below the k-th symbol it
   defined itself) *)
Inductive region_parent := POld (nx : node) | PNew (k : nat).
Definition region := list (region_parent * ident).

Fixpoint run_region (t : table) (created : list node) (r : region) : table * list node :=
  match r with
  | [] => (t, created)
  | (p, id) :: rest =>
      let parent_nx := match p with POld nx => nx | PNew k => nth k (rev created) 0 end in
      let '(nx, t') := insert_symbol t parent_nx id in
      run_region t' (nx :: created) rest
  end.

(* fn analyse_unassembled: snapshot of the existing indices; every index that is not in it is removed again *)
Definition analyse_unassembled (t : table) (r : region) : table :=
  let existing := t_live t in
  let '(t1, _) := run_region t [] r in
  let added := filter (fun n => negb (existsb (Nat.eqb n) existing)) (t_live t1) in
  fold_left remove_symbol added t1.

(* the variant with a high-water mark (index of the last existing symbol + 1) instead of the snapshot *)
Definition analyse_unassembled_high_water (t : table) (r : region) : table :=
  let mark := S (fold_left Nat.max (t_live t) 0) in
  let '(t1, _) := run_region t [] r in
  let added := filter (fun n => Nat.leb mark n) (t_live t1) in
  fold_left remove_symbol added t1.

(* Code model: the listing part of mos/src/commands/build.rs `build_command`:
     for (source_path, contents) in listings { File::create(target_dir.join(format!("{}.lst", source_path.file_stem())))?.write_all(contents) }
   A source path is abstracted to (directory, file stem) -- both numbers (injective renaming); the extension is dropped
   by file_stem.  File::create truncates an existing file: the last write to a name wins. *)
From Coq Require Import List NArith Bool.
Import ListNotations.

Definition source_path := (N * N)%type.                    (* (directory, stem) *)
Definition listing_name (p : source_path) : N := snd p.    (* "<stem>.lst" inside the target directory *)

Definition target_files (content : Type) := list (N * content).

Definition create {content} (name : N) (c : content) (t : target_files content) : target_files content :=
  (name, c) :: filter (fun e => negb (N.eqb (fst e) name)) t.

Fixpoint write_listings {content} (listings : list (source_path * content)) (t : target_files content) : target_files content :=
  match listings with
  | [] => t
  | (p, c) :: r => write_listings r (create (listing_name p) c t)
  end.

Fixpoint lookup {content} (name : N) (t : target_files content) : option content :=
  match t with [] => None | (k, c) :: r => if N.eqb k name then Some c else lookup name r end.

(* two different source files whose listings go to the same file *)
Fixpoint Known_listing_name_collision (paths : list source_path) : bool :=
  match paths with
  | [] => false
  | p :: r => existsb (fun q => N.eqb (snd q) (snd p)) r || Known_listing_name_collision r
  end.

(* i64 arithmetic as the dev build of mos performs it: a result in range, or a panic. *)
From Coq Require Import List NArith ZArith Bool.
Import ListNotations.
Open Scope Z_scope.

(* Val: a result in range; Panic: the dev build panics here (unchecked arithmetic);
   Ovf: a checked_* operation returned None (the caller turns it into a diagnostic) *)
Inductive res := Val (z : Z) | Panic | Ovf.

Definition i64_min : Z := -9223372036854775808.
Definition i64_max : Z := 9223372036854775807.
Definition two64 : Z := 18446744073709551616.
Definition in_i64 (z : Z) : bool := (i64_min <=? z) && (z <=? i64_max).
Definition wrap64 (z : Z) : Z := (z + 9223372036854775808) mod two64 - 9223372036854775808.
Definition chk (z : Z) : res := if in_i64 z then Val z else Panic.

Definition i64_add (a b : Z) : res := chk (a + b).
Definition i64_sub (a b : Z) : res := chk (a - b).
Definition i64_mul (a b : Z) : res := chk (a * b).
Definition i64_neg (a : Z) : res := chk (- a).
(* callers guard b <> 0; MIN / -1 and MIN % -1 panic *)
Definition i64_div (a b : Z) : res := if (a =? i64_min) && (b =? -1) then Panic else Val (Z.quot a b).
Definition i64_rem (a b : Z) : res := if (a =? i64_min) && (b =? -1) then Panic else Val (Z.rem a b).
(* `a << b`, `a >> b` with an i64 shift count: panic unless 0 <= b < 64; bits shifted out are lost silently *)
Definition i64_shl (a b : Z) : res := if (0 <=? b) && (b <? 64) then Val (wrap64 (a * 2 ^ b)) else Panic.
Definition i64_shr (a b : Z) : res := if (0 <=? b) && (b <? 64) then Val (Z.shiftr a b) else Panic.
Definition i64_xor (a b : Z) : res := Val (Z.lxor a b).

(* checked_add/sub/mul/neg/div/rem/shl/shr: None instead of a panic *)
Definition cchk (z : Z) : res := if in_i64 z then Val z else Ovf.
Definition i64_checked_add (a b : Z) : res := cchk (a + b).
Definition i64_checked_sub (a b : Z) : res := cchk (a - b).
Definition i64_checked_mul (a b : Z) : res := cchk (a * b).
Definition i64_checked_neg (a : Z) : res := cchk (- a).
Definition i64_checked_div (a b : Z) : res := if (b =? 0) || ((a =? i64_min) && (b =? -1)) then Ovf else Val (Z.quot a b).
Definition i64_checked_rem (a b : Z) : res := if (b =? 0) || ((a =? i64_min) && (b =? -1)) then Ovf else Val (Z.rem a b).
(* `u32::try_from(b).ok().and_then(|b| a.checked_shl(b))`: None unless 0 <= b < 64 *)
Definition i64_checked_shl (a b : Z) : res := if (0 <=? b) && (b <? 64) then Val (wrap64 (a * 2 ^ b)) else Ovf.
Definition i64_checked_shr (a b : Z) : res := if (0 <=? b) && (b <? 64) then Val (Z.shiftr a b) else Ovf.

Definition b2z (b : bool) : Z := if b then 1 else 0.

Fixpoint text_eqb (a b : list N) : bool :=
  match a, b with
  | [], [] => true
  | x :: a', y :: b' => N.eqb x y && text_eqb a' b'
  | _, _ => false
  end.

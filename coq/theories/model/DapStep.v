(* DapStep.v -- TestRunner::step_over / step_out (mos/src/test_runner/mod.rs), as the debug adapter uses them.

   The CPU is deterministic and the step commands only call execute_instruction, so they move along the uninterrupted
   run of the test.  That run is given as functions of the instruction index i (state before the i-th executed
   instruction):   pcT i  = cpu.get_program_counter()
                   spT i  = cpu.get_stack_pointer()
                   opT i  = ram[pc]                       (0 = BRK: execute_instruction returns TestSuccess, executes nothing)
                   retT i = (1 + ram[$100+sp+1] + 256*ram[$100+sp+2]) as u16      (what the pinned step_out computed as `will_return_to`)
   A step command started at index i returns the index it leaves the machine at; None = the loop did not end within
   the fuel (the session thread would still be inside the command). *)
From Coq Require Import ZArith Bool.
Open Scope Z_scope.

Section DapStep.
  Variable pcT spT opT retT : Z -> Z.

  Definition finT (i : Z) : bool := opT i =? 0.
  Definition is_jsr (i : Z) : bool := opT i =? 32.
  Definition is_rts (i : Z) : bool := opT i =? 96.

  (* execute_instruction *)
  Definition exec_in (i : Z) : Z := if finT i then i else i + 1.

  (* TestRunner::run_until_return (shared by step_over and step_out; nested calls are counted):
       loop { opcode = ram[pc]; if execute_instruction() != Running { return };
              match opcode { JSR => nested += 1, RTS if nested == 0 => return, RTS => nested -= 1, _ => {} } } *)
  Fixpoint run_until_return (fuel : nat) (nested : Z) (i : Z) : option Z :=
    match fuel with
    | O => None
    | S f =>
        if finT i then Some i
        else if is_jsr i then run_until_return f (nested + 1) (i + 1)
        else if is_rts i then (if nested =? 0 then Some (i + 1) else run_until_return f (nested - 1) (i + 1))
        else run_until_return f nested (i + 1)
    end.

  (* step_over: on JSR execute it, then run until the subroutine returns; otherwise execute_instruction *)
  Definition step_over (fuel : nat) (i : Z) : option Z :=
    if is_jsr i then run_until_return fuel 0 (i + 1) else Some (exec_in i).

  (* TestRunner::call_depth before instruction n: execute_instruction counts JSR up and RTS down (saturating) *)
  Fixpoint call_depth (n : nat) : Z :=
    match n with
    | O => 0
    | S k => let d := call_depth k in
             if is_jsr (Z.of_nat k) then d + 1 else if is_rts (Z.of_nat k) then Z.max 0 (d - 1) else d
    end.

  (* step_out: nothing to step out to when no call is open *)
  Definition step_out (fuel : nat) (i : Z) : option Z :=
    if call_depth (Z.to_nat i) =? 0 then Some i else run_until_return fuel 0 i.

  (* ---- the runner as pinned (before fixes 7e8ab84 and the two that followed) ----
     step_over:  wait_until_pc = pc + 3; loop { result = execute_instruction(); if pc == wait_until_pc { return };
                                                if result != Running { return } }
     step_out:   if sp > 253 { return }; will_return_to = 1 + ram[$100+sp+1] + 256*ram[$100+sp+2];
                 loop { if pc == will_return_to { return }; if execute_instruction() != Running { return } } *)
  Fixpoint over_loop_pinned (fuel : nat) (target : Z) (i : Z) : option Z :=
    match fuel with
    | O => None
    | S f =>
        let j := exec_in i in
        if pcT j =? target then Some j
        else if finT i then Some j
        else over_loop_pinned f target j
    end.

  Definition step_over_pinned (fuel : nat) (i : Z) : option Z :=
    if is_jsr i then over_loop_pinned fuel (pcT i + 3) i else Some (exec_in i).

  Fixpoint out_loop_pinned (fuel : nat) (target : Z) (i : Z) : option Z :=
    match fuel with
    | O => None
    | S f =>
        if pcT i =? target then Some i
        else if finT i then Some i
        else out_loop_pinned f target (i + 1)
    end.

  Definition step_out_pinned (fuel : nat) (i : Z) : option Z :=
    if spT i >? 253 then Some i else out_loop_pinned fuel (retT i) i.

  (* classes of the findings, evaluated by the check on the run of the failing session (extracted) *)

  (* at index i, in the frame opened by the call at index c: the two bytes above the stack pointer are not that call's
     return address (the subroutine has pushed something) *)
  Definition Known_stepout_stack_dirty (c i : Z) : bool := negb (retT i =? pcT c + 3).

  (* instruction k jumps to itself *)
  Definition Known_breakpoint_self_loop (k : Z) : bool := pcT (k + 1) =? pcT k.

  (* the return address of the call at index i is passed before the call has returned at index j (recursion through the
     same call site, or a jump to the instruction after the call from inside it) *)
  Fixpoint passes_return_address (n : nat) (i : Z) (k : Z) : bool :=
    match n with
    | O => false
    | S m => (pcT k =? pcT i + 3) || passes_return_address m i (k + 1)
    end.
  Definition Known_next_reenters_call_site (i j : Z) : bool := passes_return_address (Z.to_nat (j - i - 1)) i (i + 1).
End DapStep.

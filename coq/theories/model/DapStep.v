(* DapStep.v -- TestRunner::step_over / step_out (mos/src/test_runner/mod.rs), as the debug adapter uses them.

   The CPU is deterministic and the step commands only call execute_instruction, so they move along the uninterrupted
   run of the test.  That run is given as functions of the instruction index i (state before the i-th executed
   instruction):   pcT i  = cpu.get_program_counter()
                   spT i  = cpu.get_stack_pointer()
                   opT i  = ram[pc]                       (0 = BRK: execute_instruction returns TestSuccess, executes nothing)
                   retT i = (1 + ram[$100+sp+1] + 256*ram[$100+sp+2]) as u16      (what the pinned step_out computed as `will_return_to`)
   A step command started at index i returns the index it leaves the machine at; None = the loop did not end within
   the fuel (the session thread would still be inside the command). *)
From Coq Require Import ZArith Bool.
Open Scope Z_scope.

Section DapStep.
  Variable pcT spT opT retT : Z -> Z.

  Definition finT (i : Z) : bool := opT i =? 0.
  Definition is_jsr (i : Z) : bool := opT i =? 32.
  Definition is_rts (i : Z) : bool := opT i =? 96.

  (* execute_instruction *)
  Definition exec_in (i : Z) : Z := if finT i then i else i + 1.

  (* the loop of step_over:  loop { result = execute_instruction(); if pc == wait_until_pc { return }; if result != Running { return } } *)
  Fixpoint over_loop (fuel : nat) (target : Z) (i : Z) : option Z :=
    match fuel with
    | O => None
    | S f =>
        let j := exec_in i in
        if pcT j =? target then Some j
        else if finT i then Some j
        else over_loop f target j
    end.

  Definition step_over (fuel : nat) (i : Z) : option Z :=
    if is_jsr i then over_loop fuel (pcT i + 3) i else Some (exec_in i).

  (* step_out (after fix: nested calls are counted):
       loop { opcode = ram[pc]; if execute_instruction() != Running { return };
              match opcode { JSR => nested += 1, RTS if nested == 0 => return, RTS => nested -= 1, _ => {} } } *)
  Fixpoint out_loop (fuel : nat) (nested : Z) (i : Z) : option Z :=
    match fuel with
    | O => None
    | S f =>
        if finT i then Some i
        else if is_jsr i then out_loop f (nested + 1) (i + 1)
        else if is_rts i then (if nested =? 0 then Some (i + 1) else out_loop f (nested - 1) (i + 1))
        else out_loop f nested (i + 1)
    end.

  Definition step_out (fuel : nat) (i : Z) : option Z :=
    if spT i >? 253 then Some i else out_loop fuel 0 i.

  (* step_out as pinned (before the fix):
       will_return_to = 1 + ram[$100+sp+1] + 256*ram[$100+sp+2];
       loop { if pc == will_return_to { return }; if execute_instruction() != Running { return } } *)
  Fixpoint out_loop_pinned (fuel : nat) (target : Z) (i : Z) : option Z :=
    match fuel with
    | O => None
    | S f =>
        if pcT i =? target then Some i
        else if finT i then Some i
        else out_loop_pinned f target (i + 1)
    end.

  Definition step_out_pinned (fuel : nat) (i : Z) : option Z :=
    if spT i >? 253 then Some i else out_loop_pinned fuel (retT i) i.

  (* classes of the findings, evaluated by the check on the run of the failing session (extracted) *)

  (* at index i, in the frame opened by the call at index c: the two bytes above the stack pointer are not that call's
     return address (the subroutine has pushed something) *)
  Definition Known_stepout_stack_dirty (c i : Z) : bool := negb (retT i =? pcT c + 3).

  (* instruction k jumps to itself *)
  Definition Known_breakpoint_self_loop (k : Z) : bool := pcT (k + 1) =? pcT k.
End DapStep.

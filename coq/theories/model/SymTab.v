(* Code model: codegen/symbols.rs -- SymbolTable<S> over petgraph::StableGraph<Item<S>, Identifier>.
   Nodes are kept as an association list index -> weight (a vacant slot has no entry), edges newest-first
   (petgraph links a new edge at the head of both adjacency lists, so `edges_directed` yields the newest edge
   first), vacant node slots are reused LIFO (StableGraph's free list).  Function names are the Rust names. *)
From Coq Require Import List NArith ZArith Bool PeanoNat.
Import ListNotations.
From Mos Require Import model.I64.

Definition ident := list N.
Definition ipath := list ident.

Definition ident_eqb (a b : ident) : bool := text_eqb a b.
Fixpoint ipath_eqb (a b : ipath) : bool :=
  match a, b with
  | [], [] => true
  | x :: a', y :: b' => ident_eqb x y && ipath_eqb a' b'
  | _, _ => false
  end.

(* ASCII to_lowercase (identifiers are ASCII alphanumerics and `_`) *)
Definition lower (c : N) : N := if (N.leb 65 c && N.leb c 90)%bool then (c + 32)%N else c.
Definition t_super : ident := [115; 117; 112; 101; 114]%N.
(* Identifier::is_super: `self.0.to_lowercase().eq("super")` *)
Definition is_super (i : ident) : bool := ident_eqb (map lower i) t_super.
Definition contains_super (p : ipath) : bool := existsb is_super p.
(* Identifier::is_special: "-", "+" or starting with '$' *)
Definition is_special (i : ident) : bool :=
  match i with
  | [c] => N.eqb c 45 || N.eqb c 43 || N.eqb c 36
  | c :: _ => N.eqb c 36
  | [] => false
  end.

Section Table.
Context {D : Type}.

Record symtab := mkTab {
  nodes : list (nat * option D);        (* occupied slots: index -> Item.data *)
  edges : list (nat * ident * nat);     (* (source, weight, target), newest first *)
  free : list nat;                      (* vacant node slots, most recently vacated first *)
  next : nat                            (* number of slots ever allocated *)
}.

Definition root : nat := 0%nat.
(* SymbolTable::default(): a graph with one data-less root node *)
Definition empty_tab : symtab := mkTab [(root, None)] [] [] 1%nat.

Fixpoint assoc_nat {A} (l : list (nat * A)) (k : nat) : option A :=
  match l with
  | [] => None
  | (i, a) :: r => if Nat.eqb i k then Some a else assoc_nat r k
  end.

(* graph.node_weight(nx): None for a vacant slot *)
Definition node_weight (t : symtab) (nx : nat) : option (option D) := assoc_nat (nodes t) nx.
Definition try_get (t : symtab) (nx : nat) : option D :=
  match node_weight t nx with Some (Some d) => Some d | _ => None end.
Definition node_count (t : symtab) : nat := List.length (nodes t).

Definition add_node (t : symtab) (d : option D) : symtab * nat :=
  match free t with
  | i :: f => (mkTab ((i, d) :: nodes t) (edges t) f (next t), i)
  | [] => (mkTab ((next t, d) :: nodes t) (edges t) [] (S (next t)), next t)
  end.
Definition add_edge (t : symtab) (a : nat) (id : ident) (b : nat) : symtab :=
  mkTab (nodes t) ((a, id, b) :: edges t) (free t) (next t).

Definition insert (t : symtab) (parent_nx : nat) (id : ident) (d : option D) : symtab * nat :=
  let (t1, nx) := add_node t d in (add_edge t1 parent_nx id nx, nx).

(* `self.graph[nx].data = data` and `*existing = symbol`: the weight of slot nx is replaced *)
Fixpoint update_slot (l : list (nat * option D)) (nx : nat) (d : option D) : list (nat * option D) :=
  match l with
  | [] => []
  | (i, x) :: r => if Nat.eqb i nx then (i, d) :: r else (i, x) :: update_slot r nx d
  end.
Definition update_data (t : symtab) (nx : nat) (d : option D) : symtab :=
  mkTab (update_slot (nodes t) nx d) (edges t) (free t) (next t).

(* graph.remove_node(nx): the node and every edge incident to it *)
Definition remove (t : symtab) (nx : nat) : symtab :=
  match node_weight t nx with
  | None => t
  | Some _ =>
      mkTab (filter (fun e => negb (Nat.eqb (fst e) nx)) (nodes t))
            (filter (fun e => negb (Nat.eqb (fst (fst e)) nx) && negb (Nat.eqb (snd e) nx)) (edges t))
            (nx :: free t) (next t)
  end.

(* first outgoing edge with that weight *)
Fixpoint child_in (es : list (nat * ident * nat)) (nx : nat) (id : ident) : option nat :=
  match es with
  | [] => None
  | (a, i, b) :: r => if Nat.eqb a nx && ident_eqb i id then Some b else child_in r nx id
  end.
Definition child (t : symtab) (nx : nat) (id : ident) : option nat := child_in (edges t) nx id.

(* source of the LAST (oldest) incoming edge -- the edge the node was inserted with; `export` adds newer incoming edges,
   which do not change the scope a symbol was defined in (repair 92c8ba5; before, the newest edge was taken) *)
Fixpoint parent_in (es : list (nat * ident * nat)) (nx : nat) : option nat :=
  match es with
  | [] => None
  | (a, _, b) :: r => match parent_in r nx with
                      | Some p => Some p
                      | None => if Nat.eqb b nx then Some a else None
                      end
  end.
Definition parent (t : symtab) (nx : nat) : option nat := parent_in (edges t) nx.

Fixpoint try_index (t : symtab) (nx : nat) (path : ipath) : option nat :=
  match path with
  | [] => Some nx
  | id :: rest =>
      match (if is_super id then parent t nx else child t nx id) with
      | Some n => try_index t n rest
      | None => None
      end
  end.

Fixpoint ensure_index (t : symtab) (nx : nat) (path : ipath) : symtab * nat :=
  match path with
  | [] => (t, nx)
  | id :: rest =>
      match child t nx id with
      | Some n => ensure_index t n rest
      | None => let (t1, n) := insert t nx id None in ensure_index t1 n rest
      end
  end.

(* query: the path from the nearest enclosing scope in which it resolves; a path that mentions `super` does not
   bubble.  The Rust recursion follows `parent` links without a bound; `QDiverge` is the model's explicit result for
   a parent chain longer than the number of slots (a cycle). *)
Inductive qres := QFound (nx : nat) | QNone | QDiverge.

Fixpoint query_fuel (fuel : nat) (t : symtab) (nx : nat) (path : ipath) : qres :=
  match fuel with
  | O => QDiverge
  | S f =>
      match try_index t nx path with
      | Some r => QFound r
      | None =>
          if contains_super path then QNone
          else match parent t nx with
               | Some p => query_fuel f t p path
               | None => QNone
               end
      end
  end.
Definition query (t : symtab) (nx : nat) (path : ipath) : qres := query_fuel (S (next t)) t nx path.

(* query_all: the query result from nx and from every ancestor of nx, nearest first; None = unbounded parent chain *)
Fixpoint query_all_fuel (fuel : nat) (t : symtab) (nx : nat) (path : ipath) : option (list nat) :=
  match fuel with
  | O => None
  | S f =>
      let here := match query t nx path with QFound r => Some [r] | QNone => Some [] | QDiverge => None end in
      match here with
      | None => None
      | Some h =>
          match parent t nx with
          | Some p => match query_all_fuel f t p path with Some r => Some (h ++ r) | None => None end
          | None => Some h
          end
      end
  end.
Definition query_all (t : symtab) (nx : nat) (path : ipath) : option (list nat) :=
  query_all_fuel (S (next t)) t nx path.

(* children(nx): outgoing (weight, target) pairs; the Rust HashMap keeps one entry per weight *)
Fixpoint children_in (es : list (nat * ident * nat)) (nx : nat) : list (ident * nat) :=
  match es with
  | [] => []
  | (a, i, b) :: r => if Nat.eqb a nx then (i, b) :: children_in r nx else children_in r nx
  end.
Fixpoint dedup_ids (l : list (ident * nat)) : list (ident * nat) :=
  match l with
  | [] => []
  | (i, b) :: r => (i, b) :: filter (fun e => negb (ident_eqb (fst e) i)) (dedup_ids r)
  end.
Definition children (t : symtab) (nx : nat) : list (ident * nat) := dedup_ids (children_in (edges t) nx).

(* export: link to_export_nx under new_parent.new_path unless that name already leads elsewhere *)
Definition split_last (p : ipath) : ipath * ident := (removelast p, last p []).
Definition export (t : symtab) (to_export_nx new_parent_nx : nat) (new_path : ipath) : symtab * bool :=
  let (pp, new_id) := split_last new_path in
  let (t1, new_nx) := ensure_index t new_parent_nx pp in
  if existsb (fun e => match e with (a, i, b) => Nat.eqb a new_nx && negb (Nat.eqb b to_export_nx) && ident_eqb i new_id end)
             (edges t1)
  then (t1, false)
  else (add_edge t1 new_nx new_id to_export_nx, true).

(* all(): every path from the root to a node with data.  fuel bounds the depth (cycles cannot be entered by the
   modelled operations; depth <= number of slots). *)
Fixpoint all_fuel (fuel : nat) (t : symtab) (nx : nat) (path : ipath) : list (ipath * nat * D) :=
  match fuel with
  | O => []
  | S f =>
      (match try_get t nx with Some d => [(path, nx, d)] | None => [] end)
      ++ flat_map (fun c => all_fuel f t (snd c) (path ++ [fst c])) (children t nx)
  end.
Definition all (t : symtab) : list (ipath * nat * D) := all_fuel (S (next t)) t root [].

End Table.
Arguments symtab : clear implicits.

(* Code model for C14: mos/src/lsp/{mod,documents,rename,completion,semantic_highlighting}.rs and the position
   arithmetic of mos-core/src/parser/code_map.rs.

   Part A  strings as Rust sees them: a `str` is a sequence of Unicode scalars, indices are UTF-8 BYTE offsets,
           `&s[..n]`, `&s[a..b]`, `split_at` panic when an index is past the end or inside a character.
   Part B  code_map.rs: File::{lines, line_span, source_slice, source_line, find_line, find_line_col}.
   Part C  the handlers' treatment of client-supplied positions (prepareRename, completion), as the code is now
           (columns are CHARACTER columns; out-of-range positions answer null).
   Part D  semantic_highlighting.rs::to_deltas.
   Part E  server bookkeeping (LspContext, didOpen/didChange/didClose, perform_codegen, publish_diagnostics,
           handle_message) over an abstract deterministic analysis.
   No proofs in this file. *)
From Coq Require Import List NArith Arith Bool.
From Mos Require Import model.Utf.
Import ListNotations.

Definition text := list N.

Inductive result (A : Type) := Ok (a : A) | Panic.
Arguments Ok {A} a.
Arguments Panic {A}.

Definition bind {A B} (r : result A) (f : A -> result B) : result B :=
  match r with Ok a => f a | Panic => Panic end.

(* ------------------------------------------------------------------ Part A: str *)
Fixpoint byte_len (s : text) : nat :=
  match s with [] => 0 | c :: r => width_utf8 c + byte_len r end.

(* str::split_at(n): None = "byte index n is out of bounds / not a char boundary" (Rust panics) *)
Fixpoint split_at_byte (n : nat) (s : text) : option (text * text) :=
  match n with
  | 0 => Some ([], s)
  | _ => match s with
         | [] => None
         | c :: r => if width_utf8 c <=? n
                     then match split_at_byte (n - width_utf8 c) r with
                          | Some (a, b) => Some (c :: a, b)
                          | None => None
                          end
                     else None
         end
  end.

Definition str_split_at (s : text) (n : nat) : result (text * text) :=
  match split_at_byte n s with Some p => Ok p | None => Panic end.
(* &s[..n] *)
Definition str_slice_to (s : text) (n : nat) : result text :=
  match split_at_byte n s with Some (a, _) => Ok a | None => Panic end.
(* &s[n..] *)
Definition str_slice_from (s : text) (n : nat) : result text :=
  match split_at_byte n s with Some (_, b) => Ok b | None => Panic end.
(* &s[a..b] : begin <= end, both on char boundaries, end <= len *)
Definition str_slice (s : text) (a b : nat) : result text :=
  if b <? a then Panic else
  match split_at_byte a s with
  | Some (_, rest) => match split_at_byte (b - a) rest with Some (m, _) => Ok m | None => Panic end
  | None => Panic
  end.

Definition NL : N := 10%N.
Definition CR : N := 13%N.
Definition is_nl (c : N) : bool := N.eqb c NL.

(* trim_end_matches(&['\n', '\r'][..]) *)
Fixpoint trim_end_nl (s : text) : text :=
  match s with
  | [] => []
  | c :: r => match trim_end_nl r with
              | [] => if N.eqb c NL || N.eqb c CR then [] else [c]
              | r' => c :: r'
              end
  end.

(* ------------------------------------------------------------------ Part B: code_map.rs::File
   Offsets are relative to the file's own `span.low` (the code adds the same base to every Pos of a file). *)
Fixpoint line_starts_from (off : nat) (s : text) : list nat :=
  match s with
  | [] => []
  | c :: r => if is_nl c then (off + 1) :: line_starts_from (off + 1) r
              else line_starts_from (off + width_utf8 c) r
  end.
(* add_file: lines = [low] ++ positions after every '\n' *)
Definition lines (src : text) : list nat := 0 :: line_starts_from 0 src.
Definition num_lines (src : text) : nat := length (lines src).

(* line_span: assert!(line < self.lines.len()) *)
Definition line_span (src : text) (line : nat) : result (nat * nat) :=
  if line <? num_lines src
  then Ok (nth line (lines src) 0, nth (line + 1) (lines src) (byte_len src))
  else Panic.

(* source_slice: assert!(self.span.contains(span)); &self.source[lo..hi] *)
Definition source_slice (src : text) (lo hi : nat) : result text :=
  if byte_len src <? hi then Panic else str_slice src lo hi.

Definition source_line (src : text) (line : nat) : result text :=
  bind (line_span src line) (fun sp => bind (source_slice src (fst sp) (snd sp)) (fun l => Ok (trim_end_nl l))).

(* find_line: assert!(pos >= low && pos <= high); binary_search: Ok(i) => i, Err(i) => i - 1
   = the index of the last line start <= pos (line starts are strictly increasing) *)
Fixpoint last_le (pos : nat) (ls : list nat) (i : nat) (best : nat) : nat :=
  match ls with
  | [] => best
  | l :: r => if l <=? pos then last_le pos r (S i) i else best
  end.
Definition find_line (src : text) (pos : nat) : result nat :=
  if byte_len src <? pos then Panic else Ok (last_le pos (lines src) 0 0).

(* find_line_col: column = chars of source_slice(line_span)[..pos - line_span.low] *)
Definition find_line_col (src : text) (pos : nat) : result (nat * nat) :=
  bind (find_line src pos) (fun line =>
  bind (line_span src line) (fun sp =>
  bind (source_slice src (fst sp) (snd sp)) (fun l =>
  bind (str_slice_to l (pos - fst sp)) (fun pre => Ok (line, length pre))))).

(* look_up_span *)
Definition look_up_span (src : text) (lo hi : nat) : result ((nat * nat) * (nat * nat)) :=
  bind (find_line_col src lo) (fun b => bind (find_line_col src hi) (fun e => Ok (b, e))).

(* ------------------------------------------------------------------ Part C: client positions in the handlers *)
(* char::is_alphanumeric restricted to what the tie exercises exactly: ASCII letters and digits are alphanumeric; for
   other scalars the classification is a parameter (Unicode tables are not modelled) *)
Section Handlers.
  Variable is_alnum_non_ascii : N -> bool.
  Definition is_alphanumeric (c : N) : bool :=
    if (c <? 128)%N
    then ((48 <=? c) && (c <=? 57) || (65 <=? c) && (c <=? 90) || (97 <=? c) && (c <=? 122))%N
    else is_alnum_non_ascii c.
  Definition USCORE : N := 95%N.
  Definition DOT : N := 46%N.
  Definition is_separator (c : N) : bool := negb (is_alphanumeric c) && negb (N.eqb c USCORE).
  Definition is_scope_separator (c : N) : bool := is_separator c && negb (N.eqb c DOT).

  (* slice.iter().position(p) *)
  Fixpoint position (p : N -> bool) (s : text) : option nat :=
    match s with
    | [] => None
    | c :: r => if p c then Some 0 else option_map S (position p r)
    end.
  (* slice.iter().rposition(p) *)
  Fixpoint rposition (p : N -> bool) (s : text) : option nat :=
    match s with
    | [] => None
    | c :: r => match rposition p r with
                | Some i => Some (S i)
                | None => if p c then Some 0 else None
                end
    end.

  (* rename.rs, PrepareRenameRequestHandler: the identifier range (start, end) in character columns around the
     cursor, None = answer null.  `source_line`, the slices `line[..col]`, `line[col..]`, `line[start..end]` on the
     Vec<char> panic when out of range: made explicit. *)
  Definition vec_slice_to (l : text) (n : nat) : result text := if length l <? n then Panic else Ok (firstn n l).
  Definition vec_slice_from (l : text) (n : nat) : result text := if length l <? n then Panic else Ok (skipn n l).

  Definition prepare_rename_range (src : text) (line col : nat) : result (option (nat * nat)) :=
    if num_lines src <=? line then Ok None else
    bind (source_line src line) (fun l =>
      if length l <? col then Ok None else
      bind (vec_slice_to l col) (fun pre =>
      bind (vec_slice_from l col) (fun post =>
        let start := match rposition is_separator pre with Some p => p + 1 | None => 0 end in
        let e := match position is_separator post with Some p => p | None => length post end in
        let e := col + e in
        if (e <? start) || (length l <? e) then Panic        (* line[start..end] *)
        else Ok (Some (start, e))))).

  (* completion.rs: the scope prefix in front of a '.', None = not completing inside a scope *)
  Definition completion_scope (src : text) (line col : nat) : result (option text) :=
    if num_lines src <=? line then Ok None else
    bind (source_line src line) (fun l =>
      if (col <=? length l) && (0 <? col) then
        (* chars.split_at(col - 1): panics if col - 1 > len *)
        if length l <? col - 1 then Panic else
        let prefix := firstn (col - 1) l in
        let suffix := skipn (col - 1) l in
        match suffix with
        | c :: _ => if N.eqb c DOT then
                      let scope_at := match rposition is_scope_separator prefix with Some p => p + 1 | None => 0 end in
                      if length prefix <? scope_at then Panic else Ok (Some (skipn scope_at prefix))
                    else Ok None
        | [] => Ok None
        end
      else Ok None).
End Handlers.

(* ------------------------------------------------------------------ Part D: to_deltas *)
Record span_loc := mkLoc { b_line : nat; b_col : nat; e_line : nat; e_col : nat; s_ty : nat }.
Record sem_token := mkTok { delta_line : nat; delta_start : nat; tok_len : nat; tok_ty : nat }.

Definition key_le (a b : span_loc) : bool :=
  (b_line a <? b_line b) || ((b_line a =? b_line b) && (b_col a <=? b_col b)).

(* sorted_by_key is a stable sort *)
Fixpoint insert_sorted (x : span_loc) (l : list span_loc) : list span_loc :=
  match l with
  | [] => [x]
  | y :: r => if key_le y x then y :: insert_sorted x r else x :: l
  end.
Definition sort_by_key (l : list span_loc) : list span_loc := fold_right insert_sorted [] (rev l).
(* rev + fold_right: elements are inserted in input order, each after the equal keys already present *)

(* the `loop` splitting one location into one piece per line; fuel = number of lines the span covers.
   line_chars = location.file.source_line(line).chars().count(); pieces with end.column <= begin.column are dropped *)
Fixpoint split_lines (line_chars : nat -> nat) (fuel : nat) (line col : nat) (loc : span_loc) : list span_loc :=
  match fuel with
  | 0 => []
  | S f =>
      let last := line =? e_line loc in
      let length_ := if last then e_col loc else line_chars line in
      let piece := if col <? length_ then [mkLoc line col line length_ (s_ty loc)] else [] in
      if last then piece else piece ++ split_lines line_chars f (S line) 0 loc
  end.
Definition split_loc (line_chars : nat -> nat) (loc : span_loc) : list span_loc :=
  split_lines line_chars (S (e_line loc - b_line loc)) (b_line loc) (b_col loc) loc.

(* the final loop: usize subtraction panics on underflow in the dev profile *)
Definition checked_sub (a b : nat) : result nat := if a <? b then Panic else Ok (a - b).
Fixpoint encode (prev_line prev_start : nat) (l : list span_loc) : result (list sem_token) :=
  match l with
  | [] => Ok []
  | loc :: r =>
      bind (checked_sub (b_line loc) prev_line) (fun dl =>
      bind (if b_line loc =? prev_line then checked_sub (b_col loc) prev_start else Ok (b_col loc)) (fun ds =>
      bind (checked_sub (e_col loc) (b_col loc)) (fun len =>
      bind (encode (b_line loc) (b_col loc) r) (fun rest => Ok (mkTok dl ds len (s_ty loc) :: rest)))))
  end.

Definition pieces (line_chars : nat -> nat) (semtoks : list span_loc) : list span_loc :=
  sort_by_key (flat_map (split_loc line_chars) (sort_by_key semtoks)).
Definition to_deltas (line_chars : nat -> nat) (semtoks : list span_loc) : result (list sem_token) :=
  encode 0 0 (pieces line_chars semtoks).

(* ------------------------------------------------------------------ Part E: bookkeeping *)
Inductive uri (path : Type) := FileUri (p : path) | OtherUri.
Arguments FileUri {path} p.
Arguments OtherUri {path}.

Section Bookkeeping.
  Variables path analysis diag request response : Type.
  Variable path_eqb : path -> path -> bool.
  (* perform_codegen: parse + codegen of the entry point through LspParsingSource (buffers first, then disk);
     a deterministic function of what the parsing source returns *)
  Variable analyze : (path -> option text) -> analysis.
  Variable disk : path -> option text.
  Variable tree_files : analysis -> list path.           (* tree.code_map.files(); [] when there is no tree *)
  Variable diags_of : analysis -> path -> list diag.     (* to_diagnostics(ctx.error) grouped by file *)
  Variable tree_text : analysis -> path -> option text.  (* codegen.tree().files.get(path).file.source() *)
  Variable answer : analysis -> request -> response.     (* the handlers that only read tree/codegen/error *)
  Variable null : response.
  Variable rename_answer : analysis -> request -> option response.   (* RenameHandler: None = Ok(None) *)
  Variable codelens : (path -> option text) -> request -> response.  (* enumerate_test_cases(parsing_source, path) *)
  Variable prepare_answer : analysis -> request -> nat * nat -> response.   (* analysis.find(..) + the range *)
  Variable completion_answer : analysis -> request -> option text -> response.
  Variable is_alnum_non_ascii : N -> bool.

  Inductive req_kind := RPrepareRename | RCompletion | RRename | RCodeLens | ROther.

  Inductive event :=
    | DidOpen (u : uri path) (t : text)
    | DidChange (u : uri path) (t : text)
    | DidClose (u : uri path)
    | Req (k : req_kind) (u : uri path) (line col : nat) (r : request).

  (* LspParsingSource.files: HashMap<PathBuf, String> *)
  Definition buffers := list (path * text).
  Fixpoint lookup {A} (p : path) (m : list (path * A)) : option A :=
    match m with [] => None | (q, v) :: r => if path_eqb p q then Some v else lookup p r end.
  Fixpoint remove {A} (p : path) (m : list (path * A)) : list (path * A) :=
    match m with [] => [] | (q, v) :: r => if path_eqb p q then remove p r else (q, v) :: remove p r end.
  Definition insert {A} (p : path) (v : A) (m : list (path * A)) : list (path * A) := (p, v) :: remove p m.
  (* ParsingSource::get_contents *)
  Definition source (b : buffers) (p : path) : option text :=
    match lookup p b with Some t => Some t | None => disk p end.

  Record state := mkState {
    files : buffers;
    ana : analysis;                       (* tree / codegen / error of the last perform_codegen *)
    published_files : list path;
    shown : list (path * list diag);      (* client side: the list last published per file *)
    log : list (option response)          (* one entry per request, newest first; None never occurs for a live server *)
  }.

  Definition mem (p : path) (l : list path) : bool := existsb (path_eqb p) l.

  (* documents.rs::publish_diagnostics *)
  Definition publish (s : state) : state :=
    let filenames := tree_files (ana s) in
    let cleared := fold_left (fun sh f => if mem f filenames then sh else insert f [] sh) (published_files s) (shown s) in
    let sh := fold_left (fun sh f => insert f (diags_of (ana s) f) sh) filenames cleared in
    mkState (files s) (ana s) filenames sh (log s).

  Definition perform_codegen (s : state) : state :=
    mkState (files s) (analyze (source (files s))) (published_files s) (shown s) (log s).

  Definition register_document (s : state) (p : path) (t : text) : state :=
    perform_codegen (mkState (insert p t (files s)) (ana s) (published_files s) (shown s) (log s)).

  Definition respond (s : state) (r : response) : state :=
    mkState (files s) (ana s) (published_files s) (shown s) (Some r :: log s).

  Definition handle_request (s : state) (k : req_kind) (p : path) (line col : nat) (r : request) : result state :=
    match k with
    | RPrepareRename =>
        match tree_text (ana s) p with
        | None => Ok (respond s null)
        | Some src =>
            bind (prepare_rename_range is_alnum_non_ascii src line col) (fun o =>
              match o with
              | None => Ok (respond s null)
              | Some rg => Ok (respond s (prepare_answer (ana s) r rg))
              end)
        end
    | RCompletion =>
        match tree_text (ana s) p with
        | None => Ok (respond s (completion_answer (ana s) r None))
        | Some src => bind (completion_scope is_alnum_non_ascii src line col) (fun sc =>
                        Ok (respond s (completion_answer (ana s) r sc)))
        end
    | RRename =>
        (* since /repo 92ace6d the handler only reads the analysis (it no longer relabels the live symbol table) *)
        match rename_answer (ana s) r with
        | None => Ok (respond s null)
        | Some resp => Ok (respond s resp)
        end
    | RCodeLens => Ok (respond s (codelens (source (files s)) r))
    | ROther => Ok (respond s (answer (ana s) r))
    end.

  (* LspServer::handle_message; Panic = the process is gone *)
  Definition step (s : state) (e : event) : result state :=
    match e with
    | DidOpen (FileUri p) t | DidChange (FileUri p) t => Ok (publish (register_document s p t))
    | DidClose (FileUri p) =>
        Ok (publish (perform_codegen (mkState (remove p (files s)) (ana s) (published_files s) (shown s) (log s))))
    | DidOpen OtherUri _ | DidChange OtherUri _ | DidClose OtherUri => Ok s
    | Req k (FileUri p) line col r => handle_request s k p line col r
    | Req _ OtherUri _ _ _ => Ok (respond s null)
    end.

  (* LspServer::new: perform_codegen once, nothing published *)
  Definition init : state := mkState [] (analyze (source [])) [] [] [].

  Fixpoint run_from (s : state) (h : list event) : result state :=
    match h with
    | [] => Ok s
    | e :: r => bind (step s e) (fun s' => run_from s' r)
    end.
  Definition run (h : list event) : result state := run_from init h.

  Definition shown_for (s : state) (p : path) : list diag :=
    match lookup p (shown s) with Some d => d | None => [] end.
End Bookkeeping.

Arguments DidOpen {path request} u t.
Arguments DidChange {path request} u t.
Arguments DidClose {path request} u.
Arguments Req {path request} k u line col r.
Arguments files {path analysis diag response} s.
Arguments ana {path analysis diag response} s.
Arguments published_files {path analysis diag response} s.
Arguments shown {path analysis diag response} s.
Arguments log {path analysis diag response} s.
Arguments mkState {path analysis diag response} files ana published_files shown log.
Arguments lookup {path} path_eqb {A} p m.
Arguments remove {path} path_eqb {A} p m.
Arguments insert {path} path_eqb {A} p v m.
Arguments mem {path} path_eqb p l.
Arguments source {path} path_eqb disk b p.
Arguments publish {path analysis diag response} path_eqb tree_files diags_of s.
Arguments perform_codegen {path analysis diag response} path_eqb analyze disk s.
Arguments register_document {path analysis diag response} path_eqb analyze disk s p t.
Arguments respond {path analysis diag response} s r.
Arguments shown_for {path analysis diag response} path_eqb s p.
Arguments init {path analysis diag response} path_eqb analyze disk.

(* everything the bookkeeping is parameterised by, as one value (for compact theorem statements) *)
Record world := mkWorld {
  w_path : Type; w_analysis : Type; w_diag : Type; w_request : Type; w_response : Type;
  w_path_eqb : w_path -> w_path -> bool;
  w_analyze : (w_path -> option text) -> w_analysis;
  w_disk : w_path -> option text;
  w_tree_files : w_analysis -> list w_path;
  w_diags_of : w_analysis -> w_path -> list w_diag;
  w_tree_text : w_analysis -> w_path -> option text;
  w_answer : w_analysis -> w_request -> w_response;
  w_null : w_response;
  w_rename_answer : w_analysis -> w_request -> option w_response;
  w_codelens : (w_path -> option text) -> w_request -> w_response;
  w_prepare_answer : w_analysis -> w_request -> nat * nat -> w_response;
  w_completion_answer : w_analysis -> w_request -> option text -> w_response;
  w_is_alnum_non_ascii : N -> bool
}.
Definition w_state (w : world) : Type := state (w_path w) (w_analysis w) (w_diag w) (w_response w).
Definition w_event (w : world) : Type := event (w_path w) (w_request w).
Definition run_w (w : world) (h : list (w_event w)) : result (w_state w) :=
  run (w_path w) (w_analysis w) (w_diag w) (w_request w) (w_response w) (w_path_eqb w) (w_analyze w) (w_disk w)
      (w_tree_files w) (w_diags_of w) (w_tree_text w) (w_answer w) (w_null w) (w_rename_answer w) (w_codelens w)
      (w_prepare_answer w) (w_completion_answer w) (w_is_alnum_non_ascii w) h.
(* what is assumed of the abstract parts: paths have decidable equality; the analysis and the test enumeration read files
   only through the parsing source they are given *)
Definition world_ok (w : world) : Prop :=
  (forall a b, w_path_eqb w a b = true <-> a = b) /\
  (forall f g, (forall p, f p = g p) -> w_analyze w f = w_analyze w g) /\
  (forall f g r, (forall p, f p = g p) -> w_codelens w f r = w_codelens w g r).

(* Code model for C06/C04: span construction (mos-core/src/parser/code_map.rs) as far as diagnostics use it.
   A code map is a list of files laid out one after the other in one position space; spans are [low, high]. *)
From Coq Require Import List ZArith Bool.
Import ListNotations.
Open Scope Z_scope.

Record span := mkSpan { s_low : Z; s_high : Z }.
Record file := mkFile { f_low : Z; f_len : Z }.           (* the file occupies [f_low, f_low + f_len] *)
Definition f_high (f : file) : Z := f_low f + f_len f.

Inductive sp (A : Type) := SpOk (a : A) | SpPanic.
Arguments SpOk {A}. Arguments SpPanic {A}.

Definition in_file (f : file) (s : span) : bool := (f_low f <=? s_low s) && (s_low s <=? s_high s) && (s_high s <=? f_high f).

(* Span::merge: min of the lows, max of the highs *)
Definition merge (a b : span) : span := mkSpan (Z.min (s_low a) (s_low b)) (Z.max (s_high a) (s_high b)).

(* Span::subspan(begin, end): `assert!(end >= begin); assert!(self.low + end <= self.high)` *)
Definition subspan (s : span) (b e : Z) : sp span :=
  if (b <=? e) && (s_low s + e <=? s_high s) then SpOk (mkSpan (s_low s + b) (s_low s + e)) else SpPanic.

(* CodeMap::add_file: the new file starts one position after the end of the previous one *)
Definition add_file (files : list file) (len : Z) : list file * file :=
  let low := match files with [] => 0 | f :: _ => f_high f + 1 end in
  let f := mkFile low len in (f :: files, f).

(* CodeMap::find_file(pos): binary search + `.expect("Mapping unknown source location")` *)
Fixpoint find_file (files : list file) (pos : Z) : sp file :=
  match files with
  | [] => SpPanic
  | f :: r => if (f_low f <=? pos) && (pos <=? f_high f) then SpOk f else find_file r pos
  end.

(* File::find_line / look_up_span assert that both ends lie in the file found for the low end *)
Definition look_up_span (files : list file) (s : span) : sp file :=
  match find_file files (s_low s) with
  | SpPanic => SpPanic
  | SpOk f => if in_file f s then SpOk f else SpPanic
  end.

(* Code model for C20 (shutdown is clean in every session state): the lifecycle of `mos lsp` as a finite transition
   system over its threads.

   Mirrors (Rust names kept in the comments of the steps):
     mos/src/commands/lsp.rs   lsp_command: DebugServer::start, LspServer::start, DebugServer::join
     mos/src/lsp/mod.rs        LspServer::start / main_loop / handle_message("shutdown") / invoke_shutdown_handlers,
                               the end of start(): Arc::try_unwrap(ctx).ok().unwrap().join()  or  connection.take() + IoThreads::join
     lsp-server 0.5.2          stdio reader / writer threads (rendezvous channels), Connection::handle_shutdown (waits for `exit`)
     mos/src/debugger/mod.rs   DebugServer::{start (thread loop on the shutdown flag), join}, DebugSession::start
                               (DebugConnection::tcp = bind + blocking accept, add_shutdown_handler, the select loop)
   How the code is written at the five places that matter is NOT fixed here: it is read from the Rust source by
   translate/t_life.py (Gen/LifeSites.v) as a `variant`.

   Abstractions: one step = one thread doing one blocking-free piece of work; every interleaving is a path.  The stdio
   reader is folded into the main thread's receive (rendezvous channel, capacity 0).  The machine thread and the
   poller of a test run are never joined or waited for on the shutdown path, so the machine state is carried along
   but enables no step.  `bind` is assumed to succeed.  Process exit (main returns or panics) ends everything.
   No proofs in this file. *)
From Coq Require Import List Bool Arith.
Import ListNotations.

(* what the editor / the debugger front end still has to do, in this order; delivery interleaves freely with the threads *)
Inductive action := LspShutdown | LspExit | LspClose | DapDisconnect
  | DapConnect.      (* a debugger front end connects to the debug port (only used by the `reconnect` scenarios) *)
Inductive pipe_item := PShutdown | PExit | PEof.

Inductive main_pc :=
  | MLoop            (* main_loop: `for msg in &connection.receiver` *)
  | MAnalysing       (* handle_message of a notification that takes long (re-analysis of a big edit); the context lock is held *)
  | MInvokeBlockedShutdown   (* `shutdown` arm: in `sender.send(())` on a rendezvous handler channel; the context lock is held *)
  | MInvokeBlockedJoin       (* DebugServer::join: the same, inside `self.lsp.lock()` *)
  | MShutdownWait    (* handle_shutdown: response sent, recv_timeout(30 s) for `exit` *)
  | MAfterLoop       (* main_loop returned: its Arc<Connection> is gone *)
  | MIoJoinReader    (* IoThreads::join: reader.join() *)
  | MIoJoinWriter    (*                  writer.join() *)
  | MDbgJoin         (* lsp.start() returned Ok: DebugServer::join, before the flag is stored *)
  | MDbgWait         (* flag stored; waiting for / polling the debug thread *)
  | MExited (code : nat).   (* process gone: 0 = main returned Ok, 1 = main returned Err, 101 = main panicked *)

Inductive dbg_pc :=
  | DCheck           (* `while !thread_shutdown.load()` *)
  | DAccept          (* DebugSession::start -> DebugConnection::tcp: bound, blocked in accept() *)
  | DRegister        (* accepted; about to call add_shutdown_handler *)
  | DSelect          (* in the select loop *)
  | DRequest         (* inside a DAP request handler that needs the LSP context (`launch`: conn.lock_lsp()), waiting for the lock *)
  | DExited          (* thread function returned *)
  | DPanicked.       (* thread died by a panic *)

(* the DAP front end: not there / waiting in the accept queue / attached to the current session / the current session's
   peer has closed / the current session's peer (a wake-up connection) has closed and a front end waits in the queue *)
Inductive client := CNone | CPending | CConnected | CClosed | CClosedPending.
Inductive machine := MachNone | MachRunning | MachPaused.

Record state := mkState {
  st_script : list action;
  st_pipe : list pipe_item;       (* bytes written to our stdin and not yet read *)
  st_main : main_pc;
  st_reader_done : bool;          (* stdio reader thread returned (after `exit` or EOF): receiver disconnected *)
  st_writer_done : bool;
  st_ctx_conn : bool;             (* LspContext.connection still holds the Arc<Connection> (a Sender to the writer) *)
  st_tmp_conn : bool;             (* a temporary holds it (the partially moved tuple in LspContext::join) *)
  st_dbg : dbg_pc;
  st_flag : bool;                 (* DebugServer::shutdown *)
  st_registered : bool;           (* the session's Sender is in the ShutdownManager *)
  st_signalled : bool;            (* a () is waiting in the session's shutdown receiver *)
  st_client : client;
  st_wake : bool;                 (* a connection made by DebugServer::join is waiting in the accept queue *)
  st_machine : machine;
  st_poisoned : bool;             (* the debug thread panicked while it held the Mutex<LspContext>: the lock is poisoned *)
  st_expect : nat                 (* ghost: the exit status the property demands for this script *)
}.

(* how the code is written *)
Record variant := mkVariant {
  v_unwrap_ctx : bool;            (* start(): Arc::try_unwrap(self.context).ok().unwrap()  (true)  vs  connection.take() (false) *)
  v_conn_dropped_before_join : bool;   (* the Arc<Connection> is dropped before IoThreads::join *)
  v_join_wakes : bool;            (* DebugServer::join: invoke_shutdown_handlers + self-connect until the thread is finished *)
  v_select_completes : bool;      (* the shutdown arm of the select completes the selected operation (oper.recv) *)
  v_register_before_accept : bool; (* add_shutdown_handler is called before the blocking accept *)
  v_join_tolerates_dead : bool;   (* DebugServer::join logs a debug thread that died by panic instead of `expect`ing *)
  v_recovers_poison : bool;       (* the LSP side takes the context out of a poisoned lock instead of unwrapping the LockResult *)
  v_handler_rendezvous : bool     (* add_shutdown_handler: crossbeam_channel::bounded(0) (send blocks until received) vs bounded(n >= 1) *)
}.

(* strong count of Arc<Mutex<LspContext>>: LspServer + DebugServer.lsp + (thread closure + its current DebugSession) *)
Definition ctx_refs (s : state) : nat :=
  2 + match st_dbg s with DExited | DPanicked => 0 | _ => 2 end.

Definition dbg_finished (s : state) : bool :=
  match st_dbg s with DExited | DPanicked => true | _ => false end.

Definition set_main (s : state) (m : main_pc) : state :=
  mkState (st_script s) (st_pipe s) m (st_reader_done s) (st_writer_done s) (st_ctx_conn s) (st_tmp_conn s) (st_dbg s)
          (st_flag s) (st_registered s) (st_signalled s) (st_client s) (st_wake s) (st_machine s) (st_poisoned s) (st_expect s).
Definition set_dbg (s : state) (d : dbg_pc) : state :=
  mkState (st_script s) (st_pipe s) (st_main s) (st_reader_done s) (st_writer_done s) (st_ctx_conn s) (st_tmp_conn s) d
          (st_flag s) (st_registered s) (st_signalled s) (st_client s) (st_wake s) (st_machine s) (st_poisoned s) (st_expect s).

(* LspContext::invoke_shutdown_handlers: take all handlers, send () to each *)
Definition invoke_shutdown_handlers (s : state) : state :=
  if st_registered s then
    mkState (st_script s) (st_pipe s) (st_main s) (st_reader_done s) (st_writer_done s) (st_ctx_conn s) (st_tmp_conn s) (st_dbg s)
            (st_flag s) false true (st_client s) (st_wake s) (st_machine s) (st_poisoned s) (st_expect s)
  else s.

(* the Mutex<LspContext> is held by the main thread for the whole of handle_message (so also while handle_shutdown waits for
   `exit`) and while DebugServer::join invokes the handlers; the debug thread takes it only inside request handlers *)
Definition main_holds_lock (s : state) : bool :=
  match st_main s with MAnalysing | MShutdownWait | MInvokeBlockedShutdown | MInvokeBlockedJoin => true | _ => false end.

(* invoke_shutdown_handlers as seen by its caller: with a rendezvous channel `send` returns only when the session thread is
   in its select; `next` is where the caller goes on, `blocked` where it sits until then *)
Definition invoke_or_block (v : variant) (s : state) (next blocked : main_pc) : state :=
  if st_registered s && v_handler_rendezvous v && negb (match st_dbg s with DSelect => true | _ => false end)
  then set_main s blocked
  else invoke_shutdown_handlers (set_main s next).

(* ------------------------------------------------------------------ the environment *)
Definition env_steps (s : state) : list state :=
  match st_script s with
  | [] => []
  | a :: rest =>
      let base p c := mkState rest p (st_main s) (st_reader_done s) (st_writer_done s) (st_ctx_conn s) (st_tmp_conn s) (st_dbg s)
                              (st_flag s) (st_registered s) (st_signalled s) c (st_wake s) (st_machine s) (st_poisoned s) (st_expect s) in
      match a with
      | LspShutdown => [base (st_pipe s ++ [PShutdown]) (st_client s)]
      | LspExit => [base (st_pipe s ++ [PExit]) (st_client s)]
      | LspClose => [base (st_pipe s ++ [PEof]) (st_client s)]
      | DapDisconnect => [base (st_pipe s) (match st_client s with CConnected => CClosed | CPending => CNone | CClosedPending => CClosed | c => c end)]
      | DapConnect => [base (st_pipe s) (match st_client s with CNone => CPending | CClosed => CClosedPending | c => c end)]
      end
  end.

(* ------------------------------------------------------------------ the main thread *)
Definition pop_pipe (s : state) (m : main_pc) (reader_done : bool) : state :=
  mkState (st_script s) (tl (st_pipe s)) m reader_done (st_writer_done s) (st_ctx_conn s) (st_tmp_conn s) (st_dbg s)
          (st_flag s) (st_registered s) (st_signalled s) (st_client s) (st_wake s) (st_machine s) (st_poisoned s) (st_expect s).

Definition lsp_actions_left (s : state) : bool :=
  existsb (fun a => match a with DapDisconnect | DapConnect => false | _ => true end) (st_script s).

Definition main_steps (v : variant) (s : state) : list state :=
  match st_main s with
  | MLoop =>
      if st_reader_done s then [set_main s MAfterLoop]          (* receiver disconnected: the `for` loop ends *)
      else if st_poisoned s && negb (v_recovers_poison v) then
             (* handle_message: cloned_ctx.lock().unwrap() on a poisoned lock *)
             match st_pipe s with
             | [] => []
             | PEof :: _ => [pop_pipe s MLoop true]
             | _ :: _ => [pop_pipe s (MExited 101) false]
             end
      else match st_pipe s with
           | PShutdown :: _ =>
               (* handle_message: invoke_shutdown_handlers, then handle_shutdown sends the response and waits *)
               [invoke_or_block v (pop_pipe s MLoop false) MShutdownWait MInvokeBlockedShutdown]
           | PExit :: _ => [pop_pipe s MLoop true]               (* unknown notification; the reader breaks after `exit` *)
           | PEof :: _ => [pop_pipe s MLoop true]                (* Message::read -> None: the reader returns *)
           | [] => []
           end
  | MAnalysing => [set_main s MLoop]                              (* handle_message returns, the lock is released *)
  | MInvokeBlockedShutdown =>
      (* the send completes when the session receives, or fails (ignored) when its receiver is gone *)
      if negb (st_registered s) then [set_main s MShutdownWait]
      else (match st_dbg s with DSelect => [invoke_shutdown_handlers (set_main s MShutdownWait)] | _ => [] end)
  | MInvokeBlockedJoin =>
      if negb (st_registered s) then [set_main s MDbgWait]
      else (match st_dbg s with DSelect => [invoke_shutdown_handlers (set_main s MDbgWait)] | _ => [] end)
  | MShutdownWait =>
      match st_pipe s with
      | PExit :: _ => [pop_pipe s MLoop true]                    (* handle_shutdown -> Ok(true); back in the loop *)
      | PShutdown :: _ => [pop_pipe s (MExited 1) false]         (* "unexpected message during shutdown": start() -> Err *)
      | PEof :: _ => [pop_pipe s (MExited 1) true]               (* recv_timeout -> Err(Disconnected): start() -> Err *)
      | [] => if lsp_actions_left s then [] else [set_main s (MExited 1)]   (* the 30 s timeout *)
      end
  | MAfterLoop =>
      if v_unwrap_ctx v then
        if Nat.eqb (ctx_refs s) 1 then
          (* LspContext::join(self): `if let Some(io) = self.connection.unwrap().1 { io.join()? }` *)
          [mkState (st_script s) (st_pipe s) MIoJoinReader (st_reader_done s) (st_writer_done s) false
                   (negb (v_conn_dropped_before_join v)) (st_dbg s) (st_flag s) (st_registered s) (st_signalled s)
                   (st_client s) (st_wake s) (st_machine s) (st_poisoned s) (st_expect s)]
        else [set_main s (MExited 101)]                          (* .ok().unwrap() on None *)
      else if st_poisoned s && negb (v_recovers_poison v) then [set_main s (MExited 101)]   (* lock_context().unwrap() *)
      else
        (* let connection = self.lock_context().connection.take(); drop(connection) or not; io_threads.join() *)
        [mkState (st_script s) (st_pipe s) MIoJoinReader (st_reader_done s) (st_writer_done s) false
                 (negb (v_conn_dropped_before_join v)) (st_dbg s) (st_flag s) (st_registered s) (st_signalled s)
                 (st_client s) (st_wake s) (st_machine s) (st_poisoned s) (st_expect s)]
  | MIoJoinReader => if st_reader_done s then [set_main s MIoJoinWriter] else []
  | MIoJoinWriter => if st_writer_done s then [set_main s MDbgJoin] else []
  | MDbgJoin =>
      (* self.shutdown.store(true) *)
      [mkState (st_script s) (st_pipe s) MDbgWait (st_reader_done s) (st_writer_done s) (st_ctx_conn s) false (st_dbg s)
               true (st_registered s) (st_signalled s) (st_client s) (st_wake s) (st_machine s) (st_poisoned s) (st_expect s)]
  | MDbgWait =>
      match st_dbg s with
      | DExited => [set_main s (MExited 0)]                      (* thread.join() -> Ok; lsp_command returns Ok *)
      | DPanicked => [set_main s (MExited (if v_join_tolerates_dead v then 0 else 101))]   (* log  /  .expect("Could not join debugger thread") *)
      | _ =>
          if v_join_wakes v then
            (* while !thread.is_finished() { invoke_shutdown_handlers(); TcpStream::connect(port); sleep } --
               only the iterations that change something are steps *)
            (if st_registered s then [invoke_or_block v s MDbgWait MInvokeBlockedJoin] else []) ++
            (match st_dbg s with
             | DAccept => if st_wake s then [] else
                 [mkState (st_script s) (st_pipe s) (st_main s) (st_reader_done s) (st_writer_done s) (st_ctx_conn s) (st_tmp_conn s)
                          (st_dbg s) (st_flag s) (st_registered s) (st_signalled s) (st_client s) true (st_machine s) (st_poisoned s) (st_expect s)]
             | _ => []
             end)
          else []                                                 (* blocked in JoinHandle::join *)
      end
  | MExited _ => []
  end.

(* ------------------------------------------------------------------ the stdio writer thread *)
Definition writer_steps (s : state) : list state :=
  if st_writer_done s then []
  else if st_ctx_conn s || st_tmp_conn s || (match st_main s with MLoop | MAnalysing | MInvokeBlockedShutdown | MShutdownWait => true | _ => false end) then []
  else  (* every Sender is gone: writer_receiver.into_iter() ends *)
    [mkState (st_script s) (st_pipe s) (st_main s) (st_reader_done s) true (st_ctx_conn s) (st_tmp_conn s) (st_dbg s)
             (st_flag s) (st_registered s) (st_signalled s) (st_client s) (st_wake s) (st_machine s) (st_poisoned s) (st_expect s)].

(* ------------------------------------------------------------------ the debug-server thread *)
Definition end_session (s : state) : state :=     (* DebugSession dropped: its ShutdownReceiverHandle unregisters *)
  mkState (st_script s) (st_pipe s) (st_main s) (st_reader_done s) (st_writer_done s) (st_ctx_conn s) (st_tmp_conn s) DCheck
          (st_flag s) false false (match st_client s with CClosedPending => CPending | _ => CNone end) (st_wake s) (st_machine s) (st_poisoned s) (st_expect s).

Definition dbg_steps (v : variant) (s : state) : list state :=
  match st_dbg s with
  | DCheck => if st_flag s then [set_dbg s DExited]
              else if v_register_before_accept v then
                [mkState (st_script s) (st_pipe s) (st_main s) (st_reader_done s) (st_writer_done s) (st_ctx_conn s) (st_tmp_conn s) DAccept
                         (st_flag s) true false (st_client s) (st_wake s) (st_machine s) (st_poisoned s) (st_expect s)]
              else [set_dbg s DAccept]
  | DAccept =>
      (* only a connection ends the blocking accept: DebugServer::join's wake-up, or a front end *)
      (if st_wake s then
        (* the peer closes at once: the session's reader sees EOF *)
        [mkState (st_script s) (st_pipe s) (st_main s) (st_reader_done s) (st_writer_done s) (st_ctx_conn s) (st_tmp_conn s)
                 (if v_register_before_accept v then DSelect else DRegister)
                 (st_flag s) (st_registered s) (st_signalled s) (match st_client s with CPending => CClosedPending | _ => CClosed end)
                 false (st_machine s) (st_poisoned s) (st_expect s)]
      else []) ++
      (match st_client s with
       | CPending =>
           [mkState (st_script s) (st_pipe s) (st_main s) (st_reader_done s) (st_writer_done s) (st_ctx_conn s) (st_tmp_conn s)
                    (if v_register_before_accept v then DSelect else DRegister)
                    (st_flag s) (st_registered s) (st_signalled s) CConnected (st_wake s) (st_machine s) (st_poisoned s) (st_expect s)]
       | _ => []
       end) ++
      (* with the handler registered before accept, a signal can also be noticed only after accept returns: no step *)
      []
  | DRegister =>
      [mkState (st_script s) (st_pipe s) (st_main s) (st_reader_done s) (st_writer_done s) (st_ctx_conn s) (st_tmp_conn s) DSelect
               (st_flag s) true false (st_client s) (st_wake s) (st_machine s) (st_poisoned s) (st_expect s)]
  | DSelect =>
      (if st_signalled s then
         if v_select_completes v then [end_session s]
         else [set_dbg s DPanicked]          (* "dropped `SelectedOperation` without completing the operation" *)
       else []) ++
      (match st_client s with CClosed | CClosedPending => [end_session s] | _ => [] end)   (* oper.recv(receiver) -> Err: break *)
  | DRequest =>
      (* the handler gets the lock as soon as the main thread does not hold it, does its work and returns to the select loop *)
      if main_holds_lock s then [] else [set_dbg s DSelect]
  | DExited | DPanicked => []
  end.

Definition exited (s : state) : bool := match st_main s with MExited _ => true | _ => false end.

Definition step (v : variant) (s : state) : list state :=
  if exited s then [] else env_steps s ++ main_steps v s ++ writer_steps s ++ dbg_steps v s.

(* ------------------------------------------------------------------ scenarios *)
(* spec: the exit status the property demands, from the LSP part of the script alone *)
Fixpoint spec_exit_code (script : list action) : nat :=
  match script with
  | [] => 0
  | LspClose :: _ => 0
  | LspExit :: _ => 0
  | DapDisconnect :: t | DapConnect :: t => spec_exit_code t
  | LspShutdown :: t =>
      (fix after (t : list action) : nat :=
         match t with
         | [] => 1                         (* no `exit` within lsp-server's 30 s: an error, status 1 *)
         | LspExit :: _ => 0
         | LspClose :: _ => 1
         | LspShutdown :: _ => 1
         | DapDisconnect :: t' | DapConnect :: t' => after t'
         end) t
  end.

Definition initial (attached : bool) (m : machine) (script : list action) : state :=
  mkState script [] MLoop false false true false
          (if attached then DSelect else DAccept) false attached false
          (if attached then CConnected else CNone) false m false (spec_exit_code script).
(* the debug-server thread has already died by a panic (e.g. in a request handler), possibly while it held the context lock *)
Definition initial_dead (poisoned : bool) (script : list action) : state :=
  mkState script [] MLoop false false true false DPanicked false false false CNone false MachNone poisoned (spec_exit_code script).

Definition has_lsp_action (script : list action) : bool :=
  existsb (fun a => match a with DapDisconnect | DapConnect => false | _ => true end) script.

(* every sequence without repetition over the four actions that contains an LSP action *)
Definition action_eqb (a b : action) : bool :=
  match a, b with
  | LspShutdown, LspShutdown | LspExit, LspExit | LspClose, LspClose | DapDisconnect, DapDisconnect | DapConnect, DapConnect => true
  | _, _ => false
  end.
Definition all_actions : list action := [LspShutdown; LspExit; LspClose; DapDisconnect].
Fixpoint seqs_exact (n : nat) : list (list action) :=
  match n with
  | O => [[]]
  | S k => flat_map (fun t => map (fun a => a :: t) (filter (fun a => negb (existsb (action_eqb a) t)) all_actions)) (seqs_exact k)
  end.
Definition all_scripts : list (list action) :=
  filter has_lsp_action (seqs_exact 1 ++ seqs_exact 2 ++ seqs_exact 3 ++ seqs_exact 4).
(* the `reconnect` scenarios: a front end connects at some point while the editor shuts down *)
Definition actions_with_connect : list action := [LspShutdown; LspExit; LspClose; DapDisconnect; DapConnect].
Fixpoint seqs_exact5 (n : nat) : list (list action) :=
  match n with
  | O => [[]]
  | S k => flat_map (fun t => map (fun a => a :: t) (filter (fun a => negb (existsb (action_eqb a) t)) actions_with_connect)) (seqs_exact5 k)
  end.
Definition reconnect_scripts : list (list action) :=
  filter (fun sc => has_lsp_action sc && existsb (action_eqb DapConnect) sc) (seqs_exact5 2 ++ seqs_exact5 3 ++ seqs_exact5 4).
Definition reconnect_initial : list state :=
  flat_map (fun sm => map (initial (fst sm) (snd sm)) reconnect_scripts) [(false, MachNone); (true, MachNone)].
Definition all_machines : list machine := [MachNone; MachRunning; MachPaused].
(* the session states of the property: no debugger / attached and idle / test running / test paused *)
Definition session_states : list (bool * machine) :=
  [(false, MachNone); (true, MachNone); (true, MachRunning); (true, MachPaused)].
(* a debugger is attached and its `launch` request is in flight: the session thread waits for the context lock, which the
   main thread holds while it re-analyses a big edit; the editor's script starts now *)
Definition initial_launch (script : list action) : state :=
  mkState script [] MAnalysing false false true false DRequest false true false CConnected false MachNone false (spec_exit_code script).
Definition live_initial : list state :=
  flat_map (fun sm => map (initial (fst sm) (snd sm)) all_scripts) session_states.
Definition all_initial : list state :=
  live_initial ++
  map (initial_dead false) all_scripts ++ map (initial_dead true) all_scripts.
(* swept separately (proofs/LifeProofs3.v): the seventh session state, a `launch` in flight *)
Definition launch_initial : list state := map initial_launch all_scripts.

Definition clean_exit (s : state) : bool :=
  match st_main s with MExited c => Nat.eqb c (st_expect s) | _ => false end.

(* the code as it was on the pinned tree, the intermediate repairs, and the complete repair *)
Definition v_pinned : variant := mkVariant true false false false false false false false.
Definition v_take_only : variant := mkVariant false false false false false false false false.       (* unwrap replaced, nothing else *)
Definition v_take_drop : variant := mkVariant false true false false false false false false.        (* + sender dropped before the IO join *)
Definition v_take_drop_wake : variant := mkVariant false true true false false false false false.    (* + join wakes the thread *)
Definition v_first_repair : variant := mkVariant false true true true false false false false.       (* + select arm completes (051876a) *)
Definition v_repaired : variant := mkVariant false true true true false true true false.             (* + dead thread / poisoned lock tolerated *)
(* everything except the wake-up, with the shutdown handler registered before the blocking accept instead *)
Definition v_register_first : variant := mkVariant false true false true true true true false.
(* the repaired code with a rendezvous handler channel *)
Definition v_rendezvous : variant := mkVariant false true true true false true true true.

(* Code model: mos-core/src/codegen/source_map.rs (SourceMap: add, address_to_offset, line_col_to_offsets, move_offsets)
   and the part of parser/code_map.rs it uses (File: lines, find_line, find_line_col, num_lines; CodeMap: look_up_span).

   Abstractions (stated in design.d/C11.md):
   - a Span is (file name, byte offset lo, byte offset hi) within that file; the Rust CodeMap numbers positions globally
     (file k occupies low_k ..= high_k with low_k = high_(k-1) + 1) and `find_file` recovers the file from `span.low`;
     that partition is not re-modelled, the file is carried in the span;
   - names (files, segments) are numbers (injective renaming by the harness); SymbolIndex is a number;
   - File::find_line is a binary search on the strictly increasing table of line starts: Ok(i) => i, Err(i) => i - 1,
     i.e. (number of line starts <= pos) - 1; it is modelled by that count;
   - the Rust code panics (assert!/expect/index) on positions outside the file; the model returns Panic there. *)
From Coq Require Import List NArith ZArith Bool Arith.
Import ListNotations.
Open Scope Z_scope.

Inductive res (A : Type) : Type := Ok (a : A) | Panic.
Arguments Ok {A} a.
Arguments Panic {A}.

Definition bind {A B} (r : res A) (f : A -> res B) : res B := match r with Ok a => f a | Panic => Panic end.

Fixpoint filterM {A} (p : A -> res bool) (l : list A) : res (list A) :=
  match l with
  | [] => Ok []
  | x :: r => bind (p x) (fun b => bind (filterM p r) (fun r' => Ok (if b then x :: r' else r')))
  end.

Fixpoint mapM {A B} (f : A -> res B) (l : list A) : res (list B) :=
  match l with
  | [] => Ok []
  | x :: r => bind (f x) (fun y => bind (mapM f r) (fun r' => Ok (y :: r')))
  end.

(* ------------------------------------------------------------------ code_map.rs *)
Record file := mkFile { f_name : N; f_src : list N (* UTF-8 bytes *) }.

(* add_file: lines = low :: [ low + p + 1 | source[p] = '\n' ] *)
Fixpoint line_starts (src : list N) (pos : Z) : list Z :=
  match src with
  | [] => []
  | c :: r => if N.eqb c 10 then (pos + 1) :: line_starts r (pos + 1) else line_starts r (pos + 1)
  end.
Definition lines (f : file) : list Z := 0 :: line_starts (f_src f) 0.
Definition num_lines (f : file) : nat := length (lines f).
Definition file_len (f : file) : Z := Z.of_nat (length (f_src f)).

Definition find_line_tbl (tbl : list Z) (pos : Z) : nat := pred (length (filter (fun l => l <=? pos) tbl)).

(* File::find_line: assert!(pos >= span.low); assert!(pos <= span.high) *)
Definition find_line (f : file) (pos : Z) : res nat :=
  if (0 <=? pos) && (pos <=? file_len f) then Ok (find_line_tbl (lines f) pos) else Panic.

Record line_col := mkLC { lc_line : nat; lc_column : nat }.

(* a char starts at every byte that is not a UTF-8 continuation byte (10xxxxxx) *)
Definition is_char_start (b : N) : bool := negb (N.eqb (N.land b 192) 128).

(* File::find_line_col: column = number of chars of the line before pos *)
Definition find_line_col (f : file) (pos : Z) : res line_col :=
  bind (find_line f pos) (fun line =>
    let low := nth line (lines f) 0 in
    let before := firstn (Z.to_nat (pos - low)) (skipn (Z.to_nat low) (f_src f)) in
    Ok (mkLC line (length (filter is_char_start before)))).

Record span := mkSpan { sp_file : N; sp_lo : Z; sp_hi : Z }.
Record span_loc := mkSL { sl_file : N; sl_begin : line_col; sl_end : line_col }.

Definition code_map := list file.       (* CodeMap::files(), in the order the files were added *)

Fixpoint find_file (cm : code_map) (name : N) : res file :=
  match cm with
  | [] => Panic                          (* .expect("Mapping unknown source location") *)
  | f :: r => if N.eqb (f_name f) name then Ok f else find_file r name
  end.

(* CodeMap::look_up_span *)
Definition look_up_span (cm : code_map) (s : span) : res span_loc :=
  bind (find_file cm (sp_file s)) (fun f =>
  bind (find_line_col f (sp_lo s)) (fun b =>
  bind (find_line_col f (sp_hi s)) (fun e =>
  Ok (mkSL (f_name f) b e)))).

(* ------------------------------------------------------------------ source_map.rs *)
Record offset := mkOffset {
  o_scope : N;            (* scope: SymbolIndex *)
  o_span : span;
  o_pc0 : Z;              (* pc.start: TARGET address of the first byte *)
  o_pc1 : Z;              (* pc.end *)
  o_segment : N           (* the segment the bytes were emitted to *)
}.
Definition source_map := list offset.   (* offsets, in emission order *)

Definition add (sm : source_map) (scope : N) (sp : span) (segment : N) (pc : Z) (len : nat) : source_map :=
  sm ++ [mkOffset scope sp pc (pc + Z.of_nat len) segment].

Definition address_to_offset (sm : source_map) (pc : Z) : option offset :=
  find (fun o => (o_pc0 o <=? pc) && (pc <? o_pc1 o)) sm.

(* the closure of line_col_to_offsets *)
Definition matches_line_col (cm : code_map) (filename : N) (line : nat) (column : option nat) (o : offset) : res bool :=
  bind (look_up_span cm (o_span o)) (fun sl =>
  let bl := lc_line (sl_begin sl) in let el := lc_line (sl_end sl) in
  let bc := lc_column (sl_begin sl) in let ec := lc_column (sl_end sl) in
  if negb (N.eqb (sl_file sl) filename) then Ok false
  else if (bl <? line)%nat && (line <? el)%nat then Ok true
  else match column with
       | Some column =>
           if (line =? bl)%nat && (line =? el)%nat then Ok ((bc <=? column)%nat && (column <? ec)%nat)
           else Ok (((line =? bl)%nat && (bc <=? column)%nat) || ((line =? el)%nat && (column <? ec)%nat))
       | None => Ok (line =? bl)%nat
       end).

Definition line_col_to_offsets (sm : source_map) (cm : code_map) (filename : N) (line : nat) (column : option nat)
  : res (list offset) :=
  filterM (matches_line_col cm filename line column) sm.

(* move_offsets(first, new_scope, new_span): offsets.iter_mut().skip(first).for_each(...) *)
Definition retarget (new_scope : N) (new_span : span) (o : offset) : offset :=
  mkOffset new_scope new_span (o_pc0 o) (o_pc1 o) (o_segment o).
Definition move_offsets (sm : source_map) (first : nat) (new_scope : N) (new_span : span) : source_map :=
  firstn first sm ++ map (retarget new_scope new_span) (skipn first sm).

(* Code model: codegen/segment.rs and codegen/program_counter.rs.
   ProgramCounter is a usize; the 64 KiB `data` vector is kept as the log of writes (newest first): the byte at an
   address is that of the newest write covering it, 0 where nothing was written (`[0; 65536]`).  `splice(start..end,
   bytes)` with end - start = len(bytes) overwrites in place, so the log is an exact representation. *)
From Coq Require Import List NArith ZArith Bool.
Import ListNotations.
From Mos Require Import model.SymTab model.Encode Gen.CodegenConsts.
Open Scope Z_scope.

Record segment_options := mkSegOpts {
  so_bank : option ident;
  so_initial_pc : Z;          (* usize *)
  so_write : bool;
  so_target_address : Z       (* usize *)
}.
(* SegmentOptions::default() *)
Definition default_segment_options : segment_options :=
  mkSegOpts None segment_default_initial_pc true segment_default_target_address.

Record segment := mkSeg {
  g_pc : Z;                               (* usize *)
  g_has_data : bool;                      (* !data.is_empty() *)
  g_writes : list (Z * list N);           (* (start, bytes), newest first *)
  g_range : Z * Z;                        (* Range<usize> *)
  g_options : segment_options
}.

Definition seg_new (o : segment_options) : segment :=
  mkSeg (so_initial_pc o) false [] (so_initial_pc o, so_initial_pc o) o.

Definition seg_reset (s : segment) : segment :=
  let pc := so_initial_pc (g_options s) in mkSeg pc false [] (pc, pc) (g_options s).

Definition seg_set_pc (s : segment) (pc : Z) : segment :=
  mkSeg (as_usize pc) (g_has_data s) (g_writes s) (g_range s) (g_options s).

(* target_address.as_i64() - initial_pc.as_i64(); None where the dev build panics on overflow *)
Definition target_offset (s : segment) : option Z :=
  let d := usize_as_i64 (so_target_address (g_options s)) - usize_as_i64 (so_initial_pc (g_options s)) in
  if in_i64 d then Some d else None.

(* ((pc.as_i64() + target_offset()) as usize) *)
Definition target_pc (s : segment) : option Z :=
  match target_offset s with
  | None => None
  | Some off => let v := usize_as_i64 (g_pc s) + off in if in_i64 v then Some (as_usize v) else None
  end.

Inductive emit_res := EmitOk (s : segment) | EmitOutOfRange | EmitPanic.

Definition seg_emit (s : segment) (bytes : list N) : emit_res :=
  let start := g_pc s in
  let e := start + Z.of_nat (List.length bytes) in
  if two64 <=? e then EmitPanic                          (* `self.pc + bytes.len()` overflows usize *)
  else if (emit_start_limit <? start) || (emit_end_limit <? e) then EmitOutOfRange
  else
    let first := negb (g_has_data s) in
    let lo := if (start <? fst (g_range s)) || first then start else fst (g_range s) in
    let hi := if (snd (g_range s) <? e) || first then e else snd (g_range s) in
    EmitOk (mkSeg e true ((start, bytes) :: g_writes s) (lo, hi) (g_options s)).

(* data[a] *)
Fixpoint byte_at (ws : list (Z * list N)) (a : Z) : N :=
  match ws with
  | [] => 0%N
  | (st, bs) :: r =>
      if (st <=? a) && (a <? st + Z.of_nat (List.length bs)) then nth (Z.to_nat (a - st)) bs 0%N else byte_at r a
  end.

(* range_data(): empty when nothing was ever emitted, else data[range] *)
Fixpoint bytes_from (ws : list (Z * list N)) (a : Z) (n : nat) : list N :=
  match n with
  | O => []
  | S k => byte_at ws a :: bytes_from ws (a + 1) k
  end.
Definition range_data (s : segment) : list N :=
  if g_has_data s then bytes_from (g_writes s) (fst (g_range s)) (Z.to_nat (snd (g_range s) - fst (g_range s))) else [].

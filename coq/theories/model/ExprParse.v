(* Code model: the expression grammar of parser/mod.rs at character level
   (number, fn_call, identifier_value, current_pc, expression_parens, interpolated_string_factor,
    expression_factor, expression_term, expression) with single-line trivia (ws).
   The operator tables and the factor alternative order come from Gen/ExprGrammar.v. *)
From Coq Require Import List NArith ZArith Bool.
Import ListNotations.
From Mos Require Import model.I64 Gen.BinOps Gen.ExprGrammar model.Expr.
Open Scope N_scope.

Definition is_space (c : N) : bool := (c =? 32) || (c =? 9).
Definition is_digit (c : N) : bool := (48 <=? c) && (c <=? 57).
Definition is_alpha (c : N) : bool := ((65 <=? c) && (c <=? 90)) || ((97 <=? c) && (c <=? 122)).
Definition is_alnum (c : N) : bool := is_alpha c || is_digit c.
Definition is_hex (c : N) : bool := is_digit c || ((65 <=? c) && (c <=? 70)) || ((97 <=? c) && (c <=? 102)).
Definition is_bin (c : N) : bool := (c =? 48) || (c =? 49).
Definition is_eol (c : N) : bool := (c =? 10) || (c =? 13).
Definition to_lower (c : N) : N := if (65 <=? c) && (c <=? 90) then c + 32 else c.

Fixpoint take_while (p : N -> bool) (s : text) : text * text :=
  match s with
  | c :: r => if p c then let '(a, b) := take_while p r in (c :: a, b) else ([], s)
  | [] => ([], [])
  end.

(* tag / tag_no_case (ASCII tags) *)
Fixpoint tag (t : text) (s : text) : option text :=
  match t, s with
  | [], _ => Some s
  | x :: t', c :: s' => if c =? x then tag t' s' else None
  | _ :: _, [] => None
  end.
Fixpoint tag_no_case (t : text) (s : text) : option (text * text) :=
  match t, s with
  | [], _ => Some ([], s)
  | x :: t', c :: s' => if to_lower c =? x then
                          match tag_no_case t' s' with Some (m, r) => Some (c :: m, r) | None => None end
                        else None
  | _ :: _, [] => None
  end.

(* the parser's own tag_no_case for a keyword that starts with a letter: the keyword must end at a word boundary
   (`trueval` is an identifier, not `true` followed by `val`) *)
Definition tag_no_case_word (t : text) (s : text) : option (text * text) :=
  match tag_no_case t s with
  | Some (m, r) =>
      match r with
      | c :: _ => if is_alnum c || (c =? 95) then None else Some (m, r)
      | [] => Some (m, r)
      end
  | None => None
  end.

(* c_comment: nested /* */; an unterminated comment swallows the rest of the input *)
Fixpoint c_comment_body (depth : nat) (s : text) : text :=
  match s with
  | [] => []
  | 47 :: 42 :: r => c_comment_body (S depth) r
  | 42 :: 47 :: r => match depth with O => r | S d => c_comment_body d r end
  | _ :: r => c_comment_body depth r
  end.

(* one trivia item: space1 | c_comment | cpp_comment (needs at least one character after //) *)
Definition trivia_item (s : text) : option text :=
  match s with
  | c :: r =>
      if is_space c then Some (snd (take_while is_space s))
      else match s with
           | 47 :: 42 :: r' => Some (c_comment_body 0 r')
           | 47 :: 47 :: c' :: r' => if is_eol c' then None else Some (snd (take_while (fun x => negb (is_eol x)) (c' :: r')))
           | _ => None
           end
  | [] => None
  end.

Fixpoint skip_trivia (fuel : nat) (s : text) : text :=
  match fuel with
  | O => s
  | S f => match trivia_item s with Some r => skip_trivia f r | None => s end
  end.
(* ws(p): optional single-line trivia, then p *)
Definition ws (s : text) : text := skip_trivia (length s) s.

Definition char_ (c : N) (s : text) : option text :=
  match s with x :: r => if x =? c then Some r else None | [] => None end.

(* identifier_name *)
Definition identifier_name (s : text) : option (text * text) :=
  match s with
  | c :: r => if is_alpha c || (c =? 95) then
                let '(a, b) := take_while (fun x => is_alnum x || (x =? 95)) r in Some (c :: a, b)
              else None
  | [] => None
  end.
(* identifier_scope: '-' or '+' not followed by an alphanumeric *)
Definition identifier_scope (s : text) : option (text * text) :=
  match s with
  | c :: r => if (c =? 45) || (c =? 43) then
                match r with
                | d :: _ => if is_alnum d then None else Some ([c], r)
                | [] => Some ([c], r)
                end
              else None
  | [] => None
  end.
Definition path_elem (s : text) : option (text * text) :=
  match identifier_scope s with Some x => Some x | None => identifier_name s end.
(* separated_list1(char('.'), elem) *)
Fixpoint path_rest (fuel : nat) (s : text) : list text * text :=
  match fuel with
  | O => ([], s)
  | S f => match char_ 46 s with
           | Some r => match path_elem r with
                       | Some (e, r') => let '(es, r'') := path_rest f r' in (e :: es, r'')
                       | None => ([], s)
                       end
           | None => ([], s)
           end
  end.
Definition identifier_path (s : text) : option (list text * text) :=
  match path_elem (ws s) with
  | Some (e, r) => let '(es, r') := path_rest (length r) r in Some (e :: es, r')
  | None => None
  end.

(* number *)
Definition many1 (p : N -> bool) (s : text) : option (text * text) :=
  match take_while p s with ([], _) => None | (a, b) => Some (a, b) end.
Definition t_true_tag : text := [116; 114; 117; 101].
Definition t_false_tag : text := [102; 97; 108; 115; 101].
Definition number (s : text) : option ((bool -> bool -> expr) * text) :=
  let hexp := match char_ 36 (ws s) with
              | Some r => match many1 is_hex (ws r) with Some (d, r') => Some (ENum 16 d, r') | None => None end
              | None => None end in
  match hexp with Some x => Some x | None =>
  let binp := match char_ 37 (ws s) with
              | Some r => match many1 is_bin (ws r) with Some (d, r') => Some (ENum 2 d, r') | None => None end
              | None => None end in
  match binp with Some x => Some x | None =>
  match many1 is_digit (ws s) with Some (d, r') => Some (ENum 10 d, r') | None =>
  match tag_no_case_word t_true_tag (ws s) with Some (d, r') => Some (ENum 10 d, r') | None =>
  match tag_no_case_word t_false_tag (ws s) with Some (d, r') => Some (ENum 10 d, r') | None => None
  end end end end end.

(* interpolated_string *)
Definition is_str_char (c : N) : bool := negb ((c =? 123) || (c =? 125) || (c =? 34) || (c =? 13) || (c =? 10)).
Fixpoint string_items (fuel : nat) (s : text) : list stritem * text :=
  match fuel with
  | O => ([], s)
  | S f =>
      match many1 is_str_char s with
      | Some (lit, r) => let '(items, r') := string_items f r in (SLit lit :: items, r')
      | None =>
          match char_ 123 s with
          | Some r => match identifier_path r with
                      | Some (p, r') => match char_ 125 r' with
                                        | Some r'' => let '(items, r3) := string_items f r'' in (SPath p :: items, r3)
                                        | None => ([], s)
                                        end
                      | None => ([], s)
                      end
          | None => ([], s)
          end
      end
  end.
Definition interpolated_string (s : text) : option (list stritem * text) :=
  match char_ 34 (ws s) with
  | Some r => let '(items, r') := string_items (length r) r in
              match char_ 34 r' with Some r'' => Some (items, r'') | None => None end
  | None => None
  end.

(* first table entry whose tag is a prefix of the input *)
Fixpoint match_op (table : list (text * binop)) (s : text) : option (binop * text) :=
  match table with
  | [] => None
  | (t, op) :: rest => match tag t s with Some r => Some (op, r) | None => match_op rest s end
  end.

(* address modifier in front of an identifier: '<' low byte, '>' high byte; w = input after trivia, s = input *)
Definition split_modifier (w s : text) : option modifier * text :=
  match w with
  | 60 :: r => (Some LowByte, r)
  | 62 :: r => (Some HighByte, r)
  | _ => (None, s)
  end.

Section WithExpression.
  Variable p_expr : text -> option (expr * text).

  (* arg_list: many0(tuple((ws(item), ws(',')))) then ws(item) *)
  Fixpoint arg_pairs (fuel : nat) (s : text) : list expr * text :=
    match fuel with
    | O => ([], s)
    | S f => match p_expr (ws s) with
             | Some (e, r) => match char_ 44 (ws r) with
                              | Some r' => let '(es, r'') := arg_pairs f r' in (e :: es, r'')
                              | None => ([], s)
                              end
             | None => ([], s)
             end
    end.
  Definition arg_list (s : text) : option (list expr * text) :=
    let '(es, r) := arg_pairs (length s) s in
    match p_expr (ws r) with
    | Some (e, r') => Some (es ++ [e], r')
    | None => None
    end.

  Definition fn_call (s : text) : option ((bool -> bool -> expr) * text) :=
    match identifier_name (ws s) with
    | Some (name, r) =>
        match char_ 40 (ws r) with
        | Some r1 =>
            let '(args, r2) := match arg_list r1 with Some (a, r2) => (a, r2) | None => ([], r1) end in
            match char_ 41 (ws r2) with
            | Some r3 => Some (ECall name args, r3)
            | None => None
            end
        | None => None
        end
    | None => None
    end.

  Definition identifier_value (s : text) : option ((bool -> bool -> expr) * text) :=
    let '(m, r) := split_modifier (ws s) s in
    match identifier_path (ws r) with
    | Some (p, r') => Some (EId p m, r')
    | None => None
    end.

  Definition current_pc (s : text) : option ((bool -> bool -> expr) * text) :=
    match char_ 42 (ws s) with Some r => Some (EPc, r) | None => None end.

  Definition expression_parens (s : text) : option ((bool -> bool -> expr) * text) :=
    match char_ 40 (ws s) with
    | Some r => match p_expr r with
                | Some (e, r') => match char_ 41 (ws r') with Some r'' => Some (EParens e, r'') | None => None end
                | None => None
                end
    | None => None
    end.

  Definition string_factor (s : text) : option ((bool -> bool -> expr) * text) :=
    match interpolated_string s with Some (items, r) => Some (EStr items, r) | None => None end.

  Definition factor_alt (k : factor_kind) : text -> option ((bool -> bool -> expr) * text) :=
    match k with
    | K_number => number
    | K_fn_call => fn_call
    | K_identifier_value => identifier_value
    | K_current_pc => current_pc
    | K_expression_parens => expression_parens
    | K_interpolated_string_factor => string_factor
    end.

  Fixpoint alt_first (ks : list factor_kind) (s : text) : option ((bool -> bool -> expr) * text) :=
    match ks with
    | [] => None
    | k :: r => match factor_alt k s with Some x => Some x | None => alt_first r s end
    end.
  Definition expression_factor_inner := alt_first factor_alternatives.

  (* ws(alt(( inner without flags, tuple((opt(ws('!')), opt(ws('-')), inner)) ))) *)
  Definition expression_factor (s0 : text) : option (expr * text) :=
    let s := ws s0 in
    match expression_factor_inner s with
    | Some (mk, r) => Some (mk false false, r)
    | None =>
        let '(fnot, s1) := match char_ 33 (ws s) with Some r => (true, r) | None => (false, s) end in
        let '(fneg, s2) := match char_ 45 (ws s1) with Some r => (true, r) | None => (false, s1) end in
        match expression_factor_inner s2 with
        | Some (mk, r) => Some (mk fnot fneg, r)
        | None => None
        end
    end.

  (* many0(tuple((ws(alt(ops)), lower))) folded to the left *)
  Fixpoint fold_ops (fuel : nat) (table : list (text * binop)) (lower : text -> option (expr * text))
           (acc : expr) (s : text) : expr * text :=
    match fuel with
    | O => (acc, s)
    | S f => match match_op table (ws s) with
             | Some (op, r) => match lower r with
                               | Some (e, r') => fold_ops f table lower (EBin op acc e) r'
                               | None => (acc, s)
                               end
             | None => (acc, s)
             end
    end.

  Definition expression_term (s : text) : option (expr * text) :=
    match expression_factor s with
    | Some (e, r) => Some (fold_ops (length r) tight_ops expression_factor e r)
    | None => None
    end.

  Definition expression_body (s : text) : option (expr * text) :=
    match expression_term s with
    | Some (e, r) => Some (fold_ops (length r) loose_ops expression_term e r)
    | None => None
    end.
End WithExpression.

Fixpoint expression (fuel : nat) (s : text) : option (expr * text) :=
  match fuel with
  | O => None
  | S f => expression_body (expression f) s
  end.

Definition parse_expression (s : text) : option (expr * text) := expression (S (length s)) s.

(* Code model: codegen/mod.rs -- CodegenContext, add_symbol, emit, emit_token (every Token arm), with_scope,
   evaluate_expression*, register_all_segment_symbols, next_pass and the pass loop of codegen().
   Rust names are kept.  State-and-error monad over `ctx`: `Err` is the Rust `Err(Diagnostics)` (the context keeps
   every mutation made before the error, as the &mut self code does), `Abort` marks what the model does not follow:
   a dev-build panic, an unmodelled construct, exhausted fuel, an unbounded parent chain.
   Ghost state (never read by the model): g_vch counts value changes of `.var` symbols, g_trace logs symbol writes,
   expression evaluations and emissions of the current pass. *)
From Coq Require Import List NArith ZArith Bool PeanoNat.
Import ListNotations.
From Mos Require Import model.I64 Gen.BinOps model.Expr Gen.OpcodeTable spec.Isa model.Encode.
From Mos Require Import model.SymTab Gen.CodegenConsts model.Segment.
Open Scope Z_scope.

(* ------------------------------------------------------------------ syntax (parser/ast.rs: Token) *)
Definition span := (Z * Z)%type.                       (* absolute byte offsets in the code map *)
Definition span_eqb (a b : span) : bool := Z.eqb (fst a) (fst b) && Z.eqb (snd a) (snd b).
Definition ospan_eqb (a b : option span) : bool :=
  match a, b with None, None => true | Some x, Some y => span_eqb x y | _, _ => false end.

(* Located<Expression>: the tree, its span, and the spans of the identifier paths it looks up (in evaluation order;
   `defined(..)` evaluates its argument without usage tracking, so paths below it are not listed) *)
Record lexpr := mkL { le_expr : expr; le_span : span; le_ids : list span }.

Inductive vartype := VConst | VVar.
Inductive textenc := EncAscii | EncOther.

(* ConfigPair: key, key span, the value when it is an expression, span of the value *)
Record cfgpair := mkPair { cp_key : text; cp_kspan : span; cp_value : option lexpr; cp_vspan : span }.

Inductive import_args :=
  | ImportAll (star : span) (as_ : option (ipath * span))
  | ImportSpecific (items : list (ipath * option ipath * span)).

Inductive token :=
  | TAlign (value : lexpr)
  | TBraces (scope : ident) (b : block)
  | TData (size : nat) (values : list lexpr)
  | TDefine (id : text) (idspan : span) (cfg : option (list cfgpair))
  | TIf (value : lexpr) (if_ : block) (else_ : option block)
  | TImport (args : import_args) (import_scope : ident) (b : option block) (file : option (list token))
  | TInstr (m : mnemonic) (mspan : span) (operand : option (lexpr * form))
  | TLabel (id : ident) (idspan : span) (b : option block)
  | TLoop (e : lexpr) (loop_scope : ident) (b : block)
  | TMacroDef (id : ident) (idspan : span) (args : list (ident * span)) (b : block)
  | TInvoke (id : ident) (idspan : span) (args : list lexpr)
  | TPc (value : lexpr)
  | TSegment (id : lexpr) (b : option block)
  | TTest (id : lexpr) (b : block)
  | TText (enc : textenc) (txt : lexpr)
  | TVarDef (ty : vartype) (id : ident) (idspan : span) (value : lexpr)
  | TNop                                   (* Assert / Trace without an active test, Eof, Error, bare tokens: `_ => {}` *)
  | TUnsupported                           (* File, bank definitions: not modelled *)
with block := Blk (lparen rparen : span) (inner : list token).

Definition blk_inner (b : block) : list token := match b with Blk _ _ i => i end.
Definition blk_lparen (b : block) : span := match b with Blk l _ _ => l end.
Definition blk_rparen (b : block) : span := match b with Blk _ r _ => r end.

(* ------------------------------------------------------------------ symbols *)
Inductive symtype := TyLabel | TyTestCase | TyMacroArgument | TyConstant | TyVariable.
Definition symtype_eqb (a b : symtype) : bool :=
  match a, b with
  | TyLabel, TyLabel | TyTestCase, TyTestCase | TyMacroArgument, TyMacroArgument
  | TyConstant, TyConstant | TyVariable, TyVariable => true
  | _, _ => false
  end.

Inductive sdata :=
  | SDNum (z : Z)
  | SDStr (s : text)
  | SDPlaceholder
  | SDMacro (defspan : span) (args : list (ident * span)) (body : list token).

(* `existing.data != symbol.data`; two macro definitions are compared by their definition site *)
Definition sdata_eqb (a b : sdata) : bool :=
  match a, b with
  | SDNum x, SDNum y => Z.eqb x y
  | SDStr x, SDStr y => text_eqb x y
  | SDPlaceholder, SDPlaceholder => true
  | SDMacro s1 _ _, SDMacro s2 _ _ => span_eqb s1 s2
  | _, _ => false
  end.

Record symbol := mkSym {
  s_pass : nat; s_span : option span; s_segment : option ident; s_data : sdata; s_ty : symtype }.
Definition read_only (s : symbol) : bool := negb (symtype_eqb (s_ty s) TyVariable).

Definition to_symdata (d : sdata) : symdata :=
  match d with SDNum z => DNum z | SDStr s => DStr s | SDPlaceholder => DPlaceholder | SDMacro _ _ _ => DMacro end.

(* ------------------------------------------------------------------ diagnostics *)
Inductive dkind :=
  | DRedefine | DSegmentRange | DUnknownDefinition | DFieldNotAllowed | DMissingFields | DConfigKey
  | DBranchTooFar | DInvalidInstruction | DUnknownIdentifier | DNotInteger | DNotString
  | DEval (e : everr) | DImportDefined | DAlign | DInvalidName | DNotConverged
  | DSegmentHasCode   (* `.define segment` of a segment that already received bytes in this pass (they would be lost) *)
  | DPcRange.     (* C06: `* =` / segment start / pc outside 0..$10000, or a relocated address below 0 *)
Record diag := mkDiag { d_kind : dkind; d_span : option span; d_path : ipath; d_nums : list Z }.

Definition binop_eqb (a b : binop) : bool :=
  match a, b with
  | Add, Add | Sub, Sub | Mul, Mul | Div, Div | Mod, Mod | Shl, Shl | Shr, Shr | Xor, Xor
  | Eq, Eq | Ne, Ne | Gt, Gt | GtEq, GtEq | Lt, Lt | LtEq, LtEq | BinOps.And, BinOps.And | Or, Or => true
  | _, _ => false
  end.
Definition everr_eqb (a b : everr) : bool :=
  match a, b with
  | ErrStrOp x, ErrStrOp y => binop_eqb x y
  | ErrUnknownFunction x, ErrUnknownFunction y => text_eqb x y
  | ErrArgCount, ErrArgCount | ErrInterpolate, ErrInterpolate | ErrNegOverflow, ErrNegOverflow | ErrLiteral, ErrLiteral => true
  | ErrOverflow x, ErrOverflow y => binop_eqb x y
  | ErrMixedOp x, ErrMixedOp y => binop_eqb x y
  | _, _ => false
  end.
Definition dkind_eqb (a b : dkind) : bool :=
  match a, b with
  | DRedefine, DRedefine | DSegmentRange, DSegmentRange | DUnknownDefinition, DUnknownDefinition
  | DFieldNotAllowed, DFieldNotAllowed | DMissingFields, DMissingFields | DConfigKey, DConfigKey
  | DBranchTooFar, DBranchTooFar | DInvalidInstruction, DInvalidInstruction | DUnknownIdentifier, DUnknownIdentifier
  | DNotInteger, DNotInteger | DNotString, DNotString | DImportDefined, DImportDefined | DAlign, DAlign
  | DInvalidName, DInvalidName | DNotConverged, DNotConverged | DPcRange, DPcRange | DSegmentHasCode, DSegmentHasCode => true
  | DEval x, DEval y => everr_eqb x y
  | _, _ => false
  end.
Fixpoint zlist_eqb (a b : list Z) : bool :=
  match a, b with
  | [], [] => true
  | x :: a', y :: b' => Z.eqb x y && zlist_eqb a' b'
  | _, _ => false
  end.
Definition diag_eqb (a b : diag) : bool :=
  dkind_eqb (d_kind a) (d_kind b) && ospan_eqb (d_span a) (d_span b) && ipath_eqb (d_path a) (d_path b)
  && zlist_eqb (d_nums a) (d_nums b).
Fixpoint diags_eqb (a b : list diag) : bool :=
  match a, b with
  | [], [] => true
  | x :: a', y :: b' => diag_eqb x y && diags_eqb a' b'
  | _, _ => false
  end.

(* ------------------------------------------------------------------ context *)
(* UndefinedSymbol { scope_nx, id, span } *)
Definition undef := (nat * ipath * option span)%type.
Definition undef_eqb (a b : undef) : bool :=
  match a, b with (n1, p1, s1), (n2, p2, s2) => Nat.eqb n1 n2 && ipath_eqb p1 p2 && ospan_eqb s1 s2 end.
(* HashSet::insert *)
Definition set_insert (u : undef) (s : list undef) : list undef := if existsb (undef_eqb u) s then s else u :: s.
Definition set_subset (a b : list undef) : bool := forallb (fun u => existsb (undef_eqb u) b) a.
Definition set_eqb (a b : list undef) : bool := set_subset a b && set_subset b a.

Inductive event :=
  | EvSym (scope_nx : nat) (id : ipath) (d : sdata) (ty : symtype)          (* add_symbol stored d under scope.id *)
  | EvEval (scope_nx : nat) (pc : option Z) (e : expr) (v : option sval)    (* evaluate_expression returned v *)
  | EvEmit (seg : ident) (pc : Z) (target : Z) (bytes : list N)             (* emit wrote bytes at pc *)
  | EvSegNew (seg : ident).                                                 (* segments.insert(name, Segment::new(..)) *)

Record ctx := mkCtx {
  pass_idx : nat;
  segments : list (ident * segment);                (* IndexMap, definition order *)
  current_segment : option ident;
  symbols : symtab symbol;
  undefined : list undef;
  changed : list undef;                             (* symbols that got another value during this pass *)
  current_scope : ipath;
  current_scope_nx : nat;
  next_macro_scope_id : nat;
  g_vch : nat;
  g_trace : list event                              (* newest first *)
}.

Definition set_symbols (c : ctx) (t : symtab symbol) : ctx :=
  mkCtx (pass_idx c) (segments c) (current_segment c) t (undefined c) (changed c) (current_scope c) (current_scope_nx c)
        (next_macro_scope_id c) (g_vch c) (g_trace c).
Definition set_segments (c : ctx) (s : list (ident * segment)) (cur : option ident) : ctx :=
  mkCtx (pass_idx c) s cur (symbols c) (undefined c) (changed c) (current_scope c) (current_scope_nx c)
        (next_macro_scope_id c) (g_vch c) (g_trace c).
Definition set_undefined (c : ctx) (u : list undef) : ctx :=
  mkCtx (pass_idx c) (segments c) (current_segment c) (symbols c) u (changed c) (current_scope c) (current_scope_nx c)
        (next_macro_scope_id c) (g_vch c) (g_trace c).
Definition set_changed (c : ctx) (u : list undef) : ctx :=
  mkCtx (pass_idx c) (segments c) (current_segment c) (symbols c) (undefined c) u (current_scope c) (current_scope_nx c)
        (next_macro_scope_id c) (g_vch c) (g_trace c).
Definition set_scope (c : ctx) (p : ipath) (nx : nat) : ctx :=
  mkCtx (pass_idx c) (segments c) (current_segment c) (symbols c) (undefined c) (changed c) p nx
        (next_macro_scope_id c) (g_vch c) (g_trace c).
Definition set_macro_id (c : ctx) (n : nat) : ctx :=
  mkCtx (pass_idx c) (segments c) (current_segment c) (symbols c) (undefined c) (changed c) (current_scope c) (current_scope_nx c)
        n (g_vch c) (g_trace c).
Definition bump_vch (c : ctx) : ctx :=
  mkCtx (pass_idx c) (segments c) (current_segment c) (symbols c) (undefined c) (changed c) (current_scope c) (current_scope_nx c)
        (next_macro_scope_id c) (S (g_vch c)) (g_trace c).
Definition log (c : ctx) (e : event) : ctx :=
  mkCtx (pass_idx c) (segments c) (current_segment c) (symbols c) (undefined c) (changed c) (current_scope c) (current_scope_nx c)
        (next_macro_scope_id c) (g_vch c) (e :: g_trace c).

(* ------------------------------------------------------------------ monad *)
Inductive fault := FFuel | FPanic | FUnsupported | FDiverge.
Inductive out (A : Type) :=
  | Ret (a : A) (c : ctx)
  | Err (ds : list diag) (c : ctx)
  | Abort (f : fault).
Arguments Ret {A}. Arguments Err {A}. Arguments Abort {A}.
Definition M (A : Type) := ctx -> out A.

Definition ret {A} (a : A) : M A := fun c => Ret a c.
Definition bind {A B} (m : M A) (k : A -> M B) : M B :=
  fun c => match m c with Ret a c' => k a c' | Err ds c' => Err ds c' | Abort f => Abort f end.
Definition fail {A} (ds : list diag) : M A := fun c => Err ds c.
Definition abort {A} (f : fault) : M A := fun _ => Abort f.
Definition get : M ctx := fun c => Ret c c.
Definition modify (f : ctx -> ctx) : M unit := fun c => Ret tt (f c).
(* `let _ = m;` : the Result is dropped *)
Definition ignore_err {A} (m : M A) : M unit :=
  fun c => match m c with Ret _ c' => Ret tt c' | Err _ c' => Ret tt c' | Abort f => Abort f end.
(* `let result = m; cleanup; result` *)
Definition finally {A} (m : M A) (cleanup : M unit) : M A :=
  fun c => match m c with
           | Ret a c' => match cleanup c' with Ret _ c'' => Ret a c'' | Err ds c'' => Err ds c'' | Abort f => Abort f end
           | Err ds c' => match cleanup c' with Ret _ c'' => Err ds c'' | Err _ c'' => Err ds c'' | Abort f => Abort f end
           | Abort f => Abort f
           end.
(* `match m { Ok(v) => v, Err(_) => d }` *)
Definition recover {A} (m : M A) (d : A) : M A :=
  fun c => match m c with Ret a c' => Ret a c' | Err _ c' => Ret d c' | Abort f => Abort f end.
Notation "x <- m ;; k" := (bind m (fun x => k)) (at level 61, m at next level, right associativity).
Notation "m ;;; k" := (bind m (fun _ => k)) (at level 61, right associativity).

Definition err1 {A} (k : dkind) (sp : option span) (p : ipath) (ns : list Z) : M A := fail [mkDiag k sp p ns].

(* ------------------------------------------------------------------ segments *)
Fixpoint seg_get (l : list (ident * segment)) (n : ident) : option segment :=
  match l with [] => None | (k, s) :: r => if ident_eqb k n then Some s else seg_get r n end.
(* IndexMap::insert: an existing key keeps its position *)
Fixpoint seg_put (l : list (ident * segment)) (n : ident) (s : segment) : list (ident * segment) :=
  match l with
  | [] => [(n, s)]
  | (k, x) :: r => if ident_eqb k n then (k, s) :: r else (k, x) :: seg_put r n s
  end.

Definition try_current_segment (c : ctx) : option segment :=
  match current_segment c with Some n => seg_get (segments c) n | None => None end.

Inductive pcres := PcNone | PcSome (z : Z) | PcPanic.
Definition try_current_target_pc (c : ctx) : pcres :=
  match try_current_segment c with
  | None => PcNone
  | Some s => match target_pc s with Some z => PcSome z | None => PcPanic end
  end.
Definition current_target_pc : M (option Z) :=
  fun c => match try_current_target_pc c with
           | PcNone => Ret None c | PcSome z => Ret (Some z) c | PcPanic => Abort FPanic
           end.

(* ------------------------------------------------------------------ symbol(), add_symbol *)
Definition symbol_ (c : ctx) (sp : option span) (d : sdata) (ty : symtype) : symbol :=
  mkSym (pass_idx c) sp (current_segment c) d ty.

Definition redefinition (existing new : symbol) : bool :=
  negb (symtype_eqb (s_ty existing) (s_ty new))
  || negb (Bool.eqb (read_only existing) (read_only new))
  || (Nat.eqb (s_pass existing) (s_pass new) && negb (sdata_eqb (s_data existing) (s_data new)) && read_only existing).

Definition flag_undefined (c : ctx) (id : ipath) (sp : option span) : ctx :=
  set_undefined c (set_insert (current_scope_nx c, id, sp) (undefined c)).

(* `self.changed.insert(..)`: the symbol needs another pass, but it is not undefined *)
Definition flag_changed (c : ctx) (id : ipath) (sp : option span) : ctx :=
  set_changed c (set_insert (current_scope_nx c, id, sp) (changed c)).

Definition add_symbol (id : ipath) (sym : symbol) : M nat := fun c =>
  let path := current_scope c ++ id in
  let is_var := symtype_eqb (s_ty sym) TyVariable in
  let note c' := log c' (EvSym (current_scope_nx c) id (s_data sym) (s_ty sym)) in
  match try_index (symbols c) (current_scope_nx c) id with
  | Some nx =>
      match try_get (symbols c) nx with
      | Some existing =>
          if redefinition existing sym then
            (* d187598: `symbol.span.or(existing.span)` labels the diagnostic (a span-less symbol of the assembler itself,
               `segments.<n>.start`, is reported where the program defined that name); before: expect("no span provided") *)
            Err [mkDiag DRedefine (match s_span sym with Some sp => Some sp | None => s_span existing end) path []] c
          else
            let differs := negb (sdata_eqb (s_data existing) (s_data sym)) in
            let c1 := set_symbols c (update_data (symbols c) nx (Some sym)) in
            let c2 := if differs then (if is_var then bump_vch c1 else flag_changed c1 id (s_span sym)) else c1 in
            Ret nx (note c2)
      | None =>
          let c1 := set_symbols c (update_data (symbols c) nx (Some sym)) in
          let c2 := if is_var then bump_vch c1 else flag_changed c1 id (s_span sym) in
          Ret nx (note c2)
      end
  | None =>
      let (pp, last_id) := split_last path in
      let (t1, parent_nx) := ensure_index (symbols c) root pp in
      let (t2, nx) := insert t1 parent_nx last_id (Some sym) in
      Ret nx (note (set_symbols c t2))
  end.

(* ------------------------------------------------------------------ emit *)
Definition emit (sp : span) (bytes : list N) : M unit := fun c =>
  match current_segment c with
  | None => Ret tt c
  | Some name =>
      match seg_get (segments c) name with
      | None => Abort FPanic                                         (* `.unwrap()` *)
      | Some seg =>
          match target_pc seg with
          | None => Abort FPanic                                     (* source_map.add(.., segment.target_pc(), ..) *)
          | Some tp =>
              (* SourceMap::add: `pc.as_usize()..(pc.as_usize() + len)` with the target pc *)
              if two64 <=? tp + Z.of_nat (List.length bytes) then Abort FPanic else
              match seg_emit seg bytes with
              | EmitPanic => Abort FPanic
              | EmitOutOfRange => Err [mkDiag DSegmentRange (Some sp) [name] []] c
              | EmitOk seg' =>
                  Ret tt (log (set_segments c (seg_put (segments c) name seg') (current_segment c))
                              (EvEmit name (g_pc seg) tp bytes))
              end
          end
      end
  end.

(* ------------------------------------------------------------------ evaluation *)
Definition lookup_in (t : symtab symbol) (scope_nx : nat) (p : ipath) : option symdata :=
  match query t scope_nx p with
  | QFound nx => match try_get t nx with Some s => Some (to_symdata (s_data s)) | None => None end
  | _ => None
  end.
Definition env_of (t : symtab symbol) (scope_nx : nat) (pc : option Z) : env := mkEnv (lookup_in t scope_nx) pc.

(* the identifier paths an evaluation with usage tracking looks up, in order *)
Fixpoint item_paths (items : list stritem) : list ipath :=
  match items with
  | [] => []
  | SLit _ :: r => item_paths r
  | SPath p :: r => p :: item_paths r
  end.
Fixpoint usages (e : expr) : list ipath :=
  match e with
  | EBin _ l r => usages l ++ usages r
  | ENum _ _ _ _ => []
  | EId p _ _ _ => [p]
  | EPc _ _ => []
  | EParens i _ _ => usages i
  | ECall _ _ _ _ => []
  | EStr items _ _ => item_paths items
  end.
(* every path the evaluation may query, tracked or not (used only to detect an unbounded parent chain) *)
Fixpoint all_paths (e : expr) : list ipath :=
  match e with
  | EBin _ l r => all_paths l ++ all_paths r
  | ENum _ _ _ _ => []
  | EId p _ _ _ => [p]
  | EPc _ _ => []
  | EParens i _ _ => all_paths i
  | ECall _ args _ _ => flat_map all_paths args
  | EStr items _ _ => item_paths items
  end.

Fixpoint flag_usages (c : ctx) (ps : list (ipath * span)) : ctx :=
  match ps with
  | [] => c
  | (p, sp) :: r =>
      let c' := match lookup_in (symbols c) (current_scope_nx c) p with
                | Some _ => c
                | None => flag_undefined c p (Some sp)
                end in
      flag_usages c' r
  end.

Definition diverges (c : ctx) (e : expr) : bool :=
  existsb (fun p => match query (symbols c) (current_scope_nx c) p with QDiverge => true | _ => false end) (all_paths e).

Definition evaluate_expression (e : lexpr) : M (option sval) := fun c =>
  match try_current_target_pc c with
  | PcPanic => Abort FPanic
  | pcr =>
      let pc := match pcr with PcSome z => Some (usize_as_i64 z) | _ => None end in      (* `self.pc...as_i64()` *)
      if diverges c (le_expr e) then Abort FDiverge else
      match eval (env_of (symbols c) (current_scope_nx c) pc) (le_expr e) with
      | EPanic => Abort FPanic
      | EErr x => Err [mkDiag (DEval x) None [] []] c
      | EVal v =>
          let c1 := flag_usages c (combine (usages (le_expr e)) (le_ids e)) in
          Ret v (log c1 (EvEval (current_scope_nx c) pc (le_expr e) v))
      end
  end.

Definition evaluate_expression_as_i64 (e : lexpr) : M (option Z) :=
  v <- evaluate_expression e ;;
  match v with
  | Some (SNum n) => ret (Some n)
  | Some _ => err1 DNotInteger (Some (le_span e)) [] []
  | None => ret None
  end.
Definition evaluate_expression_as_string (e : lexpr) : M (option text) :=
  v <- evaluate_expression e ;;
  match v with
  | Some (SStr s) => ret (Some s)
  | Some _ => err1 DNotString (Some (le_span e)) [] []
  | None => ret None
  end.

(* ------------------------------------------------------------------ with_scope *)
Definition t_minus : ident := [45%N].
Definition t_plus : ident := [43%N].

Definition scope_symbol (name : ident) (sp : span) : M unit :=
  pc <- current_target_pc ;;
  match pc with
  | Some pc => c <- get ;; ignore_err (add_symbol [name] (symbol_ c (Some sp) (SDNum (usize_as_i64 pc)) TyConstant))
  | None => ret tt
  end.

(* `self.current_scope.push(scope); self.current_scope_nx = self.symbols.ensure_index(root, &self.current_scope)` *)
Definition enter_scope (scope : ident) (c : ctx) : ctx :=
  let p := current_scope c ++ [scope] in
  let (t1, nx) := ensure_index (symbols c) root p in
  set_macro_id (set_scope (set_symbols c t1) p nx) 0.     (* 5239ce9: macro invocations are numbered per scope *)
(* `old` = (old_scope_nx, old_macro_scope_id) *)
Definition leave_scope (old_scope : ipath) (old : nat * nat) (c : ctx) : ctx :=
  set_macro_id (set_scope c old_scope (fst old)) (snd old).

Definition with_scope {A} (scope : ident) (add_symbols_for_block : option block) (f : M A) : M A :=
  c0 <- get ;;
  modify (enter_scope scope) ;;;
  match add_symbols_for_block with Some b => scope_symbol t_minus (blk_lparen b) | None => ret tt end ;;;
  finally f
    (match add_symbols_for_block with Some b => scope_symbol t_plus (blk_rparen b) | None => ret tt end ;;;
     modify (leave_scope (current_scope c0) (current_scope_nx c0, next_macro_scope_id c0))).

(* ------------------------------------------------------------------ emit_tokens / emit_token *)
(* `for token in tokens { if let Err(result) = self.emit_token(token) { errors.extend(result) } }` *)
Fixpoint emit_tokens_with (et : token -> M unit) (ts : list token) (acc : list diag) : M unit :=
  match ts with
  | [] => match acc with [] => ret tt | _ => fail acc end
  | t :: r => fun c =>
      match et t c with
      | Ret _ c' => emit_tokens_with et r acc c'
      | Err ds c' => emit_tokens_with et r (acc ++ ds) c'
      | Abort f => Abort f
      end
  end.

Definition t_index : ident := [105; 110; 100; 101; 120]%N.
Definition t_macro_prefix : ident := [36; 109; 97; 99; 114; 111; 95]%N.      (* "$macro_" *)
Definition t_segments : ident := [115; 101; 103; 109; 101; 110; 116; 115]%N.
Definition t_start : ident := [115; 116; 97; 114; 116]%N.
Definition t_end : ident := [101; 110; 100]%N.
Definition t_default : ident := [100; 101; 102; 97; 117; 108; 116]%N.
Definition t_segment : text := [115; 101; 103; 109; 101; 110; 116]%N.
Definition t_bank : text := [98; 97; 110; 107]%N.
Definition t_name : text := [110; 97; 109; 101]%N.
Definition t_pc : text := [112; 99]%N.
Definition t_write : text := [119; 114; 105; 116; 101]%N.
Definition t_underscore : ident := [95%N].

Fixpoint cfg_find (l : list cfgpair) (k : text) : option cfgpair :=
  match l with [] => None | p :: r => if text_eqb (cp_key p) k then Some p else cfg_find r k end.
Definition try_get_expression (l : list cfgpair) (k : text) : option lexpr :=
  match cfg_find l k with Some p => cp_value p | None => None end.

(* sorting keys: the model compares diagnostics as multisets, so the validator reports in the given order *)
Definition segment_allowed : list text := [t_name; t_start; t_pc; t_write; t_bank].
Definition validate_segment (idspan : span) (l : list cfgpair) : list diag :=
  let not_allowed := filter (fun p => negb (existsb (text_eqb (cp_key p)) segment_allowed)) l in
  map (fun p => mkDiag DFieldNotAllowed (Some (cp_kspan p)) [cp_key p] []) not_allowed
  ++ (if existsb (fun p => text_eqb (cp_key p) t_name) l then [] else [mkDiag DMissingFields (Some idspan) [t_name] []]).

(* `self.segments.insert(name, Segment::new(opts)); if self.current_segment.is_none() { self.current_segment = Some(name) }` *)
Definition install_segment (name : ident) (o : segment_options) (c : ctx) : ctx :=
  log (set_segments c (seg_put (segments c) name (seg_new o))
                    (match current_segment c with None => Some name | cur => cur end)) (EvSegNew name).
(* `seg.set_pc(pc)` on the current segment, if any *)
Definition set_current_pc (pc : Z) (c : ctx) : ctx :=
  match current_segment c with
  | Some n => match seg_get (segments c) n with
              | Some s => set_segments c (seg_put (segments c) n (seg_set_pc s pc)) (current_segment c)
              | None => c
              end
  | None => c
  end.
Definition select_segment (o : option ident) (c : ctx) : ctx := set_segments c (segments c) o.
Definition bump_macro_id (c : ctx) : ctx := set_macro_id c (S (next_macro_scope_id c)).

(* `self.segments.get(&name)` exists and `!existing.range().is_empty()`: (re)defining it would drop what this pass assembled into it *)
Definition segment_has_code (c : ctx) (name : ident) : bool :=
  match seg_get (segments c) name with Some s => fst (g_range s) <? snd (g_range s) | None => false end.

Definition install_checked (idspan : span) (name : ident) (o : segment_options) : M unit :=
  c <- get ;;
  if segment_has_code c name then err1 DSegmentHasCode (Some idspan) [name] []
  else modify (install_segment name o).

(* Token::Definition, `segment` *)
Definition define_segment (idspan : span) (l : list cfgpair) : M unit :=
  match validate_segment idspan l with
  | (_ :: _) as ds => fail ds
  | [] =>
      name <- (match try_get_expression l t_name with
               | Some e => s <- evaluate_expression_as_string e ;;
                           match s with
                           | Some s => if existsb (N.eqb 46) s then err1 DInvalidName None [s] [] else ret s   (* to_identifier *)
                           | None => err1 DConfigKey None [t_name] []
                           end
               | None => err1 DConfigKey None [t_name] []
               end) ;;
      initial_pc <- (match try_get_expression l t_start with
                     | Some e => v <- recover (evaluate_expression_as_i64 e) None ;;   (* "Will be marked as undefined and retried later" *)
                                 match v with
                                 | Some v => if negb ((0 <=? v) && (v <=? 65535)) then err1 DPcRange None [t_start] [v]   (* C06: check_address, 0..=$ffff (4adc08f) *)
                                             else ret (as_usize v)
                                 | None => ret 0
                                 end
                     | None => ret 0
                     end) ;;
      write <- (match try_get_expression l t_write with
                | Some e => v <- evaluate_expression_as_i64 e ;;
                            ret (match v with Some w => negb (w =? 0) | None => segment_default_write end)
                | None => ret segment_default_write
                end) ;;
      bank <- (match try_get_expression l t_bank with
               | Some e => s <- evaluate_expression_as_string e ;;
                           match s with
                           | Some s => if existsb (N.eqb 46) s then err1 DInvalidName None [s] [] else ret (Some s)
                           | None => ret None
                           end
               | None => ret None
               end) ;;
      target <- (match try_get_expression l t_pc with
                 | Some e => v <- evaluate_expression_as_i64 e ;;
                             match v with
                             | Some t => if negb ((0 <=? t) && (t <=? 65535)) then err1 DPcRange None [t_pc] [t]   (* C06: check_address, 0..=$ffff (4adc08f) *)
                                         else ret (as_usize t)
                             | None => ret initial_pc
                             end
                 | None => ret initial_pc
                 end) ;;
      install_checked idspan name (mkSegOpts bank initial_pc write target)
  end.

Definition ascii_bytes (s : text) : option (list N) :=
  if forallb (fun ch => N.ltb ch 128) s then Some s else None.

Definition macro_scope_name (n : nat) : ident := t_macro_prefix ++ z_to_text (Z.of_nat n).
Definition iteration_scope_name (loop_scope : ident) (index : Z) : ident := loop_scope ++ t_underscore ++ z_to_text index.

(* get_symbol_filtered(.., is MacroDefinition): nearest enclosing scope first *)
Fixpoint find_macro (t : symtab symbol) (nxs : list nat) : option (span * list (ident * span) * list token) :=
  match nxs with
  | [] => None
  | nx :: r => match try_get t nx with
               | Some s => match s_data s with
                           | SDMacro sp args body => Some (sp, args, body)
                           | _ => find_macro t r
                           end
               | None => find_macro t r
               end
  end.

Definition sval_to_sdata (v : option sval) : sdata :=
  match v with Some (SNum n) => SDNum n | Some (SStr s) => SDStr s | None => SDPlaceholder end.

Section EmitToken.
Variable emit_token_rec : token -> M unit.          (* emit_token with one unit of fuel less *)
Definition emit_tokens (ts : list token) : M unit := emit_tokens_with emit_token_rec ts [].

(* `for index in 0..loop_count` *)
Fixpoint loop_iterations (fuel : nat) (index count : Z) (body : Z -> M unit) : M unit :=
  if count <=? index then ret tt else
  match fuel with
  | O => abort FFuel
  | S f => body index ;;; loop_iterations f (index + 1) count body
  end.

(* the arguments are evaluated in the scope of the invocation ... *)
Fixpoint eval_macro_args (args : list lexpr) : M (list sdata) :=
  match args with
  | [] => ret []
  | a :: r => v <- evaluate_expression a ;; vs <- eval_macro_args r ;; ret (sval_to_sdata v :: vs)
  end.
(* ... and bound as MacroArgument symbols inside the macro's scope *)
Fixpoint bind_macro_args (params : list (ident * span)) (values : list sdata) : M unit :=
  match params, values with
  | (p, psp) :: params', v :: values' =>
      c <- get ;;
      add_symbol [p] (symbol_ c (Some psp) v TyMacroArgument) ;;;
      bind_macro_args params' values'
  | _, _ => ret tt
  end.

Fixpoint emit_data_values (size : nat) (values : list lexpr) : M unit :=
  match values with
  | [] => ret tt
  | e :: r =>
      v <- evaluate_expression_as_i64 e ;;
      emit (le_span e) (match v with Some v => emit_data size v | None => [] end) ;;;
      emit_data_values size r
  end.

(* Token::Import: link the imported scope's symbols into the importing scope.  An export adds an edge that the
   pass loop never sees; the ghost counter records it. *)
Definition export_one (to_export_nx new_parent_nx : nat) (new_path : ipath) : M bool := fun c =>
  let (t1, ok) := export (symbols c) to_export_nx new_parent_nx new_path in Ret ok (bump_vch (set_symbols c t1)).
Fixpoint do_exports (l : list (nat * nat * ipath * span)) : M unit :=
  match l with
  | [] => ret tt
  | (to_export_nx, new_parent_nx, new_path, sp) :: r =>
      ok <- export_one to_export_nx new_parent_nx new_path ;;
      if ok then do_exports r else err1 DImportDefined (Some sp) new_path []
  end.
(* `self.symbols.ensure_index(self.current_scope_nx, &as_.path.data)` *)
Definition import_as_scope (p : ipath) : M nat := fun c =>
  let (t1, nx) := ensure_index (symbols c) (current_scope_nx c) p in Ret nx (set_symbols c t1).

Fixpoint specific_exports (import_nx : nat) (items : list (ipath * option ipath * span))
  : M (list (nat * nat * ipath * span)) :=
  match items with
  | [] => ret []
  | (orig, as_, sp) :: r =>
      c <- get ;;
      match try_index (symbols c) import_nx orig with
      | Some onx =>
          l <- specific_exports import_nx r ;;
          ret ((onx, current_scope_nx c, match as_ with Some a => a | None => orig end, sp) :: l)
      | None => modify (fun c => flag_undefined c orig (Some sp)) ;;; specific_exports import_nx r
      end
  end.

Definition emit_token_body (fuel : nat) (t : token) : M unit :=
  match t with
  | TAlign value =>
      pc <- current_target_pc ;;
      match pc with
      | None => ret tt
      | Some pc =>
          a <- evaluate_expression_as_i64 value ;;
          match a with
          | None => ret tt
          | Some align =>
              if align <=? 0 then err1 DAlign (Some (le_span value)) [] [align]
              else
                (* pc.as_i64() of a usize above i64::MAX is negative; rem_euclid is non-negative for align > 0 *)
                let padding := Z.min (align - Z.modulo (usize_as_i64 pc) align) align_padding_cap in
                emit (le_span value) (repeat 0%N (Z.to_nat padding))
          end
      end
  | TBraces scope b => with_scope scope (Some b) (emit_tokens (blk_inner b))
  | TData size values => emit_data_values size values
  | TDefine id idspan cfg =>
      match cfg with
      | None => ret tt
      | Some l =>
          if text_eqb id t_segment then define_segment idspan l
          else if text_eqb id t_bank then abort FUnsupported
          else err1 DUnknownDefinition (Some idspan) [] []
      end
  | TIf value if_ else_ =>
      v <- evaluate_expression_as_i64 value ;;
      match v with
      | None => ret tt
      | Some v =>
          if negb (v =? 0) then emit_tokens (blk_inner if_)
          else match else_ with Some e => emit_tokens (blk_inner e) | None => ret tt end
      end
  | TImport args import_scope b file =>
      match file with
      | None => ret tt
      | Some file_tokens =>
          with_scope import_scope b
            ((match b with Some b => emit_tokens (blk_inner b) | None => ret tt end) ;;;
             emit_tokens file_tokens) ;;;
          c <- get ;;
          match try_index (symbols c) (current_scope_nx c) [import_scope] with
          | None => ret tt
          | Some import_nx =>
              match args with
              | ImportAll star as_ =>
                  let sp := match as_ with Some (_, s) => s | None => star end in
                  scope_nx <- (match as_ with Some (p, _) => import_as_scope p | None => ret (current_scope_nx c) end) ;;
                  c1 <- get ;;
                  do_exports (map (fun ch => (snd ch, scope_nx, [fst ch], sp))
                                  (filter (fun ch => negb (is_special (fst ch))) (children (symbols c1) import_nx)))
              | ImportSpecific items => l <- specific_exports import_nx items ;; do_exports l
              end
          end
      end
  | TInstr m mspan operand =>
      let full_span := match operand with Some (e, _) => (Z.min (fst (le_span e)) (fst mspan), Z.max (snd (le_span e)) (snd mspan))
                                       | None => mspan end in
      data <- (match operand with
               | Some (e, f) => v <- evaluate_expression_as_i64 e ;; ret (option_map (fun v => (v, f)) v)
               | None => ret (Some (0, FImplied))
               end) ;;
      match data with
      | None => emit full_span []
      | Some (value, f) =>
          pc <- current_target_pc ;;
          match emit_instruction m f value pc with
          | (bytes, None) => emit full_span bytes
          | (_, Some InstrPanic) => abort FPanic
          | (bytes, Some TooFar) =>
              (* the message names the target and the pc (`.. to reach $T from $P`): two passes report "the same errors"
                 only if both agree *)
              emit full_span bytes ;;; err1 DBranchTooFar (Some mspan) [] [value; match pc with Some p => p | None => value end]
          | (bytes, Some InvalidInstruction) => emit full_span bytes ;;; err1 DInvalidInstruction (Some full_span) [] []
          end
      end
  | TLabel id idspan b =>
      pc <- current_target_pc ;;
      (match pc with
       | Some pc => c <- get ;; add_symbol [id] (symbol_ c (Some idspan) (SDNum (usize_as_i64 pc)) TyLabel) ;;; ret tt
       | None => ret tt
       end) ;;;
      match b with
      | Some b => with_scope id (Some b) (emit_tokens (blk_inner b))
      | None => ret tt
      end
  | TLoop e loop_scope b =>
      n <- evaluate_expression_as_i64 e ;;
      match n with
      | None => ret tt
      | Some loop_count =>
          (* more iterations than one pass may run (C06's limit; the budget shared by all loops of a pass is not followed) *)
          if loop_iteration_limit <? loop_count then abort FUnsupported else
          loop_iterations fuel loop_first_index loop_count (fun index =>
            with_scope (iteration_scope_name loop_scope index) (Some b)
              (c <- get ;;
               add_symbol [t_index] (symbol_ c (Some (le_span e)) (SDNum index) TyConstant) ;;;
               emit_tokens (blk_inner b)))
      end
  | TMacroDef id idspan args b =>
      c <- get ;;
      add_symbol [id] (symbol_ c (Some idspan) (SDMacro idspan args (blk_inner b)) TyConstant) ;;; ret tt
  | TInvoke name nspan args =>
      c <- get ;;
      modify bump_macro_id ;;;                     (* every invocation has its number, known macro or not *)
      match query_all (symbols c) (current_scope_nx c) [name] with
      | None => abort FDiverge
      | Some nxs =>
          match find_macro (symbols c) nxs with
          | None => modify (fun c => flag_undefined c [name] (Some nspan))
          | Some (_, params, body) =>
              if negb (Nat.eqb (List.length args) (List.length params))
              then err1 (DEval ErrArgCount) (Some nspan) [] []
              else
                values <- eval_macro_args args ;;
                with_scope (macro_scope_name (next_macro_scope_id c)) None (bind_macro_args params values ;;; emit_tokens body)
          end
      end
  | TPc value =>
      v <- evaluate_expression_as_i64 value ;;
      match v with
      | None => ret tt
      | Some pc =>
          (* C06: the value is range-checked where it enters the program counter *)
          if negb ((0 <=? pc) && (pc <=? 65536)) then err1 DPcRange (Some (le_span value)) [] [pc] else
          c <- get ;;
          match (match current_segment c with Some n => seg_get (segments c) n | None => None end) with
          | Some s => match target_offset s with
                      | Some off => if pc + off <? 0 then err1 DPcRange (Some (le_span value)) [] [pc] else modify (set_current_pc pc)
                      | None => modify (set_current_pc pc)
                      end
          | None => ret tt
          end
      end
  | TSegment id b =>
      s <- evaluate_expression_as_string id ;;
      match s with
      | None => ret tt
      | Some name =>
          if existsb (N.eqb 46) name then err1 DInvalidName (Some (le_span id)) [name] [] else
          c <- get ;;
          match seg_get (segments c) name with
          | None => err1 DUnknownIdentifier (Some (le_span id)) [] []
          | Some _ =>
              match b with
              | Some b =>
                  let old := current_segment c in
                  modify (select_segment (Some name)) ;;;
                  finally (emit_tokens (blk_inner b)) (modify (select_segment old))   (* restored also after an error *)
              | None => modify (select_segment (Some name))
              end
          end
      end
  | TTest id b =>
      pc <- current_target_pc ;;
      match pc with
      | None => ret tt
      | Some pc =>
          s <- evaluate_expression_as_string id ;;
          match s with
          | None => ret tt
          | Some name =>
              (* IdentifierPath::from(&str): split at '.'; no active test: only the symbol is added *)
              if existsb (N.eqb 46) name then abort FUnsupported else
              c <- get ;;
              add_symbol [name] (symbol_ c (Some (le_span id)) (SDNum (usize_as_i64 pc)) TyTestCase) ;;; ret tt
          end
      end
  | TText enc txt =>
      s <- evaluate_expression_as_string txt ;;
      match s with
      | None => ret tt
      | Some s =>
          match enc, ascii_bytes s with
          | EncAscii, Some bytes => emit (le_span txt) bytes
          | _, _ => abort FUnsupported
          end
      end
  | TVarDef ty id idspan value =>
      v <- evaluate_expression value ;;
      match v with
      | None => ret tt
      | Some v =>
          c <- get ;;
          add_symbol [id] (symbol_ c (Some idspan) (sval_to_sdata (Some v))
                                   (match ty with VConst => TyConstant | VVar => TyVariable end)) ;;; ret tt
      end
  | TNop => ret tt
  | TUnsupported => abort FUnsupported
  end.
End EmitToken.

Fixpoint emit_token (fuel : nat) (t : token) : M unit :=
  match fuel with
  | O => abort FFuel
  | S f => emit_token_body (emit_token f) f t
  end.

(* ------------------------------------------------------------------ passes *)
(* register_all_segment_symbols: `segments` is taken out of the context while the symbols are added, so
   current_segment resolves to nothing and `symbol()` still records its name *)
(* `if let Err(e) = m { errors.extend(e) }` ; k ; `if errors.is_empty() { Ok(()) } else { Err(errors) }` (d187598) *)
Definition collecting {A} (m : M A) (k : M unit) : M unit := fun c =>
  match m c with
  | Ret _ c1 => k c1
  | Err ds c1 => match k c1 with
                 | Ret _ c2 => Err ds c2
                 | Err ds2 c2 => Err (ds ++ ds2) c2
                 | Abort f => Abort f
                 end
  | Abort f => Abort f
  end.
Fixpoint register_segment_symbols (l : list (ident * segment)) : M unit :=
  match l with
  | [] => ret tt
  | (name, s) :: r =>
      collecting (c <- get ;; add_symbol [t_segments; name; t_start] (symbol_ c None (SDNum (usize_as_i64 (fst (g_range s)))) TyConstant))
        (collecting (c <- get ;; add_symbol [t_segments; name; t_end] (symbol_ c None (SDNum (usize_as_i64 (snd (g_range s)))) TyConstant))
           (register_segment_symbols r))
  end.
Definition after_pass : M unit := c <- get ;; register_segment_symbols (segments c).

Definition next_pass (c : ctx) : ctx :=
  mkCtx (S (pass_idx c)) (map (fun ns => (fst ns, seg_reset (snd ns))) (segments c))
        (match segments c with (n, _) :: _ => Some n | [] => None end)   (* acfe737: `self.segments.keys().next().cloned()` *)
        (symbols c) (undefined c) [] (current_scope c) (current_scope_nx c) 0%nat 0%nat [].

Record options := mkOptions { opt_pc : Z; opt_constants : list (ident * Z) }.
Definition default_options : options := mkOptions default_pc [].

Definition initial_ctx (o : options) : ctx :=
  let t := fold_left (fun t kv => fst (insert t root (fst kv) (Some (mkSym 0%nat None None (SDNum (snd kv)) TyConstant))))
                     (opt_constants o) empty_tab in
  mkCtx 0%nat [] None t [] [] [] root 0%nat 0%nat [].

(* one pass: emit_tokens(main file) then after_pass; returns the diagnostics of emit_tokens *)
Inductive pass_out := PassOk (errors : list diag) (c : ctx) | PassAbort (f : fault).
Definition run_pass (fuel : nat) (toks : list token) (c : ctx) : pass_out :=
  let finish (errs : list diag) (c1 : ctx) :=
    match after_pass c1 with
    | Ret _ c2 => PassOk errs c2
    | Err ds2 c2 => PassOk (errs ++ ds2) c2         (* d187598: `if let Err(e) = ctx.after_pass() { errors.extend(e) }` *)
    | Abort f => PassAbort f
    end in
  match emit_tokens (emit_token fuel) toks c with
  | Abort f => PassAbort f
  | Ret _ c1 => finish [] c1
  | Err ds c1 => finish ds c1
  end.

Inductive result :=
  | Done (c : ctx)                                   (* the loop left through `break`: assembly succeeded *)
  | Failed (errors : list diag) (c : ctx)            (* `return (Some(ctx), errors)` *)
  | Aborted (f : fault).

Definition unknown_identifier_errors (u : list undef) : list diag :=
  map (fun x => match x with (_, id, sp) => mkDiag DUnknownIdentifier sp id [] end) u.

(* the `while` loop of codegen(); `passes` is MAX_ITERATIONS (Gen.CodegenConsts.max_iterations) *)
Fixpoint pass_loop (passes fuel : nat) (o : options) (toks : list token) (c : ctx)
                   (prev_undefined : list undef) (prev_errors : list diag) : result :=
  match passes with
  | O => Failed (prev_errors ++ [mkDiag DNotConverged None [] []]) c    (* `ctx.pass_idx == MAX_ITERATIONS` after the loop *)
  | S n =>
      let symbol_count := node_count (symbols c) in
      match run_pass fuel toks c with
      | PassAbort f => Aborted f
      | PassOk errors c1 =>
          let symbols_added := negb (Nat.eqb (node_count (symbols c1)) symbol_count) in
          match segments c1 with
          | [] =>
              let opts := mkSegOpts None (opt_pc o) segment_default_write (opt_pc o) in
              let c2 := set_segments c1 [(t_default, seg_new opts)] (Some t_default) in
              pass_loop n fuel o toks (next_pass c2) prev_undefined errors
          | _ :: _ =>
              if (match errors with [] => false | _ => true end) && diags_eqb errors prev_errors then Failed errors c1
              else
                match errors with
                | _ :: _ => pass_loop n fuel o toks (next_pass c1) prev_undefined errors
                | [] =>
                    let und_empty := match undefined c1 with [] => true | _ => false end in
                    let chg_empty := match changed c1 with [] => true | _ => false end in
                    if und_empty && chg_empty && (negb stop_needs_no_new_symbols || negb symbols_added) then Done c1
                    else if (negb unknown_needs_nonempty || negb und_empty) && set_eqb (undefined c1) prev_undefined
                    then Failed (unknown_identifier_errors (undefined c1)) c1
                    else pass_loop n fuel o toks (next_pass (set_undefined c1 [])) (undefined c1) errors
                end
          end
      end
  end.

Definition codegen (passes fuel : nat) (o : options) (toks : list token) : result :=
  pass_loop passes fuel o toks (initial_ctx o) [] [].

(* ------------------------------------------------------------------ outputs *)
Definition segment_image (c : ctx) : list (ident * (Z * Z) * list N) :=
  map (fun ns => (fst ns, g_range (snd ns), range_data (snd ns))) (segments c).

(* to_vice_symbols: one line per Label symbol, (value, path) *)
Definition vice_symbols (c : ctx) : list (ipath * Z) :=
  flat_map (fun e => match e with
                     | (p, _, s) => match s_ty s, s_data s with
                                    | TyLabel, SDNum v => [(p, v)]
                                    | _, _ => []
                                    end
                     end) (all (symbols c)).

(* symbols of the table that the current pass did not write (pass stamp older than the pass index); symbols without a
   span are the predefined constants and segments.* *)
Definition stale_symbols (c : ctx) : list (ipath * nat * symbol) :=
  filter (fun e => match e with (_, _, s) => Nat.ltb (s_pass s) (pass_idx c) && match s_span s with Some _ => true | None => false end end)
         (all (symbols c)).
Definition Known_stale_symbol_survives (c : ctx) : bool := match stale_symbols c with [] => false | _ => true end.

(* Code model: io/binary_writer.rs (Bank::merge, merge_segments, write_banks, prg_header)
   and the output-format part of commands/build.rs.
   Names (banks, files) are abstracted to numbers by an injective renaming done by the harness. *)
From Coq Require Import List NArith ZArith Bool.
Import ListNotations.
Open Scope Z_scope.

Record segment := mkSeg {
  s_start : Z;              (* range().start *)
  s_data : list N;          (* range_data(): exactly the bytes of [start, end) *)
  s_bank : option N;        (* options().bank *)
  s_write : bool
}.
Definition s_end (s : segment) : Z := s_start s + Z.of_nat (length (s_data s)).

Record bank_options := mkBankOpts {
  b_name : N;
  b_size : option Z;
  b_fill : option N;
  b_filename : option N
}.

Record bank := mkBank { k_lo : Z; k_hi : Z; k_data : list N }.
Definition empty_bank : bank := mkBank 0 0 [].

(* data[off .. off+len new] = new   (copy_from_slice) *)
Definition splice (data : list N) (off : nat) (new : list N) : list N :=
  firstn off data ++ new ++ skipn (off + length new) data.

Definition fill_of (o : option N) : N := match o with Some f => f | None => 0%N end.

(* Bank::merge *)
Definition merge (fill : N) (b : bank) (s : segment) : bank :=
  if k_hi b <=? k_lo b then                      (* self.range.is_empty() *)
    mkBank (s_start s) (s_end s)
           (splice (repeat fill (length (s_data s))) 0 (s_data s))
  else
    let nlo := Z.min (k_lo b) (s_start s) in
    let nhi := Z.max (k_hi b) (s_end s) in
    let data := repeat fill (Z.to_nat (k_lo b - nlo)) ++ k_data b ++ repeat fill (Z.to_nat (nhi - k_hi b)) in
    mkBank nlo nhi (splice data (Z.to_nat (s_start s - nlo)) (s_data s)).

Inductive merge_error :=
  | UnknownBank (seg_index : nat) (bank_name : N)
  | BankTooShortNoFill (bank_name : N) (size len : Z)
  | BankTooLarge (bank_name : N) (size len : Z).

Definition bank_of (default_bank : N) (s : segment) : N :=
  match s_bank s with Some b => b | None => default_bank end.

Definition bank_segments (default_bank : N) (segs : list segment) (name : N) : list segment :=
  filter (fun s => N.eqb (bank_of default_bank s) name && s_write s) segs.

(* the size check and padding of one bank *)
Definition finish_bank (o : bank_options) (b : bank) : bank * list merge_error :=
  match b_size o with
  | None => (b, [])
  | Some size =>
      let len := Z.of_nat (length (k_data b)) in
      if len <? size then
        match b_fill o with
        | Some f => (mkBank (k_lo b) (k_hi b + (size - len)) (k_data b ++ repeat f (Z.to_nat (size - len))), [])
        | None => (b, [BankTooShortNoFill (b_name o) size len])
        end
      else if size <? len then (b, [BankTooLarge (b_name o) size len])
      else (b, [])
  end.

Definition build_bank (default_bank : N) (segs : list segment) (o : bank_options) : bank * list merge_error :=
  finish_bank o (fold_left (merge (fill_of (b_fill o))) (bank_segments default_bank segs (b_name o)) empty_bank).

Fixpoint unknown_bank_errors (default_bank : N) (names : list N) (segs : list segment) (i : nat) : list merge_error :=
  match segs with
  | [] => []
  | s :: rest =>
      (if existsb (N.eqb (bank_of default_bank s)) names then [] else [UnknownBank i (bank_of default_bank s)])
      ++ unknown_bank_errors default_bank names rest (S i)
  end.

(* BinaryWriter::merge_segments.  banks: ctx.banks() in definition order (non-empty after finalize). *)
Definition merge_segments (banks : list bank_options) (segs : list segment)
  : list (bank_options * bank) + list merge_error :=
  match banks with
  | [] => inr []                                   (* unreachable after finalize: keys().next().unwrap() *)
  | first :: _ =>
      let default_bank := b_name first in
      let errs0 := unknown_bank_errors default_bank (map b_name banks) segs 0 in
      let built := map (fun o => (o, build_bank default_bank segs o)) banks in
      let errs := errs0 ++ flat_map (fun x => snd (snd x)) built in
      match errs with
      | [] => inl (map (fun x => (fst x, fst (snd x))) built)
      | _ => inr errs
      end
  end.

(* write_banks: files keyed by filename (None = the default output filename), banks appended in order.
   Result: association list filename -> contents, in order of first use. *)
Definition fname_eqb (a b : option N) : bool :=
  match a, b with None, None => true | Some x, Some y => N.eqb x y | _, _ => false end.

Fixpoint append_file (files : list (option N * list N)) (f : option N) (data : list N) : list (option N * list N) :=
  match files with
  | [] => [(f, data)]
  | (g, d) :: rest => if fname_eqb g f then (g, d ++ data) :: rest else (g, d) :: append_file rest f data
  end.

Definition write_banks (banks : list (option N * list N)) : list (option N * list N) :=
  fold_left (fun files b => append_file files (fst b) (snd b)) banks [].

Inductive output_format := Prg | Bin.

(* BuildOptions::output_format *)
Definition output_format_of (configured : option output_format) (nbanks : nat) : output_format :=
  match configured with
  | Some f => f
  | None => if Nat.eqb nbanks 1 then Prg else Bin
  end.

(* Bank::prg_header *)
Definition prg_header (pc : Z) : list N := [Z.to_N (Z.land pc 255); Z.to_N (Z.land (Z.shiftr pc 8) 255)].

Inductive build_result :=
  | BuildFiles (files : list (option N * list N))
  | BuildPrgNeedsSingleBank
  | BuildMergeErrors (errs : list merge_error).

(* the part of build_command after a successful codegen *)
Definition build_output (configured : option output_format) (banks : list bank_options) (segs : list segment) : build_result :=
  if (match configured with Some Prg => negb (Nat.eqb (length banks) 1) | _ => false end) then BuildPrgNeedsSingleBank
  else match merge_segments banks segs with
       | inr errs => BuildMergeErrors errs
       | inl merged =>
           let bs := map (fun x => (b_filename (fst x), k_data (snd x))) merged in
           let bs := match output_format_of configured (length banks) with
                     | Prg => match merged with
                              | (_, b0) :: _ => (None, prg_header (k_lo b0)) :: bs
                              | [] => bs
                              end
                     | Bin => bs
                     end in
           BuildFiles (write_banks bs)
       end.

(* CodegenContext::finalize: default bank and bank assignment.
   banks: names of the defined banks in order; segs: each segment's declared bank.
   Result: bank names, each segment's bank, indices of segments left without a bank (an error). *)
Definition finalize (default_name : N) (banks : list N) (seg_banks : list (option N))
  : list N * list (option N) * list nat :=
  let '(banks1, segs1) :=
    match banks with
    | [] => ([default_name], map (fun b => match b with None => Some default_name | Some x => Some x end) seg_banks)
    | _ => (banks, seg_banks)
    end in
  let segs2 :=
    match segs1, banks1 with
    | [None], b0 :: _ => [Some b0]       (* a single unassigned segment is put into the first bank *)
    | _, _ => segs1
    end in
  let unassigned := flat_map (fun x => match snd x with None => [fst x] | Some _ => [] end)
                             (combine (seq 0 (length segs2)) segs2) in
  (banks1, segs2, unassigned).

Definition set_bank (s : segment) (b : option N) : segment := mkSeg (s_start s) (s_data s) b (s_write s).

(* codegen's finalize followed by the rest of build_command, from the DECLARED configuration.
   declared banks may be empty (then a bank named default_name is created). *)
Inductive project_result :=
  | ProjectUnassigned (segs : list nat)
  | ProjectBuilt (r : build_result).

Definition default_bank_options (name : N) : bank_options := mkBankOpts name None None None.

Definition build_project (default_name : N) (configured : option output_format)
           (banks : list bank_options) (segs : list segment) : project_result :=
  let '(names, seg_banks, unassigned) := finalize default_name (map b_name banks) (map s_bank segs) in
  match unassigned with
  | _ :: _ => ProjectUnassigned unassigned
  | [] =>
      let banks' := match banks with [] => [default_bank_options default_name] | _ => banks end in
      let segs' := map (fun x => set_bank (fst x) (snd x)) (combine segs seg_banks) in
      ProjectBuilt (build_output configured banks' segs')
  end.

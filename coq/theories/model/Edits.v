(* Code model of mos/src/lsp/formatting.rs: RangeKeeper, get_text_edits, do_formatting and the two request handlers.
   `dissimilar::diff` and the formatter are oracles (Section variables); the theorems assume about the diff only
   that its chunks partition the old and the new text, which the check validates on every case (hook H2 returns the
   raw chunks).  Text is a list of Unicode scalar values; u32 line/character counters are unbounded naturals
   (documents below 2^32 lines / code units).  No proofs in this file. *)
From Coq Require Import List NArith Bool Arith.
Import ListNotations.
From Mos Require Import spec.LspEdits model.Utf Gen.EditsConsts.

(* struct RangeKeeper { line, character } *)
Definition RangeKeeper := pos.
Definition rk_new : RangeKeeper := (0, 0).

(* RangeKeeper::push: every `newline_char` found starts a new line (line += 1, character = 0); what follows the last
   one adds its width (Gen.EditsConsts.column_width: the translated `str.encode_utf16().count()`), one char at a time *)
Definition push1 (rk : RangeKeeper) (c : N) : RangeKeeper :=
  if N.eqb c newline_char then (S (fst rk), 0) else (fst rk, snd rk + column_width c).
Fixpoint push (rk : RangeKeeper) (str : text) : RangeKeeper :=
  match str with
  | [] => rk
  | c :: rest => push (push1 rk c) rest
  end.

(* dissimilar::Chunk *)
Inductive chunk := Equal (t : text) | Delete (t : text) | Insert (t : text).

(* RangeKeeper::to_range + TextEdit { range, new_text } *)
Definition to_range (rk : RangeKeeper) (str : text) (new_text : text) : edit := mkEdit rk (push rk str) new_text.

Fixpoint text_eqb (a b : text) : bool :=
  match a, b with [], [] => true | x :: a', y :: b' => N.eqb x y && text_eqb a' b' | _, _ => false end.

(* get_text_edits: the `while idx < edits.len()` loop; arms in source order *)
Fixpoint gte (rk : RangeKeeper) (cs : list chunk) : list edit :=
  match cs with
  | [] => []
  | Delete del :: rest =>
      match rest with
      | Equal eq :: Insert ins :: rest3 =>
          if text_eqb del ins
          then to_range rk (del ++ eq) (eq ++ ins) :: gte (push rk (del ++ eq)) rest3          (* idx += 3 *)
          else to_range rk del [] :: gte (push rk del) rest                                     (* last arm *)
      | Insert ins :: rest2 => to_range rk del ins :: gte (push rk del) rest2                   (* idx += 2 *)
      | _ => to_range rk del [] :: gte (push rk del) rest
      end
  | Equal str :: rest => gte (push rk str) rest
  | Insert str :: rest => to_range rk [] str :: gte rk rest
  end.

Definition old_of (cs : list chunk) : text :=
  flat_map (fun c => match c with Equal t | Delete t => t | Insert _ => [] end) cs.
Definition new_of (cs : list chunk) : text :=
  flat_map (fun c => match c with Equal t | Insert t => t | Delete _ => [] end) cs.

(* str::contains(char), str::replace("\r\n", "\n"), str::replace('\r', "\n") *)
Definition contains (c : N) (s : text) : bool := existsb (N.eqb c) s.
Fixpoint replace_crlf (s : text) : text :=
  match s with
  | [] => []
  | x :: r =>
      if N.eqb x cr_char then
        match r with
        | y :: r' => if N.eqb y newline_char then newline_char :: replace_crlf r' else x :: replace_crlf r
        | [] => x :: replace_crlf r
        end
      else x :: replace_crlf r
  end.
Definition replace_cr (s : text) : text := map (fun c => if N.eqb c cr_char then newline_char else c) s.

Section Handler.
  Variable diff : text -> text -> list chunk.            (* dissimilar::diff *)
  Variable format : text -> text.                         (* format(path, tree, FormattingOptions::default()) of the file's source *)
  Variable diagnostic : Type.

  (* replace_document: one edit for the whole document (none when nothing changes); the end position is taken on the
     LF-only form of the text *)
  Definition replace_document (old_text new_text : text) : list edit :=
    if text_eqb old_text new_text then []
    else [to_range rk_new (replace_cr (replace_crlf old_text)) new_text].

  (* is_partition: the chunks, put together again, give exactly the old and the new text *)
  Definition is_partition (chunks : list chunk) (old_text new_text : text) : bool :=
    text_eqb (old_of chunks) old_text && text_eqb (new_of chunks) new_text.

  (* get_text_edits: a buffer containing a CR, or a diff that does not add up to both texts, gets one whole-document
     replacement (Gen.EditsConsts.whole_document_on_cr / validates_diff say whether those branches are present in
     the source); otherwise the chunk-wise edits *)
  Definition get_text_edits (old_text new_text : text) : list edit :=
    if whole_document_on_cr && contains cr_char old_text then replace_document old_text new_text
    else
      let edits := diff old_text new_text in
      if validates_diff && negb (is_partition edits old_text new_text) then replace_document old_text new_text
      else gte rk_new edits.

  (* do_formatting: `error` = ctx.error, `codegen` = ctx.codegen() with tree.try_get_file(path) already looked up
     (None = no codegen context, Some None = the file is not part of the tree) *)
  Definition do_formatting (error : list diagnostic) (codegen : option (option text)) : option (list edit) :=
    match error with
    | [] => option_map (fun file => match file with
                                    | Some old_text => get_text_edits old_text (format old_text)
                                    | None => []
                                    end) codegen
    | _ :: _ => None
    end.

  (* the two handlers differ only in where the uri comes from; position and typed character are ignored *)
  Definition handle_formatting := do_formatting.
  Definition handle_on_type_formatting (position : pos) (ch : text) := do_formatting.
End Handler.

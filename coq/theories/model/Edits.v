(* Code model: RangeKeeper and get_text_edits (mos/src/lsp/formatting.rs) over the chunk list returned by
   dissimilar::diff.  The diff itself is an oracle: only `chunks partition old and new` is assumed, and that
   is checked on every case at run time (hook H2 returns the raw chunks). *)
From Coq Require Import List NArith Bool Arith.
Import ListNotations.
From Mos Require Import model.Utf Gen.EditsConsts.

Definition text := list N.
Definition NL : N := 10%N.
Definition pos := (nat * nat)%type.             (* line, character *)

Section Width.
  Variable width : N -> nat.
  (* RangeKeeper::push, one character at a time *)
  Definition adv1 (p : pos) (c : N) : pos := if N.eqb c NL then (S (fst p), 0) else (fst p, snd p + width c).
  Definition adv (p : pos) (s : text) : pos := fold_left adv1 s p.
End Width.

Inductive chunk := Eq (t : text) | Del (t : text) | Ins (t : text).
Record edit := mkEdit { e_start : pos; e_end : pos; e_new : text }.

Fixpoint text_eqb (a b : text) : bool :=
  match a, b with [], [] => true | x :: a', y :: b' => N.eqb x y && text_eqb a' b' | _, _ => false end.

Section Gte.
  Variable width : N -> nat.
  Notation adv := (adv width).
  (* get_text_edits: the `while idx < edits.len()` loop with its three-chunk lookahead *)
  Fixpoint gte (rk : pos) (cs : list chunk) : list edit :=
    match cs with
    | [] => []
    | Eq e :: rest => gte (adv rk e) rest
    | Ins i :: rest => mkEdit rk rk i :: gte rk rest
    | Del d :: rest =>
        match rest with
        | Ins i :: rest2 => mkEdit rk (adv rk d) i :: gte (adv rk d) rest2
        | Eq e :: rest1 =>
            match rest1 with
            | Ins i :: rest2 =>
                if text_eqb d i
                then mkEdit rk (adv rk (d ++ e)) (e ++ i) :: gte (adv rk (d ++ e)) rest2
                else mkEdit rk (adv rk d) [] :: gte (adv rk d) rest
            | _ => mkEdit rk (adv rk d) [] :: gte (adv rk d) rest
            end
        | _ => mkEdit rk (adv rk d) [] :: gte (adv rk d) rest
        end
    end.
End Gte.

Definition get_text_edits (cs : list chunk) : list edit := gte column_width (0, 0) cs.

Definition old_of (cs : list chunk) : text := flat_map (fun c => match c with Eq t | Del t => t | Ins _ => [] end) cs.
Definition new_of (cs : list chunk) : text := flat_map (fun c => match c with Eq t | Ins t => t | Del _ => [] end) cs.

(* Spec of C11: what a listing must show, stated over the EMISSIONS of a build (which statement emitted which bytes at
   which target address, in emission order) -- not over how mos looks them up.

   A listing of a file has, for every source line in order: if the statements beginning on that line emitted nothing, one
   row without address; otherwise rows, each showing an address followed by the bytes that were emitted for the line, in
   emission order, the k-th byte of a row being the byte at address + k; a row has at most n bytes and is as long as
   possible (it ends only when it is full, when the next byte of the line is not at the next address, or when the line
   has no more bytes).  The first row of a line carries the source text.  Every emitted byte appears exactly once. *)
From Coq Require Import List NArith ZArith Bool Arith.
Import ListNotations.
From Mos Require Import model.SourceMap model.Listing.   (* only the data types `row`, `cell`, `file`, `span` *)
Open Scope Z_scope.

Record emission := mkEm {
  em_file : N;             (* file of the emitting statement (of the invocation, for macros in listing mode) *)
  em_line : nat;           (* 0-based line on which that statement begins *)
  em_addr : Z;             (* target address of the first byte *)
  em_bytes : list N
}.

(* the line of a position: number of line feeds before it *)
Definition spec_line (src : list N) (pos : Z) : nat := length (filter (N.eqb 10) (firstn (Z.to_nat pos) src)).

Fixpoint cells_from (a : Z) (bytes : list N) : list cell :=
  match bytes with [] => [] | b :: r => (a, b) :: cells_from (a + 1) r end.
Definition em_cells (e : emission) : list cell := cells_from (em_addr e) (em_bytes e).

Definition on_line (file : N) (line : nat) (e : emission) : bool := N.eqb (em_file e) file && (em_line e =? line)%nat.
Definition line_cells (ems : list emission) (file : N) (line : nat) : list cell :=
  flat_map em_cells (filter (on_line file line) ems).

(* the longest prefix of at most k cells at addresses a, a+1, ... *)
Fixpoint take_run (k : nat) (a : Z) (cs : list cell) : list cell * list cell :=
  match k, cs with
  | S k', (a', b) :: r => if a' =? a then let (p, q) := take_run k' (a + 1) r in ((a', b) :: p, q) else ([], cs)
  | _, _ => ([], cs)
  end.

Fixpoint pack (fuel n : nat) (cs : list cell) : list (list cell) :=
  match fuel with
  | O => []
  | S f => match cs with
           | [] => []
           | (a, _) :: _ => let (p, q) := take_run n a cs in p :: pack f n q
           end
  end.

Fixpoint number_rows (line : nat) (first : bool) (groups : list (list cell)) : list row :=
  match groups with
  | [] => []
  | g :: r => mkRow line (option_map fst (hd_error g)) (map snd g) first :: number_rows line false r
  end.

Definition spec_line_rows (n line : nat) (cs : list cell) : list row :=
  match cs with
  | [] => [mkRow line None [] true]
  | _ => number_rows line true (pack (length cs) n cs)
  end.

Definition spec_rows (n nlines : nat) (file : N) (ems : list emission) : list row :=
  flat_map (fun line => spec_line_rows n line (line_cells ems file line)) (seq 0 nlines).

(* what a row shows: (address, byte) pairs *)
Definition row_cells (r : row) : list cell :=
  match r_addr r with Some a => cells_from a (r_bytes r) | None => [] end.

(* Spec of C11: what a listing must show, stated over the EMISSIONS of a build (which statement emitted which bytes at
   which target address, in emission order) -- not over how mos looks them up.

   A listing of a file has, for every source line in order: if the statements beginning on that line emitted nothing, one
   row without address; otherwise rows, each showing an address followed by the bytes that were emitted for the line, in
   emission order, the k-th byte of a row being the byte at address + k; a row has at most n bytes and is as long as
   possible (it ends only when it is full, when the next byte of the line is not at the next address, or when the line
   has no more bytes).  The first row of a line carries the source text.  Every emitted byte appears exactly once. *)
From Coq Require Import List NArith ZArith Bool Arith.
Import ListNotations.
From Mos Require Import model.SourceMap model.Listing.   (* only the data types `row`, `cell`, `file`, `span` *)
Open Scope Z_scope.

Record emission := mkEm {
  em_file : N;             (* file of the emitting statement (of the invocation, for macros in listing mode) *)
  em_line : nat;           (* 0-based line on which that statement begins *)
  em_addr : Z;             (* target address of the first byte *)
  em_bytes : list N
}.

(* the line of a position: number of line feeds before it *)
Definition spec_line (src : list N) (pos : Z) : nat := length (filter (N.eqb 10) (firstn (Z.to_nat pos) src)).

Fixpoint cells_from (a : Z) (bytes : list N) : list cell :=
  match bytes with [] => [] | b :: r => (a, b) :: cells_from (a + 1) r end.
Definition em_cells (e : emission) : list cell := cells_from (em_addr e) (em_bytes e).

Definition on_line (file : N) (line : nat) (e : emission) : bool := N.eqb (em_file e) file && (em_line e =? line)%nat.
Definition line_cells (ems : list emission) (file : N) (line : nat) : list cell :=
  flat_map em_cells (filter (on_line file line) ems).

(* the longest prefix of at most k cells at addresses a, a+1, ... *)
Fixpoint take_run (k : nat) (a : Z) (cs : list cell) : list cell * list cell :=
  match k, cs with
  | S k', (a', b) :: r => if a' =? a then let (p, q) := take_run k' (a + 1) r in ((a', b) :: p, q) else ([], cs)
  | _, _ => ([], cs)
  end.

Fixpoint pack (fuel n : nat) (cs : list cell) : list (list cell) :=
  match fuel with
  | O => []
  | S f => match cs with
           | [] => []
           | (a, _) :: _ => let (p, q) := take_run n a cs in p :: pack f n q
           end
  end.

Fixpoint number_rows (line : nat) (first : bool) (groups : list (list cell)) : list row :=
  match groups with
  | [] => []
  | g :: r => mkRow line (option_map fst (hd_error g)) (map snd g) first :: number_rows line false r
  end.

Definition spec_line_rows (n line : nat) (cs : list cell) : list row :=
  match cs with
  | [] => [mkRow line None [] true]
  | _ => number_rows line true (pack (length cs) n cs)
  end.

Definition spec_rows (n nlines : nat) (file : N) (ems : list emission) : list row :=
  flat_map (fun line => spec_line_rows n line (line_cells ems file line)) (seq 0 nlines).

(* what a row shows: (address, byte) pairs *)
Definition row_cells (r : row) : list cell :=
  match r_addr r with Some a => cells_from a (r_bytes r) | None => [] end.

(* ------------------------------------------------------------------ well-formed emission
   The source map as the emitter leaves it: every entry, paired with the bytes its statement emitted, records the target
   address range of exactly those bytes, and the segment it names holds them at the corresponding emit addresses
   (target address - target_offset).  Proved of the emission model in props/C11.v (C11_wf_emission). *)
Definition slice (data : list N) (start len : nat) : list N := firstn len (skipn start data).

Definition entry_ok (segs : segments) (o : offset) (bs : list N) : Prop :=
  o_pc1 o = o_pc0 o + Z.of_nat (length bs) /\
  (bs <> [] -> exists seg, get_segment segs (o_segment o) = Some seg /\
     ls_lo seg <= o_pc0 o - ls_toff seg /\ o_pc1 o - ls_toff seg <= ls_hi seg /\
     slice (ls_data seg) (Z.to_nat (o_pc0 o - ls_toff seg - ls_lo seg)) (length bs) = bs).

Definition wf_emission (segs : segments) (es : list (offset * list N)) : Prop :=
  Forall (fun e => entry_ok segs (fst e) (snd e)) es.

(* the span lies within a file of the code map *)
Definition span_ok (cm : code_map) (s : span) : Prop :=
  exists f, find_file cm (sp_file s) = Ok f /\ 0 <= sp_lo s <= file_len f /\ 0 <= sp_hi s <= file_len f.
Definition spans_ok (cm : code_map) (es : list (offset * list N)) : Prop :=
  Forall (fun e => span_ok cm (o_span (fst e))) es.

Definition src_of (cm : code_map) (name : N) : list N := match find_file cm name with Ok f => f_src f | Panic => [] end.

(* what an entry means: its statement (file, line on which its span begins) emitted these bytes from this address on *)
Definition emission_of (cm : code_map) (e : offset * list N) : emission :=
  let s := o_span (fst e) in
  mkEm (sp_file s) (spec_line (src_of cm (sp_file s)) (sp_lo s)) (o_pc0 (fst e)) (snd e).
Definition emissions (cm : code_map) (es : list (offset * list N)) : list emission := map (emission_of cm) es.

(* Spec: what the verdict of a unit test means (property C18), independent of how the runner is organised.

   The machine is spec/Cpu6502.v.  A test is an initial machine state and a set of assertions, each attached to
   a program counter.  The data types of assertions and the evaluation of one assertion expression in one machine
   state (registers, flags, ram(), ram16(), `*`, symbols in scope) are shared with model/TestRun.v; what the spec
   fixes is WHEN assertions are evaluated, WHICH one decides, and WHERE the failure is reported:

     - declarative form (spec_passes / spec_fails): in terms of the sequence of machine states c0, step c0, ...;
     - executable form (spec_run), used as the oracle on the implementation's output.

   Traces play no role in the verdict. *)
From Coq Require Import List NArith ZArith Bool.
Import ListNotations.
From Mos Require Import model.I64 Gen.BinOps model.Expr spec.Cpu6502 Gen.CpuSyms model.TestRun.
Open Scope Z_scope.

(* the assertions attached to program counter pc, in source order *)
Fixpoint asserts_at (els : list test_element) (pc : Z) : list assertion :=
  match els with
  | [] => []
  | Assertion a :: r => if s_pc16 (a_snap a) =? pc then a :: asserts_at r pc else asserts_at r pc
  | Trace _ :: r => asserts_at r pc
  end.

(* ---------- the value of an assertion in a machine state, as documented ---------- *)
(* registers: cpu.a cpu.x cpu.y cpu.sp; flags: cpu.flags.<name> is the flag's bit of the status register
   (carry 1, zero 2, interrupt_disable 4, decimal 8, overflow 64, negative 128) when set, 0 when clear *)
Definition n_cpu : text := [99; 112; 117]%N.
Definition n_flags : text := [102; 108; 97; 103; 115]%N.
Definition doc_cpu_entries (c : cpu) : symtab :=
  let p := rP c in
  let flag (name : text) (b : bool) (mask : Z) := ([n_cpu; n_flags; name], DNum (if b then mask else 0)) in
  [ ([n_cpu; [115; 112]%N], DNum (rSP c));
    ([n_cpu; [97]%N], DNum (rA c));
    ([n_cpu; [120]%N], DNum (rX c));
    ([n_cpu; [121]%N], DNum (rY c));
    flag [99; 97; 114; 114; 121]%N (fC p) 1;
    flag [122; 101; 114; 111]%N (fZ p) 2;
    flag [105; 110; 116; 101; 114; 114; 117; 112; 116; 95; 100; 105; 115; 97; 98; 108; 101]%N (fI p) 4;
    flag [100; 101; 99; 105; 109; 97; 108]%N (fD p) 8;
    flag [111; 118; 101; 114; 102; 108; 111; 119]%N (fV p) 64;
    flag [110; 101; 103; 97; 116; 105; 118; 101]%N (fN p) 128 ].

(* ram(a): the byte at address a (mod 65536), for EVERY a, $FFFF included; ram16(a): the little-endian word at
   a, for every a up to $FFFE.  A word at $FFFF would leave the memory: it has no value (the assertion cannot be
   evaluated and fails) *)
Definition doc_ram_fn (m : ram) (word : bool) (arg : eres) : eres :=
  match arg with
  | EVal (Some (SNum a)) =>
      let a16 := a mod 65536 in
      if word then
        if a16 =? 65535 then EVal None
        else EVal (Some (SNum (ram_read m a16 + 256 * ram_read m (a16 + 1))))
      else EVal (Some (SNum (ram_read m a16)))
  | EVal _ => EVal None
  | EErr x => EErr x
  | EPanic => EPanic
  end.

Definition assertion_value (c : cpu) (a : assertion) : eres :=
  eval_g doc_ram_fn (rM c) (env_with (doc_cpu_entries c) (a_snap a)) (a_expr a).

(* an assertion holds in a machine state when its expression evaluates to something other than zero;
   it fails when the value is zero or there is no value; evaluation may also abort the process *)
Definition spec_check (c : cpu) (a : assertion) : check :=
  match assertion_value c a with
  | EVal (Some (SNum z)) => if z =? 0 then CkFail else CkPass
  | EVal (Some (SStr _)) => CkPass
  | EVal None | EErr _ => CkFail
  | EPanic => CkPanic
  end.
Definition holds (c : cpu) (a : assertion) : Prop := spec_check c a = CkPass.
Definition fails (c : cpu) (a : assertion) : Prop := spec_check c a = CkFail.

(* ---------- declarative ---------- *)
Definition state_after (c0 : cpu) (k : nat) : cpu := Nat.iter k step c0.

(* every assertion attached to the current pc holds *)
Definition clean (els : list test_element) (c : cpu) : Prop := Forall (holds c) (asserts_at els (rPC c)).

(* the first k instruction boundaries are passed: all assertions there hold, none is the end of the test,
   and every instruction executed is in the modelled subset *)
Definition runs_to (els : list test_element) (c0 : cpu) (k : nat) : Prop :=
  forall j, (j < k)%nat ->
    clean els (state_after c0 j) /\ at_brk (state_after c0 j) = false /\ in_subset (state_after c0 j) = true.

(* passed: execution reaches a BRK and every assertion encountered on the way (each time it is reached,
   including those attached to the BRK itself) holds *)
Definition spec_passes (els : list test_element) (c0 : cpu) : Prop :=
  exists k, runs_to els c0 k /\ clean els (state_after c0 k) /\ at_brk (state_after c0 k) = true.

(* a is the first assertion of l that does not hold, and it fails (rather than aborting) *)
Definition first_failing (c : cpu) (l : list assertion) (a : assertion) : Prop :=
  exists l1 l2, l = l1 ++ a :: l2 /\ Forall (holds c) l1 /\ fails c a.

(* failed at assertion a in machine state cf: cf is the first boundary with an assertion that does not hold,
   and a is the first such assertion there (source order) *)
Definition spec_fails (els : list test_element) (c0 : cpu) (a : assertion) (cf : cpu) : Prop :=
  exists k, runs_to els c0 k /\ cf = state_after c0 k /\ first_failing cf (asserts_at els (rPC cf)) a.

(* ---------- executable ---------- *)
Inductive sverdict :=
  | SPass
  | SFail (l : loc) (message : text) (c : cpu)     (* location and message of the deciding assertion, state there *)
  | SAbort                                         (* evaluating an assertion aborts the process *)
  | SOutOfSubset
  | SOutOfFuel.

Fixpoint first_violation (c : cpu) (l : list assertion) : fired :=
  match l with
  | [] => FNone
  | a :: r => match spec_check c a with
              | CkPass => first_violation c r
              | CkFail => FFail a
              | CkPanic => FPanic
              end
  end.

Fixpoint spec_run (fuel : nat) (els : list test_element) (c : cpu) : sverdict :=
  match fuel with
  | O => SOutOfFuel
  | S f =>
      match first_violation c (asserts_at els (rPC c)) with
      | FFail a => SFail (a_loc a) (failure_message a) c
      | FPanic => SAbort
      | FNone =>
          if at_brk c then SPass
          else match exec c with
               | Some c' => spec_run f els c'
               | None => SOutOfSubset
               end
      end
  end.

(* the part of the runner's verdict the property talks about *)
Definition view (v : verdict) : sverdict :=
  match v with
  | Passed => SPass
  | Failed f => SFail (f_loc f) (f_message f) (f_cpu f)
  | VPanic => SAbort
  | VOutOfSubset => SOutOfSubset
  | VOutOfFuel => SOutOfFuel
  end.

(* the verdict of a test of a project: the machine starts at the test's pc with the RAM holding the image of
   the test's own bank and zeroes elsewhere *)
Definition bank_byte (b : bank) (a : Z) : Z := image_read (b_start b) (b_data b) a.
Definition spec_test (fuel : nat) (banks : list bank) (t : test_case) : sverdict :=
  match find_bank banks (tc_bank t) with
  | Some b => spec_run fuel (tc_elements t) (cpu_init (tc_pc t mod 65536) (load_program (b_start b) (b_data b)))
  | None => SAbort
  end.

(* how often the instruction boundary `pc` is reached in the first n boundaries of the run from c (the run stops
   at the end of the test); used to describe when a runner that checks each assertion only once is wrong *)
Fixpoint visits (fuel : nat) (pc : Z) (c : cpu) : nat :=
  match fuel with
  | O => O
  | S f => ((if (rPC c =? pc)%Z then 1 else 0) +
            (if at_brk c then O else match exec c with Some c' => visits f pc c' | None => O end))%nat
  end.

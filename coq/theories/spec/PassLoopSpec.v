(* Spec: when does the assembler's pass loop stop?  Written over the *sequence of passes* (what pass k saw and
   produced), without the loop's control flow: pass k ends the loop iff it is clean, or repeats the errors of pass
   k-1, or is error-free and leaves the same non-empty undefined set as the latest earlier error-free pass. *)
From Coq Require Import List Bool Arith.

Section Spec.
  Variables C E U : Type.
  Variable pass : C -> C * E * bool.
  Variable undefined : C -> U.
  Variable take_undefined : C -> C.
  Variable no_segments : C -> bool.
  Variable create_default_segment : C -> C.
  Variable next_pass : C -> C.
  Variable e_none : E.
  Variable e_is_empty : E -> bool.
  Variable e_eqb : E -> E -> bool.
  Variable u_none : U.
  Variable u_is_empty : U -> bool.
  Variable u_eqb : U -> U -> bool.
  Variable c0 : C.

  (* the context pass k starts from, if no earlier pass ended the loop *)
  Fixpoint ctx_before (k : nat) : C :=
    match k with
    | O => c0
    | S j =>
        match pass (ctx_before j) with
        | (c1, errors, _) =>
            next_pass (if no_segments c1 then create_default_segment c1
                       else if e_is_empty errors then take_undefined c1 else c1)
        end
    end.
  Definition ctx_after (k : nat) : C := fst (fst (pass (ctx_before k))).
  Definition errors_of (k : nat) : E := snd (fst (pass (ctx_before k))).
  Definition symbols_added (k : nat) : bool := snd (pass (ctx_before k)).
  Definition has_segments (k : nat) : bool := negb (no_segments (ctx_after k)).
  Definition undefined_of (k : nat) : U := undefined (ctx_after k).

  Definition previous_errors (k : nat) : E := match k with O => e_none | S j => errors_of j end.
  (* the undefined set of the latest error-free pass before k that had segments *)
  Fixpoint previous_undefined (k : nat) : U :=
    match k with
    | O => u_none
    | S j => if has_segments j && e_is_empty (errors_of j) then undefined_of j else previous_undefined j
    end.

  Definition clean_pass (k : nat) : bool :=
    has_segments k && e_is_empty (errors_of k) && u_is_empty (undefined_of k) && negb (symbols_added k).
  Definition same_errors_twice (k : nat) : bool :=
    has_segments k && negb (e_is_empty (errors_of k)) && e_eqb (errors_of k) (previous_errors k).
  Definition same_undefined_twice (k : nat) : bool :=
    has_segments k && e_is_empty (errors_of k) && negb (u_is_empty (undefined_of k))
    && u_eqb (undefined_of k) (previous_undefined k).
  Definition stops_at (k : nat) : bool := clean_pass k || same_errors_twice k || same_undefined_twice k.

  (* k is the first pass that satisfies one of the three conditions *)
  Definition first_stop (k : nat) : Prop := stops_at k = true /\ forall j, j < k -> stops_at j = false.
End Spec.

(* Spec: what `.text <encoding> "..."` stores for printable ASCII text (codes 32..126), written from the layout of the
   Commodore character sets, not from the table in petscii.rs:
   PETSCII (lower/upper-case set): space, punctuation and digits keep their ASCII code, '@' '[' ']' too; lower-case
   letters sit at $41-$5A, upper-case letters at $61-$7A; characters without a PETSCII equivalent become $7F.
   Screen codes: '@' is 0, lower-case letters 1..26, '[' 27, ']' 29, space/punctuation/digits keep 32..63,
   upper-case letters 65..90, untranslatable $5F. *)
From Coq Require Import List NArith Bool.
Import ListNotations.
Open Scope N_scope.

Definition is_lower (c : N) : bool := (97 <=? c) && (c <=? 122).
Definition is_upper (c : N) : bool := (65 <=? c) && (c <=? 90).

Definition spec_petscii (c : N) : N :=
  if is_lower c then c - 32
  else if is_upper c then c + 32
  else if ((32 <=? c) && (c <=? 64)) || (c =? 91) || (c =? 93) then c
  else 127.

Definition spec_screen (c : N) : N :=
  if is_lower c then c - 96
  else if is_upper c then c
  else if c =? 64 then 0
  else if c =? 91 then 27
  else if c =? 93 then 29
  else if (32 <=? c) && (c <=? 63) then c
  else 95.

Definition printable (c : N) : Prop := 32 <= c <= 126.

(* Spec C02: what it means that the result of an assembly is a fixed point.
   The last pass leaves a log (g_trace) of everything it stored in the symbol table, every expression it
   evaluated and every run of bytes it emitted.  The result is a fixed point when, read against the FINAL
   symbol table,
     - every symbol the pass stored (labels, block start/end symbols `-`/`+`, constants, macro arguments,
       `segments.<name>.start/end`) is found under its scope and name with exactly the stored value, and
     - every expression the pass evaluated (instruction operands, data items, `* =` and `.align` arguments,
       `.if` / `.loop` conditions, segment options) evaluates, from the scope and at the program counter where it
       was evaluated, to exactly the value that was used.
   Labels store the target program counter of the current segment at the statement, so the first clause says that
   labels are addresses; the second says that no value from an earlier pass survives in an operand. *)
From Coq Require Import List NArith ZArith Bool.
Import ListNotations.
From Mos Require Import model.I64 Gen.BinOps model.Expr model.SymTab model.Segment model.Asm.

(* the value and type the table holds for `id` looked up from the scope node (no bubbling: a definition site) *)
Definition sym_lookup (t : symtab symbol) (scope_nx : nat) (id : ipath) : option (sdata * symtype) :=
  match try_index t scope_nx id with
  | Some nx => match try_get t nx with Some s => Some (s_data s, s_ty s) | None => None end
  | None => None
  end.

Definition sd_equiv (a b : sdata) : Prop := sdata_eqb a b = true.

Definition holds (t : symtab symbol) (ev : event) : Prop :=
  match ev with
  | EvSym scope_nx id d ty => exists d', sym_lookup t scope_nx id = Some (d', ty) /\ sd_equiv d' d
  | EvEval scope_nx pc e v => eval (env_of t scope_nx pc) e = EVal v
  | EvEmit _ _ _ _ => True
  | EvSegNew _ => True
  end.

Definition FixedPoint (c : ctx) : Prop := Forall (holds (symbols c)) (g_trace c).

(* the last pass was stable: nothing was flagged (ensured by the stop rule), no symbol node was added during it
   (ensured by the stop rule since the fix of F-C02a), and no `.var` changed its value / no import re-linked symbols
   (mutable variables are outside the property: their value is by definition the one at the point of use) *)
Definition no_silent_change (c : ctx) : Prop := g_vch c = 0%nat.

(* NavSpec -- vocabulary for the statements about navigation (props/C16.v): what a definition has recorded, what one
   tracked lookup / one pass records, where the last identifier of a path sits.  Definitions only. *)
From Coq Require Import List NArith Arith Bool.
Import ListNotations.
From Mos Require Import model.SymGraph model.Analysis.

(* a traversal's Symbol steps (bubbling `Super` steps dropped) *)
Fixpoint symbols_of (steps : list QueryTraversalStep) : list node :=
  match steps with
  | Super _ :: rest => symbols_of rest
  | Symbol c :: rest => c :: symbols_of rest
  | [] => []
  end.

(* the scope at which bubbling stopped *)
Fixpoint resolving_scope (n : node) (steps : list QueryTraversalStep) : node :=
  match steps with
  | Super pn :: rest => resolving_scope pn rest
  | _ => n
  end.

(* ---------- the association list ---------- *)
Definition empty_def := mkDef None [].

Definition get_or_empty (a : Analysis) (ty : DefinitionType) : Def :=
  match get a ty with Some d => d | None => empty_def end.

Definition usages_of (a : Analysis) (ty : DefinitionType) : list DefinitionLocation := usages (get_or_empty a ty).

Definition location_of (a : Analysis) (ty : DefinitionType) : option DefinitionLocation := location (get_or_empty a ty).

(* what the loop records for the Symbol steps l of path p, starting at column offset pos *)
Fixpoint recorded (g : graph) (l : list node) (p : path) (pos : nat) (span : Span)
  : list (DefinitionType * DefinitionLocation) :=
  match l, p with
  | c :: l', id :: p' =>
      match parent g c with
      | Some ps => [(DtSymbol c, mkLoc ps (subspan span pos (pos + List.length id)))]
      | None => []
      end ++ recorded g l' p' (pos + List.length id + 1) span
  | _, _ => []
  end.

(* everything one tracked lookup records *)
Definition use_pairs (fuel : nat) (g : graph) (scope : node) (p : path) (span : Span)
  : list (DefinitionType * DefinitionLocation) :=
  match query_traversal_steps fuel g scope p with
  | Some steps => recorded g (symbols_of steps) p 0 span
  | None => []
  end.

(* offsets of the last identifier of a path inside its span *)
Fixpoint last_segment (p : path) (pos : nat) : nat * nat :=
  match p with
  | [] => (pos, pos)
  | [id] => (pos, pos + List.length id)
  | id :: rest => last_segment rest (pos + List.length id + 1)
  end.

Definition last_segment_span (span : Span) (p : path) : Span :=
  let '(a, b) := last_segment p 0 in subspan span a b.

(* ---------- what one pass records ---------- *)
Definition event_pairs (fuel : nat) (e : Event) : list (DefinitionType * DefinitionLocation) :=
  match e with
  | EvUse g scope p span => use_pairs fuel g scope p span
  | EvUsage ty l => [(ty, l)]
  | _ => []
  end.

Definition event_locations (e : Event) : list (DefinitionType * DefinitionLocation) :=
  match e with
  | EvDefine nx l => [(DtSymbol nx, l)]
  | EvFileLocation f l => [(DtFilename f, l)]
  | _ => []
  end.

Definition wf_event (e : Event) : Prop := match e with EvUse _ _ p _ => p <> [] | _ => True end.

(* ---------- navigation ---------- *)
Definition found_at (ty : DefinitionType) (d : Def) (file line col : nat) : bool :=
  match ty with
  | DtFilename _ => contains_usage d file line col
  | _ => contains d file line col
  end.

(* what a pass recorded at a position *)
Definition recorded_at (fuel : nat) (evs : list Event) (ty : DefinitionType) (f l c : nat) : Prop :=
  (exists e u, In e evs /\ In (ty, u) (event_pairs fuel e) /\ span_contains (dl_span u) f l c = true) \/
  (exists nx loc, ty = DtSymbol nx /\ In (EvDefine nx loc) evs /\ span_contains (dl_span loc) f l c = true).

(* ---------- greedy analysis: the analysed table = the build's table plus extra edges ---------- *)
Definition without (is_extra : edge -> bool) (g : graph) : graph := filter (fun e => negb (is_extra e)) g.

Definition node_of (g : graph) (n : node) : Prop := exists e, In e g /\ (e_src e = n \/ e_dst e = n).

(* the class of the known finding: an identifier of the path is the name of a greedy-only definition *)
Definition Known_greedy_untaken_definition (is_extra : edge -> bool) (g' : graph) (p : path) : bool :=
  existsb (fun e => is_extra e && existsb (ident_eqb (e_lbl e)) p) g'.


(* FormatFlat.v -- the texts of a token list in source order: every leaf text (keywords in their canonical spelling,
   mnemonics and registers in the configured casing) and every comment, nothing else (no blanks, no line breaks).
   Written over the formatter's AST independently of how the formatter lays them out; C12 compares its non-whitespace
   characters with those of the formatted text. *)
From Coq Require Import List NArith Bool.
Import ListNotations.
From Mos Require Import model.Format Gen.FmtRules model.FormatTokens spec.FormatSpec.

Definition lt_flat (l : ltext) : list text := otrivia_comments (l_trivia l) ++ [l_data l].
Definition opt_flat {A} (f : A -> list text) (x : option A) : list text := match x with Some a => f a | None => [] end.

Definition item_flat (i : istring_item) : list text :=
  match i with
  | IString l => [display_located l]
  | IIdentifierPath p => [[LBRACE]] ++ lt_flat p ++ [[RBRACE]]
  end.
Definition istring_flat (s : istring) : list text := lt_flat (is_lquote s) ++ flat_map item_flat (is_items s) ++ [[QUOTE]].

Fixpoint expr_flat (e : expr) : list text :=
  match e with
  | BinaryExpression lhs op rhs =>
      otrivia_comments (l_trivia lhs) ++ expr_flat (l_data lhs) ++ lt_flat op ++
      otrivia_comments (l_trivia rhs) ++ expr_flat (l_data rhs)
  | Factor tag_not tag_neg f =>
      opt_flat lt_flat tag_not ++ opt_flat lt_flat tag_neg ++ otrivia_comments (l_trivia f) ++ factor_flat (l_data f)
  end
with factor_flat (f : factor_) : list text :=
  match f with
  | CurrentProgramCounter star => lt_flat star
  | ExprParens lparen inner rparen =>
      lt_flat lparen ++ otrivia_comments (l_trivia inner) ++ expr_flat (l_data inner) ++ lt_flat rparen
  | FunctionCall name lparen args rparen =>
      lt_flat name ++ lt_flat lparen ++
      flat_map (fun ec : located expr * option ltext =>
                  otrivia_comments (l_trivia (fst ec)) ++ expr_flat (l_data (fst ec)) ++ opt_flat lt_flat (snd ec)) args ++
      lt_flat rparen
  | IdentifierValue path modifier => opt_flat lt_flat modifier ++ lt_flat path
  | Number ty value => lt_flat ty ++ lt_flat value
  | FInterpolatedString s => istring_flat s
  end.

Definition lexpr_flat (e : located expr) : list text := otrivia_comments (l_trivia e) ++ expr_flat (l_data e).
Definition arg_exprs_flat (args : arg_exprs) : list text :=
  flat_map (fun ec : located expr * option ltext => lexpr_flat (fst ec) ++ opt_flat lt_flat (snd ec)) args.
Definition arg_ids_flat (args : arg_ids) : list text :=
  flat_map (fun ic : ltext * option ltext => lt_flat (fst ic) ++ opt_flat lt_flat (snd ic)) args.
Definition import_as_flat (a : import_as) : list text := lt_flat (ia_tag a) ++ lt_flat (ia_path a).
Definition import_args_flat (a : import_args) : list text :=
  match a with
  | All star as_ => lt_flat star ++ opt_flat import_as_flat as_
  | Specific args =>
      flat_map (fun pc : located specific_import_arg * option ltext =>
                  otrivia_comments (l_trivia (fst pc)) ++ lt_flat (sa_path (l_data (fst pc))) ++
                  opt_flat import_as_flat (sa_as (l_data (fst pc))) ++ opt_flat lt_flat (snd pc)) args
  end.

Section Flat.
  Variable o : options.

  Definition suffix_flat (s : ltext * ltext) : list text :=
    lt_flat (fst s) ++ otrivia_comments (l_trivia (snd s)) ++ [casing_format (o_register_casing o) (l_data (snd s))].
  Definition operand_flat (op : operand) : list text :=
    opt_flat lt_flat (op_lchar op) ++ lexpr_flat (op_expr op) ++
    match op_mode op with
    | Indirect => opt_flat suffix_flat (op_suffix op) ++ opt_flat lt_flat (op_rchar op)
    | OuterIndirect => opt_flat lt_flat (op_rchar op) ++ opt_flat suffix_flat (op_suffix op)
    | _ => opt_flat suffix_flat (op_suffix op)
    end.

  (* the `{` trivia of a config block that is the value of a `.define` / config pair *)
  Definition vlead_flat (v : token) : list text := match v with Config _ => lead_comments v | _ => [] end.

  Fixpoint body_flat (t : token) : list text :=
    match t with
    | Align tag value => [l_data tag] ++ lexpr_flat value
    | Assert tag value msg => [l_data tag] ++ lexpr_flat value ++ opt_flat istring_flat msg
    | Braces b | Config b => block_flat b
    | ConfigPair key eq value =>
        [l_data key] ++ lt_flat eq ++ otrivia_comments (l_trivia value) ++ vlead_flat (l_data value) ++ body_flat (l_data value)
    | Data values size => [l_data size] ++ arg_exprs_flat values
    | Definition_ tag id value =>
        [l_data tag] ++ lt_flat id ++ match value with Some v => vlead_flat v ++ body_flat v | None => [] end
    | Eof _ => []
    | Error e => [l_data e]
    | Expression e => expr_flat e
    | File tag filename => [l_data tag] ++ istring_flat filename
    | If tag_if value if_ tag_else else_ =>
        [l_data tag_if] ++ lexpr_flat value ++ iblock_flat if_ ++
        opt_flat lt_flat tag_else ++ match else_ with Some e => iblock_flat e | None => [] end
    | Import tag args from filename b =>
        [l_data tag] ++ import_args_flat args ++ lt_flat from ++ istring_flat filename ++
        match b with Some b => iblock_flat b | None => [] end
    | Instruction mnemonic op => [casing_format (o_casing o) (l_data mnemonic)] ++ opt_flat operand_flat op
    | Label_ id colon b => [l_data id ++ [COLON]] ++ match b with Some b => iblock_flat b | None => [] end
    | Loop tag e b => [l_data tag] ++ lexpr_flat e ++ iblock_flat b
    | MacroDefinition tag id lparen args rparen b =>
        [l_data tag] ++ lt_flat id ++ lt_flat lparen ++ arg_ids_flat args ++ lt_flat rparen ++ iblock_flat b
    | MacroInvocation id lparen args rparen => [l_data id] ++ lt_flat lparen ++ arg_exprs_flat args ++ lt_flat rparen
    | ProgramCounterDefinition star eq value => [l_data star] ++ lt_flat eq ++ lexpr_flat value
    | Segment tag id b => [l_data tag] ++ lexpr_flat id ++ match b with Some b => iblock_flat b | None => [] end
    | Test tag id b => [l_data tag] ++ lexpr_flat id ++ iblock_flat b
    | Text tag encoding text_ => [l_data tag] ++ opt_flat lt_flat encoding ++ lexpr_flat text_
    | Trace tag lparen args rparen => [l_data tag] ++ opt_flat lt_flat lparen ++ arg_exprs_flat args ++ opt_flat lt_flat rparen
    | VariableDefinition ty id eq value => [l_data ty] ++ lt_flat id ++ lt_flat eq ++ lexpr_flat value
    end
  (* `{`, the inner tokens (each with its leading trivia), the trivia of `}` and `}` *)
  with block_flat (b : block) : list text :=
    match b with
    | mkBlock lparen inner rparen =>
        [l_data lparen] ++
        (fix go (ts : list token) : list text :=
           match ts with [] => [] | t :: r => lead_comments t ++ body_flat t ++ go r end) inner ++
        lt_flat rparen
    end
  (* a block that belongs to a directive, label or import: with the trivia of its `{` *)
  with iblock_flat (b : block) : list text :=
    match b with
    | mkBlock lparen inner rparen =>
        lt_comments lparen ++ [l_data lparen] ++
        (fix go (ts : list token) : list text :=
           match ts with [] => [] | t :: r => lead_comments t ++ body_flat t ++ go r end) inner ++
        lt_flat rparen
    end.

  Definition tokens_flat (ts : list token) : list text := flat_map (fun t => lead_comments t ++ body_flat t) ts.
End Flat.

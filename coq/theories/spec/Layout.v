(* Spec: what a bank image, a file and a prg header are -- pointwise, without looking at how
   binary_writer.rs computes them. *)
From Coq Require Import List NArith ZArith Bool.
Import ListNotations.
From Mos Require Import model.Output.
Open Scope Z_scope.

Definition covers (s : segment) (a : Z) : bool := (s_start s <=? a) && (a <? s_end s).

(* the byte at address a: data of the LAST-defined segment covering a, else the fill value *)
Definition spec_byte (fill : N) (segs : list segment) (a : Z) : N :=
  fold_left (fun acc s => if covers s a then nth (Z.to_nat (a - s_start s)) (s_data s) 0%N else acc) segs fill.

Definition spec_lo (segs : list segment) : Z :=
  match segs with [] => 0 | s :: r => fold_left (fun m x => Z.min m (s_start x)) r (s_start s) end.
Definition spec_hi (segs : list segment) : Z :=
  match segs with [] => 0 | s :: r => fold_left (fun m x => Z.max m (s_end x)) r (s_end s) end.

Definition nonempty (s : segment) : Prop := s_data s <> [].

(* contents of the file named f: concatenation, in bank order, of the images with that filename *)
Definition spec_file (banks : list (option N * list N)) (f : option N) : list N :=
  concat (map snd (filter (fun b => fname_eqb (fst b) f) banks)).

Definition spec_prg_header (start : Z) : list N := [Z.to_N (start mod 256); Z.to_N ((start / 256) mod 256)].

(* ---- executable form of the spec (used as the oracle on the implementation's output) ---- *)
Definition zrange (lo : Z) (n : nat) : list Z := map (fun i => lo + Z.of_nat i) (seq 0 n).

Definition spec_image (fill : N) (segs : list segment) : Z * list N :=
  match segs with
  | [] => (0, [])
  | _ => let lo := spec_lo segs in
         (lo, map (spec_byte fill segs) (zrange lo (Z.to_nat (spec_hi segs - lo))))
  end.

Definition seg_nonempty (s : segment) : bool := match s_data s with [] => false | _ => true end.

(* image of one bank, None = the configuration is an error *)
Definition spec_bank (default_bank : N) (segs : list segment) (o : bank_options) : option (Z * list N) :=
  let ss := filter seg_nonempty (bank_segments default_bank segs (b_name o)) in
  let '(lo, img) := spec_image (fill_of (b_fill o)) ss in
  match b_size o with
  | None => Some (lo, img)
  | Some size =>
      let len := Z.of_nat (length img) in
      if len =? size then Some (lo, img)
      else if len <? size then
        match b_fill o with Some f => Some (lo, img ++ repeat f (Z.to_nat (size - len))) | None => None end
      else None
  end.

Fixpoint all_some {A} (l : list (option A)) : option (list A) :=
  match l with
  | [] => Some []
  | None :: _ => None
  | Some x :: r => match all_some r with Some r' => Some (x :: r') | None => None end
  end.

Fixpoint distinct_names (l : list (option N)) (seen : list (option N)) : list (option N) :=
  match l with
  | [] => []
  | f :: r => if existsb (fname_eqb f) seen then distinct_names r seen else f :: distinct_names r (f :: seen)
  end.

(* the files a configuration must produce; None = it must be rejected *)
Definition spec_build (configured : option output_format) (banks : list bank_options) (segs : list segment)
  : option (list (option N * list N)) :=
  match banks with
  | [] => None
  | first :: _ =>
      let default_bank := b_name first in
      let names := map b_name banks in
      if negb (forallb (fun s => existsb (N.eqb (bank_of default_bank s)) names) segs) then None
      else if (match configured with Some Prg => negb (Nat.eqb (length banks) 1) | _ => false end) then None
      else match all_some (map (spec_bank default_bank segs) banks) with
           | None => None
           | Some imgs =>
               let bs := combine (map b_filename banks) (map snd imgs) in
               let bs := match output_format_of configured (length banks), imgs with
                         | Prg, (lo0, _) :: _ => (None, spec_prg_header lo0) :: bs
                         | _, _ => bs
                         end in
               Some (map (fun f => (f, spec_file bs f)) (distinct_names (map fst bs) []))
           end
  end.

(* From the declared configuration: without bank definitions everything goes to one default bank;
   with bank definitions every segment must name a bank -- except that a program consisting of a single
   segment may leave it out (it goes to the first bank; documented convenience). *)
Definition spec_project (default_name : N) (configured : option output_format)
           (banks : list bank_options) (segs : list segment) : option (list (option N * list N)) :=
  match banks with
  | [] => spec_build configured [mkBankOpts default_name None None None]
                     (map (fun s => mkSeg (s_start s) (s_data s)
                                          (match s_bank s with None => Some default_name | b => b end) (s_write s)) segs)
  | first :: _ =>
      match segs with
      | [s] => spec_build configured banks
                 [mkSeg (s_start s) (s_data s) (match s_bank s with None => Some (b_name first) | b => b end) (s_write s)]
      | _ => if forallb (fun s => match s_bank s with Some _ => true | None => false end) segs
             then spec_build configured banks segs else None
      end
  end.

(* DapSpec.v -- what C19 asks of the debug-adapter protocol, stated on states and schedules of model/Dap.v
   (the CPU stays abstract: `step`, `pc`, `fin` are Section variables, so nothing here bounds programs or run lengths). *)
From Coq Require Import List ZArith Bool.
Import ListNotations.
From Mos Require Import model.Dap.
Open Scope Z_scope.

Section DapSpec.
  Variable cpu : Type.
  Variable pc : cpu -> Z.
  Variable step : cpu -> cpu.
  Variable fin : cpu -> bool.
  Variable step_over : cpu -> cpu.
  Variable step_out : cpu -> cpu.
  Variable reset_lcp : bool.

  Notation st := (st cpu).

  (* the machine thread is not between "copied Running" and "executed the instruction" *)
  Definition machine_cannot_execute (s : st) : Prop := ml s = MTop \/ ml s = MExit.

  (* the session thread is in the middle of a step command: it has executed but not yet published the new pc.
     Nothing is sent to the client from these locations. *)
  Definition in_step (s : st) : bool :=
    match sl s with
    | SPauseRead (RStep _) | SPausePublish (RStep _) _ => true
    | _ => false
    end.

  (* "every stopped event leaves the machine halted, and the reported location is the CPU's":
     whenever the published run state is Stopped(p) -- which is what stackTrace, the locals scope and evaluate report --
     and the session is not inside a step command, the machine thread cannot execute and p is the program counter. *)
  Definition Inv (s : st) : Prop :=
    in_step s = false -> forall p, rs s = Stopped p -> machine_cannot_execute s /\ p = pc (cp s).

  (* the session is idle or serving a request that only reads (or replaces the breakpoints) *)
  Definition observing (s : st) : bool :=
    match sl s with
    | SIdle | SStack | SRegs | SEvalRegs | SEvalFlags | SEvalState | SSetBps _ | SDead => true
    | _ => false
    end.

  (* requests that resume, step or pause the machine *)
  Definition run_control (a : action) : bool :=
    match a with
    | S_req RConfigDone | S_req RContinue | S_req RPause | S_req (RStep _) => true
    | _ => false
    end.

  Definition is_exec (a : action) : bool := match a with M_execute => true | _ => false end.
  Definition is_resume (a : action) : bool := match a with S_resume | S_start => true | _ => false end.

  Definition count_exec (tr : list action) : nat := length (filter is_exec tr).

  (* --- breakpoints: a monitor over schedules.
     `seen` = since the CPU last changed, Stopped(pc of the CPU) has been published (the client was told "stopped here").
     An M_execute of a non-final instruction at an address covered by a breakpoint while `seen` is false is an
     instruction at a breakpoint address executed without stopping there first. *)
  Definition publishes_here (p : protocol) (a : action) (s s' : st) : bool :=
    match rs s' with
    | Stopped q => (q =? pc (cp s')) &&
                   match a with
                   | M_check_bp => match ml s' with MTop => true | _ => false end
                   | S_pause_read_pc => match p with StateHeld => true | Legacy => false end
                   | S_pause_publish => true
                   | _ => false
                   end
    | _ => false
    end.

  Definition changes_cpu (a : action) (s : st) : bool :=
    match a with
    | M_execute => negb (fin (cp s))
    | S_step_exec => true
    | _ => false
    end.

  Fixpoint bp_ok (p : protocol) (tr : list action) (s : st) (seen : bool) : bool :=
    match tr with
    | [] => true
    | a :: tr' =>
        match step_act cpu pc step fin step_over step_out reset_lcp p a s with
        | None => true
        | Some (s', _) =>
            let violated := match a with
                            | M_execute => negb (fin (cp s)) && hit (bps s) (pc (cp s)) && negb seen
                            | _ => false
                            end in
            let seen' := if changes_cpu a s then false
                         else if publishes_here p a s s' then true else seen in
            negb violated && bp_ok p tr' s' seen'
        end
    end.

  (* client discipline assumed by the breakpoint theorem: step commands are only sent while the published state is
     Stopped, setBreakpoints only while it is not Running (before configurationDone, or stopped) -- what a DAP client
     does.  (A setBreakpoints that races the running machine cannot promise anything about the instruction in flight.) *)
  Fixpoint disciplined (p : protocol) (tr : list action) (s : st) : bool :=
    match tr with
    | [] => true
    | a :: tr' =>
        match step_act cpu pc step fin step_over step_out reset_lcp p a s with
        | None => true
        | Some (s', _) =>
            match a with
            | S_req (RStep _) =>
                match rs s with Stopped _ => disciplined p tr' s' | _ => false end
            | S_req (RSetBps _) =>
                match rs s with Running => false | _ => disciplined p tr' s' end
            | _ => disciplined p tr' s'
            end
        end
    end.

  (* --- breakpoints replaced at any time, also during a free run: the monitor with an exemption for the instruction in
     flight.  S_set_bps (which sends the response) while the machine thread is past its breakpoint check (MChecked) exempts
     that one pending M_execute: it was checked against the list in force before the response.  Every later instruction
     is checked against the new list. *)
  Fixpoint bp_ok_live (p : protocol) (tr : list action) (s : st) (seen exempt : bool) : bool :=
    match tr with
    | [] => true
    | a :: tr' =>
        match step_act cpu pc step fin step_over step_out reset_lcp p a s with
        | None => true
        | Some (s', _) =>
            let violated := match a with
                            | M_execute => negb (fin (cp s)) && hit (bps s) (pc (cp s)) && negb seen && negb exempt
                            | _ => false
                            end in
            let seen' := if changes_cpu a s then false
                         else if publishes_here p a s s' then true else seen in
            let exempt' := match a with
                           | M_execute => false
                           | S_set_bps => exempt || match ml s with MChecked => true | _ => false end
                           | _ => exempt
                           end in
            negb violated && bp_ok_live p tr' s' seen' exempt'
        end
    end.

  (* the only client discipline left: step commands are sent while the published state is Stopped *)
  Fixpoint steps_when_stopped (p : protocol) (tr : list action) (s : st) : bool :=
    match tr with
    | [] => true
    | a :: tr' =>
        match step_act cpu pc step fin step_over step_out reset_lcp p a s with
        | None => true
        | Some (s', _) =>
            match a with
            | S_req (RStep _) =>
                match rs s with Stopped _ => steps_when_stopped p tr' s' | _ => false end
            | _ => steps_when_stopped p tr' s'
            end
        end
    end.

  (* the instruction the CPU is about to execute jumps to itself (a `jmp *` loop): class of the known finding *)
  Definition Known_breakpoint_self_loop (c : cpu) : bool := pc (step c) =? pc c.

  (* the guard of the breakpoint theorem: the program never executes such an instruction *)
  Definition no_self_loop : Prop := forall c, fin c = false -> Known_breakpoint_self_loop c = false.
End DapSpec.

(* Spec: the documented NMOS 6502 instruction set, derived from the aaabbbcc bit
   structure of the opcode byte -- independently of the row-per-form table in
   opcodes.rs.  151 opcodes. *)
From Coq Require Import List NArith ZArith Bool.
Import ListNotations.
From Mos Require Import Gen.OpcodeTable.
Open Scope N_scope.

Inductive mode := MImp | MImm | MZp | MZpX | MZpY | MAbs | MAbsX | MAbsY | MIndX | MIndY | MInd | MRel.
Scheme Equality for mode.
Scheme Equality for mnemonic.
Scheme Equality for am.
Scheme Equality for reg.

Definition op (aaa bbb cc : N) : N := aaa * 32 + bbb * 4 + cc.

(* cc = 01 : ALU group *)
Definition g01 (m : mnemonic) : option N :=
  match m with Ora => Some 0 | And => Some 1 | Eor => Some 2 | Adc => Some 3
             | Sta => Some 4 | Lda => Some 5 | Cmp => Some 6 | Sbc => Some 7 | _ => None end.
Definition bbb01 (md : mode) : option N :=
  match md with MIndX => Some 0 | MZp => Some 1 | MImm => Some 2 | MAbs => Some 3
              | MIndY => Some 4 | MZpX => Some 5 | MAbsY => Some 6 | MAbsX => Some 7 | _ => None end.
(* cc = 10 : read-modify-write / X group *)
Definition g10 (m : mnemonic) : option N :=
  match m with Asl => Some 0 | Rol => Some 1 | Lsr => Some 2 | Ror => Some 3
             | Stx => Some 4 | Ldx => Some 5 | Dec => Some 6 | Inc => Some 7 | _ => None end.
Definition bbb10 (m : mnemonic) (md : mode) : option N :=
  let shift := match m with Asl | Rol | Lsr | Ror => true | _ => false end in
  let xreg := match m with Stx | Ldx => true | _ => false end in
  match md with
  | MImm => match m with Ldx => Some 0 | _ => None end
  | MZp => Some 1
  | MImp => if shift then Some 2 else None           (* accumulator *)
  | MAbs => Some 3
  | MZpX => if xreg then None else Some 5
  | MZpY => if xreg then Some 5 else None
  | MAbsX => match m with Stx | Ldx => None | _ => Some 7 end
  | MAbsY => match m with Ldx => Some 7 | _ => None end
  | _ => None end.
(* cc = 00 : control / Y group *)
Definition g00 (m : mnemonic) : option N :=
  match m with Bit => Some 1 | Sty => Some 4 | Ldy => Some 5 | Cpy => Some 6 | Cpx => Some 7 | _ => None end.
Definition bbb00 (m : mnemonic) (md : mode) : option N :=
  match md with
  | MImm => match m with Ldy | Cpy | Cpx => Some 0 | _ => None end
  | MZp => Some 1
  | MAbs => Some 3
  | MZpX => match m with Sty | Ldy => Some 5 | _ => None end
  | MAbsX => match m with Ldy => Some 7 | _ => None end
  | _ => None end.
Definition single (m : mnemonic) : option N :=
  match m with
  | Brk => Some 0 | Rti => Some 64 | Rts => Some 96
  | Php => Some 8 | Plp => Some 40 | Pha => Some 72 | Pla => Some 104
  | Dey => Some 136 | Tay => Some 168 | Iny => Some 200 | Inx => Some 232
  | Clc => Some 24 | Sec => Some 56 | Cli => Some 88 | Sei => Some 120
  | Tya => Some 152 | Clv => Some 184 | Cld => Some 216 | Sed => Some 248
  | Txa => Some 138 | Txs => Some 154 | Tax => Some 170 | Tsx => Some 186 | Dex => Some 202 | Nop => Some 234
  | _ => None end.
Definition branch (m : mnemonic) : option N :=   (* xx y 10000 *)
  match m with Bpl => Some 16 | Bmi => Some 48 | Bvc => Some 80 | Bvs => Some 112
             | Bcc => Some 144 | Bcs => Some 176 | Bne => Some 208 | Beq => Some 240 | _ => None end.

Definition isa (m : mnemonic) (md : mode) : option N :=
  match g01 m with
  | Some a => match bbb01 md with
              | Some b => if andb (mnemonic_beq m Sta) (mode_beq md MImm) then None else Some (op a b 1)
              | None => None end
  | None =>
  match g10 m with
  | Some a => match bbb10 m md with Some b => Some (op a b 2) | None => None end
  | None =>
  match g00 m with
  | Some a => match bbb00 m md with Some b => Some (op a b 0) | None => None end
  | None =>
  match m, md with
  | Jmp, MAbs => Some 76 | Jmp, MInd => Some 108 | Jsr, MAbs => Some 32
  | _, MImp => single m
  | _, MRel => branch m
  | _, _ => None end end end end.

Definition all_modes := [MImp; MImm; MZp; MZpX; MZpY; MAbs; MAbsX; MAbsY; MIndX; MIndY; MInd; MRel].

Definition is_branch (m : mnemonic) : bool := match branch m with Some _ => true | None => false end.

(* The ten syntactic operand forms of the assembler language. *)
Inductive form :=
  | FImplied            (* nop        *)
  | FImm                (* lda #e     *)
  | FAbs                (* lda e      *)
  | FAbsX               (* lda e,x    *)
  | FAbsY               (* lda e,y    *)
  | FIndX               (* lda (e,x)  *)
  | FIndY               (* lda (e),y  *)
  | FInd                (* jmp (e)    *)
  | FIndYinner          (* lda (e,y)  -- no such mode on the 6502 *)
  | FIndXouter.         (* lda (e),x  -- no such mode on the 6502 *)
Definition all_forms := [FImplied; FImm; FAbs; FAbsX; FAbsY; FIndX; FIndY; FInd; FIndYinner; FIndXouter].

Open Scope Z_scope.
Definition byte (v : Z) : N := Z.to_N (v mod 256).
Definition lo (v : Z) : N := Z.to_N (v mod 256).
Definition hi (v : Z) : N := Z.to_N ((v / 256) mod 256).

Definition one_byte (o : option N) (v : Z) : option (list N) :=
  match o with Some o => if v <=? 255 then Some [o; byte v] else None | None => None end.
Definition two_byte (o : option N) (v : Z) : option (list N) :=
  match o with Some o => Some [o; lo v; hi v] | None => None end.
(* zero page exactly when a zero-page variant exists and the value is 0..255, else absolute *)
Definition zp_abs (zp ab : option N) (v : Z) : option (list N) :=
  match zp with
  | Some o => if v <=? 255 then Some [o; byte v] else two_byte ab v
  | None => two_byte ab v
  end.

(* What the ISA prescribes for a non-branch instruction given in syntactic form f
   with operand value v (0 <= v <= 65535).  None = must be rejected. *)
Definition spec_encode (m : mnemonic) (f : form) (v : Z) : option (list N) :=
  match f with
  | FImplied => match isa m MImp with Some o => Some [o] | None => None end
  | FImm => one_byte (isa m MImm) v
  | FAbs => zp_abs (isa m MZp) (isa m MAbs) v
  | FAbsX => zp_abs (isa m MZpX) (isa m MAbsX) v
  | FAbsY => zp_abs (isa m MZpY) (isa m MAbsY) v
  | FIndX => one_byte (isa m MIndX) v
  | FIndY => one_byte (isa m MIndY) v
  | FInd => two_byte (isa m MInd) v
  | FIndYinner | FIndXouter => None
  end.

(* Relative branch at address pc to target: signed byte of target - (pc + 2). *)
Definition spec_branch (m : mnemonic) (pc target : Z) : option (list N) :=
  match isa m MRel with
  | Some o => let d := target - (pc + 2) in
              if (-128 <=? d) && (d <=? 127) then Some [o; byte d] else None
  | None => None
  end.

(* DapStepSpec.v -- what `next` and `stepOut` mean, on the uninterrupted run: call depth counted from the opcodes. *)
From Coq Require Import ZArith Bool Lia.
From Mos Require Import model.DapStep.
Open Scope Z_scope.

Section DapStepSpec.
  Variable opT : Z -> Z.

  (* number of open calls before instruction n (relative to the start of the test) *)
  Fixpoint depth (n : nat) : Z :=
    match n with
    | O => 0
    | S k => depth k + (if opT (Z.of_nat k) =? 32 then 1 else if opT (Z.of_nat k) =? 96 then -1 else 0)
    end.

  Definition depthZ (i : Z) : Z := depth (Z.to_nat i).

  (* j is where the call executed at index c has just returned: the first index after c at c's depth *)
  Definition returns_at (c j : Z) : Prop :=
    0 <= c < j /\ opT c = 32 /\ depthZ j = depthZ c /\ forall k, c < k < j -> depthZ k > depthZ c.

  (* c is the call that opened the (innermost) frame instruction i executes in *)
  Definition frame_call (c i : Z) : Prop :=
    0 <= c < i /\ opT c = 32 /\ depthZ i = depthZ c + 1 /\ (forall k, c < k <= i -> depthZ k > depthZ c).
End DapStepSpec.

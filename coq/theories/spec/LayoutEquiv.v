(* Spec for C08 (layout does not change meaning), parser side.
   - `skeleton`: a token tree (as a generic labelled tree) with everything layout may change erased: spans, trivia,
     the source spelling of case-insensitive keywords (mnemonics, directives, registers, `as from else`, encodings),
     the case of number digits (hex digits, true/false), CRLF vs LF, punctuation that the structure implies.
     Anonymous scope numbers are kept (they do not depend on layout).
   - `same_res R`: two parser results agree up to R on the values and have the same remaining text (positions ignored).
   - `blind R p`: the result of p depends neither on the absolute position nor on the parser state.
   - `cbody`: well-nested block-comment bodies (independent of the scanner): plain characters and nested comments. *)
From Coq Require Import List NArith Bool.
Import ListNotations.
From Mos Require Import model.Utf model.Nom Gen.ParserTables model.Parser.
Open Scope N_scope.

(* a generic tree: node kind, text payload, children *)
Inductive sx := Sx (kind : N) (txt : text) (kids : list sx).
Definition leaf (k : N) (t : text) : sx := Sx k t [].
Definition sx_opt {A} (f : A -> sx) (o : option A) : list sx := match o with Some a => [f a] | None => [] end.
Definition lower (t : text) : text := map ascii_lower t.

Fixpoint join_dots (p : path) : text := match p with [] => [] | [x] => x | x :: r => x ++ 46 :: join_dots r end.
Definition sk_str_item (it : str_item) : sx :=
  match it with SString l => leaf 1 (data l) | SPath l => leaf 2 (join_dots (data l)) end.
Definition sk_istring (s : istring) : sx := Sx 3 [] (map sk_str_item (items s)).

Fixpoint sk_expr (e : expr) : sx :=
  match e with
  | EBinary op l r => Sx 10 (disp_BinaryOp (data op)) [sk_expr (data l); sk_expr (data r)]
  | EFactor f tn tg =>
      Sx 11 ((match tn with Some _ => [33] | None => [] end) ++ (match tg with Some _ => [45] | None => [] end)) [sk_efactor (data f)]
  end
with sk_efactor (f : efactor) : sx :=
  match f with
  | FCurrentPc _ => leaf 12 []
  | FParens _ inner _ => Sx 13 [] [sk_expr (data inner)]
  | FCall name _ args _ => Sx 14 (data name) (map (fun a => sk_expr (data (fst a))) args)
  | FIdent m p => Sx 15 (match m with Some m => disp_AddressModifier (data m) | None => [] end) [leaf 2 (join_dots (data p))]
  | FNumber ty v => Sx 16 (disp_NumberType (data ty)) [leaf 1 (lower (data v))]
  | FString s => sk_istring s
  end.
Definition sk_lexpr (l : located expr) : sx := sk_expr (data l).
Definition sk_eargs (l : arg_items expr) : list sx := map (fun a => sk_expr (data (fst a))) l.

Definition mode_code (m : addressing_mode) : N :=
  match m with AbsoluteOrZp => 0 | Immediate => 1 | Implied => 2 | Indirect => 3 | OuterIndirect => 4 end.
Definition sk_operand (o : operand_t) : sx :=
  Sx 20 [mode_code (o_mode o)]
     (sk_lexpr (o_expr o) :: sx_opt (fun s : register_suffix => leaf 21 (disp_IndexRegister (fst (data (register s))))) (suffix o)).
Definition sk_import_as (a : import_as) : sx := leaf 22 (join_dots (data (snd a))).
Definition sk_specific (a : specific_import_arg) : sx := Sx 23 (join_dots (data (sp_path a))) (sx_opt sk_import_as (sp_as a)).
Definition sk_import_args (a : import_args) : sx :=
  match a with
  | ImportAll _ as_ => Sx 24 [] (sx_opt sk_import_as as_)
  | ImportSpecific l => Sx 25 [] (map (fun a => sk_specific (data (fst a))) l)
  end.
Definition nat_code (n : nat) : text := [N.of_nat n].

Fixpoint sk_token (t : token) : sx :=
  match t with
  | TAlign _ value => Sx 30 [] [sk_lexpr value]
  | TAssert _ value msg => Sx 31 [] (sk_lexpr value :: sx_opt sk_istring msg)
  | TBraces b n => Sx 32 (nat_code n) [sk_block b]
  | TConfig b => Sx 33 [] [sk_block b]
  | TConfigPair key _ value => Sx 34 (data key) [sk_token (data value)]
  | TData size values => Sx 35 (disp_DataSize (fst (data size))) (sk_eargs values)
  | TDefinition _ id value => Sx 36 (data id) (match value with Some v => [sk_token v] | None => [] end)
  | TEof l => leaf 37 (data l)
  | TError l => leaf 38 (data l)
  | TExpression e => Sx 39 [] [sk_expr e]
  | TIf _ value b els => Sx 40 [] (sk_lexpr value :: sk_block b :: match els with Some e => [sk_block (snd e)] | None => [] end)
  | TImport _ args _ filename b n =>
      Sx 41 (nat_code n) (sk_import_args args :: sk_istring filename :: match b with Some b => [sk_block b] | None => [] end)
  | TFile _ filename => Sx 42 [] [sk_istring filename]
  | TInstruction mn op => Sx 43 (fst (data mn)) (sx_opt sk_operand op)
  | TLabel id _ b => Sx 44 (data id) (match b with Some b => [sk_block b] | None => [] end)
  | TLoop _ n e b => Sx 45 (nat_code n) [sk_lexpr e; sk_block b]
  | TMacroDefinition _ id _ args _ b => Sx 46 (data id) (sk_block b :: map (fun a => leaf 1 (data (fst a))) args)
  | TMacroInvocation id _ args _ => Sx 47 (data id) (sk_eargs args)
  | TProgramCounterDefinition _ _ value => Sx 48 [] [sk_lexpr value]
  | TSegment _ id b => Sx 49 [] (sk_lexpr id :: match b with Some b => [sk_block b] | None => [] end)
  | TTest _ id b => Sx 50 [] [sk_lexpr id; sk_block b]
  | TText _ enc e => Sx 51 (match enc with Some l => disp_TextEncoding (fst (data l)) | None => [] end) [sk_lexpr e]
  | TTrace _ parens => Sx 52 (match parens with Some _ => [40] | None => [] end) (match parens with Some p => sk_eargs (snd (fst p)) | None => [] end)
  | TVariableDefinition ty id _ value => Sx 53 (disp_VariableType (fst (data ty)) ++ 32 :: data id) [sk_lexpr value]
  end
with sk_block (b : block_t) : sx :=
  match b with
  | Block _ inner rp => Sx 60 (match rp with Some _ => [125] | None => [] end) (map sk_token inner)
  end.

Definition skeleton (l : list token) : list sx := map sk_token l.

(* decidable equality of skeletons *)
Fixpoint text_eqb (a b : text) : bool :=
  match a, b with [], [] => true | x :: a', y :: b' => (x =? y) && text_eqb a' b' | _, _ => false end.
Fixpoint sx_eqb (a b : sx) : bool :=
  match a, b with
  | Sx k t l, Sx k' t' l' =>
      (k =? k') && text_eqb t t' &&
      (fix go (l l' : list sx) : bool :=
         match l, l' with
         | [], [] => true
         | x :: r, y :: r' => sx_eqb x y && go r r'
         | _, _ => false
         end) l l'
  end.
Fixpoint sxl_eqb (l l' : list sx) : bool :=
  match l, l' with [], [] => true | x :: r, y :: r' => sx_eqb x y && sxl_eqb r r' | _, _ => false end.

(* results up to a relation on values; the remaining TEXT must be the same, positions are ignored *)
Definition same_res {A B} (R : A -> B -> Prop) (x : result A) (y : result B) : Prop :=
  match x, y with
  | Ok a r, Ok b r' => R a b /\ rem r = rem r'
  | Err, Err => True
  | Abort u, Abort v => u = v
  | _, _ => False
  end.
Definition blind {A} (R : A -> A -> Prop) (p : parser A) : Prop :=
  forall st st' o o' x, same_res R (snd (p st (mkIn o x))) (snd (p st' (mkIn o' x))).

(* well-nested block comment bodies *)
Inductive cbody : text -> Prop :=
| cb_nil : cbody []
| cb_char : forall c s, c <> 47 -> c <> 42 -> cbody s -> cbody (c :: s)
| cb_nest : forall b s, cbody b -> cbody s -> cbody (47 :: 42 :: b ++ 42 :: 47 :: s).

(* Spec C07: expansion by hand.  `expand` rewrites a program into one without the selected constructs:
     .loop n { b }      ->  n blocks  { .const index = i   b }          (i = 0 .. n-1)
     .if c { a } else { b }  ->  the statements of the selected branch (no new scope)
     m(arg..)           ->  { .const p = (arg) ..   body of m }          (fresh scope, parameters bound)
     uses of a constant ->  its parenthesised defining expression
     .import .. from f  ->  imp: { parameter block, statements of f }  .const name = imp.name ..
     .import * as ns from f  ->  ns: { parameter block, statements of f }
   Conditions, loop counts and the binding of names are read off the FINAL symbols of the build of the original
   program (the same map the C02 oracle uses), from the scope in which each construct stands; loop bodies and macro
   bodies are expanded once per iteration / invocation.  `print_tokens` renders the result as source text. *)
From Coq Require Import List NArith ZArith Bool PeanoNat.
Import ListNotations.
From Mos Require Import model.I64 Gen.BinOps model.Expr Gen.OpcodeTable spec.Isa model.Encode.
From Mos Require Import model.SymTab Gen.CodegenConsts model.Asm spec.Relayout.
Open Scope Z_scope.

Record xopts := mkX { x_loops : bool; x_ifs : bool; x_macros : bool; x_consts : bool; x_imports : bool }.

Definition sp0 : span := (0, 0).
Definition lit (z : Z) : lexpr := mkL (ENum 10 (z_to_text z) false false) sp0 [].

(* ---- names an expression mentions ---- *)
Fixpoint has_pc (e : expr) : bool :=
  match e with
  | EBin _ l r => has_pc l || has_pc r
  | EPc _ _ => true
  | EParens i _ _ => has_pc i
  | ECall _ args _ _ => existsb has_pc args
  | _ => false
  end.
Definition first_names (e : expr) : list ident := flat_map (fun p => match p with i :: _ => [i] | [] => [] end) (all_paths e).

(* names bound directly in a macro's scope: its parameters and the labels / constants at the top level of its body *)
Definition body_names (ts : list token) : list ident :=
  flat_map (fun t => match t with
                     | TLabel id _ _ => [id]
                     | TVarDef _ id _ _ => [id]
                     | TMacroDef id _ _ _ => [id]
                     | _ => []
                     end) ts.
Fixpoint token_exprs (fuel : nat) (t : token) : list expr :=
  match fuel with
  | O => []
  | S f =>
      let blk b := flat_map (token_exprs f) (blk_inner b) in
      let oblk b := match b with Some b => blk b | None => [] end in
      match t with
      | TAlign v | TPc v => [le_expr v]
      | TBraces _ b => blk b
      | TData _ vs => map le_expr vs
      | TIf v a b => le_expr v :: blk a ++ oblk b
      | TInstr _ _ (Some (e, _)) => [le_expr e]
      | TLabel _ _ b => oblk b
      | TLoop e _ b => le_expr e :: blk b
      | TInvoke _ _ args => map le_expr args
      | TSegment id b => le_expr id :: oblk b
      | TText _ t => [le_expr t]
      | TVarDef _ _ _ v => [le_expr v]
      | _ => []
      end
  end.
(* does a statement list contain an `.if` or a macro invocation (at any depth)? *)
Fixpoint varies (fuel : nat) (t : token) : bool :=
  match fuel with
  | O => true
  | S f =>
      let blk b := existsb (varies f) (blk_inner b) in
      let oblk b := match b with Some b => blk b | None => false end in
      match t with
      | TIf _ _ _ | TInvoke _ _ _ | TImport _ _ _ _ => true
      | TBraces _ b => blk b
      | TLabel _ _ b => oblk b
      | TLoop _ _ b => blk b
      | TSegment _ b => oblk b
      | _ => false
      end
  end.
Definition mentions (fuel : nat) (ts : list token) (n : ident) : bool :=
  existsb (fun e => existsb (ident_eqb n) (first_names e)) (flat_map (token_exprs fuel) ts).

(* ---- substitution of constants ---- *)
Definition cdefs := list (ipath * (expr * ipath)).        (* full path of the constant -> defining expression, scope of the definition *)

(* the full path a name resolves to (Relayout.resolve returns the value) *)
Fixpoint resolve_path (fuel : nat) (m : fsyms) (scope id : ipath) : option ipath :=
  match fuel with
  | O => None
  | S f =>
      match walk scope id with
      | Some p => if node_exists m p then Some p else
                    if contains_super id then None else match scope with [] => None | _ => resolve_path f m (removelast scope) id end
      | None => if contains_super id then None else match scope with [] => None | _ => resolve_path f m (removelast scope) id end
      end
  end.
Fixpoint cd_get (d : cdefs) (p : ipath) : option (expr * ipath) :=
  match d with [] => None | (k, v) :: r => if ipath_eqb k p then Some v else cd_get r p end.

Definition symdata_eqb (a b : option symdata) : bool :=
  match a, b with
  | Some (DNum x), Some (DNum y) => x =? y
  | Some (DStr x), Some (DStr y) => text_eqb x y
  | _, _ => false
  end.

Section Subst.
Variable m : fsyms.
Variable defs : cdefs.
Variable scope : ipath.
(* `c` may be replaced by `(e)` when e has no `*` and every name in e means the same at the use as at the definition *)
Definition substitutable (e : expr) (def_scope : ipath) : bool :=
  negb (has_pc e) &&
  forallb (fun p => symdata_eqb (resolve (S (List.length scope)) m scope p) (resolve (S (List.length def_scope)) m def_scope p))
          (all_paths e) &&
  negb (match all_paths e with [] => false | _ => false end).
Fixpoint subst_expr (e : expr) : expr :=
  match e with
  | EBin op l r => EBin op (subst_expr l) (subst_expr r)
  | EId p None fnot fneg =>
      match resolve_path (S (List.length scope)) m scope p with
      | Some full => match cd_get defs full with
                     | Some (d, ds) => if substitutable d ds then EParens d fnot fneg else e
                     | None => e
                     end
      | None => e
      end
  | EParens i a b => EParens (subst_expr i) a b
  | other => other
  end.
End Subst.

(* ---- the expander ---- *)
Record xstate := mkXS { xs_scope : ipath; xs_macro : nat; xs_defs : cdefs; xs_fresh : nat }.
Inductive xres (A : Type) := XOk (a : A) (s : xstate) | XStop (why : nat).     (* 0 fuel, 1 not expandable here *)
Arguments XOk {A}. Arguments XStop {A}.
Definition X (A : Type) := xstate -> xres A.
Definition xret {A} (a : A) : X A := fun s => XOk a s.
Definition xbind {A B} (x : X A) (k : A -> X B) : X B := fun s => match x s with XOk a s' => k a s' | XStop w => XStop w end.
Definition xstop {A} (w : nat) : X A := fun _ => XStop w.
Definition xget : X xstate := fun s => XOk s s.
Definition xmod (f : xstate -> xstate) : X unit := fun s => XOk tt (f s).
Notation "x <= m ;; k" := (xbind m (fun x => k)) (at level 61, m at next level, right associativity).
Notation "m ;;= k" := (xbind m (fun _ => k)) (at level 61, right associativity).

Fixpoint xmapcat {A} (f : A -> X (list token)) (l : list A) : X (list token) :=
  match l with [] => xret [] | a :: r => x <= f a ;; y <= xmapcat f r ;; xret (x ++ y) end.

Definition x_in_scope {A} (scope : ident) (f : X A) : X A :=
  s0 <= xget ;;
  xmod (fun s => mkXS (xs_scope s0 ++ [scope]) 0%nat (xs_defs s) (xs_fresh s)) ;;=      (* invocations are numbered per scope (5239ce9) *)
  r <= f ;;
  xmod (fun s => mkXS (xs_scope s0) (xs_macro s0) (xs_defs s) (xs_fresh s)) ;;=
  xret r.

Section Expand.
Variable o : xopts.
Variable m : fsyms.
Variable macros : mtable.
Variable fuel0 : nat.

Definition xenv (s : xstate) : env := mkEnv (resolve (S (List.length (xs_scope s))) m (xs_scope s)) None.
Definition xeval_i64 (e : lexpr) : X (option Z) := fun s =>
  if has_pc (le_expr e) then XStop 1%nat else
  match eval (xenv s) (le_expr e) with
  | EVal (Some (SNum n)) => XOk (Some n) s
  | _ => XOk None s
  end.
Definition xsub (e : lexpr) : X lexpr := fun s =>
  if x_consts o then XOk (mkL (subst_expr m (xs_defs s) (xs_scope s) (le_expr e)) (le_span e) (le_ids e)) s else XOk e s.

Fixpoint xloop (fuel : nat) (i n : Z) (body : Z -> X (list token)) : X (list token) :=
  if n <=? i then xret [] else
  match fuel with O => xstop 0%nat | S f => x <= body i ;; y <= xloop f (i + 1) n body ;; xret (x ++ y) end.

Definition t_imp : ident := [105; 109; 112; 95]%N.       (* "imp_" *)

Fixpoint xp (fuel : nat) (t : token) : X (list token) :=
  match fuel with
  | O => xstop 0%nat
  | S f =>
      let xps := xmapcat (xp f) in
      let xblk (b : block) : X block := i <= xps (blk_inner b) ;; xret (Blk (blk_lparen b) (blk_rparen b) i) in
      match t with
      | TAlign v => v' <= xsub v ;; xret [TAlign v']
      | TBraces sc b => b' <= x_in_scope sc (xblk b) ;; xret [TBraces sc b']
      | TData size vs => vs' <= (fix go (l : list lexpr) : X (list lexpr) :=
                                   match l with [] => xret [] | e :: r => e' <= xsub e ;; r' <= go r ;; xret (e' :: r') end) vs ;;
                         xret [TData size vs']
      | TIf v a b =>
          if x_ifs o then
            c <= xeval_i64 v ;;
            match c with
            | None => xstop 1%nat
            | Some c => if negb (c =? 0) then xps (blk_inner a)
                        else match b with Some b => xps (blk_inner b) | None => xret [] end
            end
          else
            (* the untaken branch is never assembled: only the taken one is expanded (and counted) *)
            c <= xeval_i64 v ;;
            match c with
            | None => xstop 1%nat
            | Some c =>
                if negb (c =? 0) then a' <= xblk a ;; xret [TIf v a' b]
                else match b with Some b => b' <= xblk b ;; xret [TIf v a (Some b')] | None => xret [TIf v a None] end
            end
      | TImport args isc b file =>
          match file with
          | None => xret [t]
          | Some toks =>
              s <= xget ;;
              let inner_defs := collect fuel0 (xs_scope s ++ [isc]) toks in
              (* `as` a one-component namespace: the file's text in a labelled block of that name at the import site *)
              let simple := match args with ImportAll _ (Some ([_], _)) => true | ImportAll _ (Some _) => false | _ => true end in
              if x_imports o && simple && (match inner_defs with [] => true | _ => false end) then
                let name := t_imp ++ z_to_text (Z.of_nat (xs_fresh s)) in
                xmod (fun s => mkXS (xs_scope s) (xs_macro s) (xs_defs s) (S (xs_fresh s))) ;;=
                body <= x_in_scope isc (pb <= (match b with Some b => xps (blk_inner b) | None => xret [] end) ;; fb <= xps toks ;; xret (pb ++ fb)) ;;
                let pre := xs_scope s ++ [isc] in
                let names : list (ident * ipath) :=
                  match args with
                  | ImportAll _ _ =>
                      flat_map (fun kv => if Nat.eqb (List.length (fst kv)) (S (List.length pre)) && is_prefix pre (fst kv)
                                             && negb (is_special (last (fst kv) []))
                                          then [(last (fst kv) [], [last (fst kv) []])] else []) m
                  | ImportSpecific items =>
                      flat_map (fun it => match it with
                                          | (orig, as_, _) => match (match as_ with Some a => a | None => orig end) with
                                                              | [alias] => [(alias, orig)]
                                                              | _ => []
                                                              end
                                          end) items
                  end in
                match args with
                | ImportAll _ (Some ([ns], _)) => xret [TLabel ns sp0 (Some (Blk sp0 sp0 body))]
                | _ =>
                    xret (TLabel name sp0 (Some (Blk sp0 sp0 body))
                          :: map (fun na => TVarDef VConst (fst na) sp0 (mkL (EId (name :: snd na) None false false) sp0 [])) names)
                end
              else xstop 1%nat        (* an import that stays cannot be printed from the tree *)
          end
      | TInstr mn msp (Some (e, fo)) => e' <= xsub e ;; xret [TInstr mn msp (Some (e', fo))]
      | TLabel id isp (Some b) => b' <= x_in_scope id (xblk b) ;; xret [TLabel id isp (Some b')]
      | TLoop e lsc b =>
          n <= xeval_i64 e ;;
          match n with
          | None => xstop 1%nat
          | Some count =>
              if x_loops o then
                xloop f loop_first_index count (fun i =>
                  body <= x_in_scope (iteration_scope_name lsc i) (xps (blk_inner b)) ;;
                  xret [TBraces (iteration_scope_name lsc i)
                          (Blk (blk_lparen b) (blk_rparen b) (TVarDef VConst t_index (le_span e) (lit i) :: body))])
              else if (1 <? count) && existsb (varies fuel0) (blk_inner b) then xstop 1%nat
              else
                (* kept as a loop: its body must expand the same way in every iteration *)
                bodies <= xloop f loop_first_index count (fun i =>
                            body <= x_in_scope (iteration_scope_name lsc i) (xps (blk_inner b)) ;; xret [TBraces lsc (Blk sp0 sp0 body)]) ;;
                match bodies with
                | [] => xret [t]
                | TBraces _ (Blk _ _ first) :: _ => xret [TLoop e lsc (Blk (blk_lparen b) (blk_rparen b) first)]
                | _ => xret [t]
                end
          end
      | TInvoke name nsp args =>
          s <= xget ;;
          xmod (fun s => mkXS (xs_scope s) (S (xs_macro s)) (xs_defs s) (xs_fresh s)) ;;=
          match find_def macros (S (List.length (xs_scope s))) (xs_scope s) name with
          | None => xstop 1%nat
          | Some (params, body) =>
              if negb (Nat.eqb (List.length args) (List.length params)) then xstop 1%nat else
              let sc := macro_scope_name (xs_macro s) in
              args' <= (fix go (l : list lexpr) : X (list lexpr) :=
                          match l with [] => xret [] | e :: r => e' <= xsub e ;; r' <= go r ;; xret (e' :: r') end) args ;;
              body' <= x_in_scope sc (xps body) ;;
              let bound := map fst params ++ body_names body in
              (* an argument that names something bound in the macro's scope, or that steps up with `super`, does not mean the
                 same inside the new block as at the invocation *)
              let clash := existsb (fun a => existsb (fun n => existsb (ident_eqb n) bound) (first_names (le_expr a))
                                            || existsb contains_super (all_paths (le_expr a)) || has_pc (le_expr a)) args in
              let uses_block_symbols := mentions fuel0 body t_minus || mentions fuel0 body t_plus in
              if x_macros o && negb clash && negb uses_block_symbols then
                xret [TBraces sc (Blk sp0 sp0
                        (map (fun pa => TVarDef VConst (fst (fst pa)) sp0
                                          (mkL (EParens (le_expr (snd pa)) false false) sp0 [])) (combine params args')
                         ++ body'))]
              else xret [TInvoke name nsp args']
          end
      | TPc v => v' <= xsub v ;; xret [TPc v']
      | TSegment id (Some b) => b' <= xblk b ;; xret [TSegment id (Some b')]
      | TVarDef ty id isp v =>
          v' <= xsub v ;;
          s <= xget ;;
          (match ty with
           | VConst => xmod (fun s => mkXS (xs_scope s) (xs_macro s) ((xs_scope s ++ [id], (le_expr v', xs_scope s)) :: xs_defs s) (xs_fresh s))
           | VVar => xret tt
           end) ;;=
          xret [TVarDef ty id isp v']
      | TUnsupported => xstop 1%nat
      | other => xret [other]
      end
  end.
End Expand.

(* an import that is still there (e.g. in the body of a loop that runs zero times) cannot be printed from the tree *)
Fixpoint has_import (fuel : nat) (t : token) : bool :=
  match fuel with
  | O => true
  | S f =>
      let blk b := existsb (has_import f) (blk_inner b) in
      let oblk b := match b with Some b => blk b | None => false end in
      match t with
      | TImport _ _ _ _ => true
      | TBraces _ b => blk b
      | TLabel _ _ b => oblk b
      | TIf _ a b => blk a || oblk b
      | TLoop _ _ b => blk b
      | TSegment _ b => oblk b
      | TMacroDef _ _ _ b => blk b
      | _ => false
      end
  end.

Definition expand (o : xopts) (fuel : nat) (m : fsyms) (toks : list token) : option (list token) + nat :=
  match xmapcat (xp o m (collect fuel [] toks) fuel fuel) toks (mkXS [] 0%nat [] 0%nat) with
  | XOk r _ => if existsb (has_import fuel) r then inr 1%nat else inl (Some r)
  | XStop w => inr w
  end.

(* ------------------------------------------------------------------ printing *)
Definition chr (c : N) : text := [c].
Definition txt_of (s : list N) : text := s.
Fixpoint join (sep : text) (l : list text) : text :=
  match l with [] => [] | [x] => x | x :: r => x ++ sep ++ join sep r end.
Definition nl : text := [10%N].
Definition spc : text := [32%N].

Definition op_text (op : binop) : text :=
  match op with
  | Add => [43] | Sub => [45] | Mul => [42] | Div => [47] | Mod => [37] | Shl => [60; 60] | Shr => [62; 62] | Xor => [94]
  | Eq => [61; 61] | Ne => [33; 61] | Gt => [62] | GtEq => [62; 61] | Lt => [60] | LtEq => [60; 61]
  | BinOps.And => [38; 38] | Or => [124; 124]
  end%N.
Definition flags_text (fnot fneg : bool) : text := (if fnot then [33%N] else []) ++ (if fneg then [45%N] else []).
Definition path_text (p : ipath) : text := join [46%N] p.

Fixpoint print_expr (e : expr) : text :=
  match e with
  | EBin op l r => print_expr l ++ spc ++ op_text op ++ spc ++ print_expr r
  | ENum radix digits fnot fneg =>
      flags_text fnot fneg ++ (if radix =? 16 then [36%N] else if radix =? 2 then [37%N] else []) ++ digits
  | EId p md fnot fneg =>
      flags_text fnot fneg ++ (match md with Some LowByte => [60%N] | Some HighByte => [62%N] | None => [] end) ++ path_text p
  | EPc fnot fneg => flags_text fnot fneg ++ [42%N]
  | EParens i fnot fneg => flags_text fnot fneg ++ [40%N] ++ print_expr i ++ [41%N]
  | ECall name args fnot fneg =>
      flags_text fnot fneg ++ name ++ [40%N] ++ join [44; 32]%N (map print_expr args) ++ [41%N]
  | EStr items fnot fneg =>
      flags_text fnot fneg ++ [34%N]
      ++ flat_map (fun it => match it with SLit s => s | SPath p => [123%N] ++ path_text p ++ [125%N] end) items ++ [34%N]
  end.

Definition kw (s : list N) : text := s.
(* the mnemonic spelling is supplied by the caller (the table of parser/mnemonic.rs lives in Gen/OpcodeTable.v as Coq strings) *)
Section Print.
Variable mnemonic_text : mnemonic -> text.

Definition operand_text (e : lexpr) (f : form) : text :=
  let x0 := print_expr (le_expr e) in
  (* an operand that begins with a parenthesis would be read as an indirect addressing form *)
  let x := match x0 with 40%N :: _ => [48; 32; 43; 32]%N ++ x0 | _ => x0 end in
  match f with
  | FImplied => []
  | FImm => [32; 35]%N ++ x
  | FAbs => spc ++ x
  | FAbsX => spc ++ x ++ [44; 120]%N
  | FAbsY => spc ++ x ++ [44; 121]%N
  | FIndX => spc ++ [40%N] ++ x ++ [44; 120; 41]%N
  | FIndYinner => spc ++ [40%N] ++ x ++ [44; 121; 41]%N
  | FIndY => spc ++ [40%N] ++ x ++ [41; 44; 121]%N
  | FIndXouter => spc ++ [40%N] ++ x ++ [41; 44; 120]%N
  | FInd => spc ++ [40%N] ++ x ++ [41%N]
  end.

Definition t_const : text := [46; 99; 111; 110; 115; 116; 32]%N.      (* ".const " *)
Definition t_var : text := [46; 118; 97; 114; 32]%N.
Definition t_eq : text := [32; 61; 32]%N.
Definition t_lbrace : text := [32; 123; 10]%N.
Definition t_rbrace : text := [125; 10]%N.

Fixpoint print_token (fuel : nat) (t : token) : text :=
  match fuel with
  | O => []
  | S f =>
      let body (b : block) := t_lbrace ++ flat_map (print_token f) (blk_inner b) ++ t_rbrace in
      match t with
      | TAlign v => [46; 97; 108; 105; 103; 110; 32]%N ++ print_expr (le_expr v) ++ nl
      | TBraces _ b => [123; 10]%N ++ flat_map (print_token f) (blk_inner b) ++ t_rbrace
      | TData size vs =>
          (match size with
           | 1%nat => [46; 98; 121; 116; 101; 32]%N | 2%nat => [46; 119; 111; 114; 100; 32]%N | _ => [46; 100; 119; 111; 114; 100; 32]%N
           end) ++ join [44; 32]%N (map (fun e => print_expr (le_expr e)) vs) ++ nl
      | TDefine id _ (Some l) =>
          [46; 100; 101; 102; 105; 110; 101; 32]%N ++ id ++ [32; 123; 32]%N
          ++ flat_map (fun p => cp_key p ++ t_eq ++ (match cp_value p with Some e => print_expr (le_expr e) | None => [] end) ++ spc) l
          ++ [125; 10]%N
      | TDefine _ _ None => []
      | TIf v a b =>
          [46; 105; 102; 32]%N ++ print_expr (le_expr v) ++ t_lbrace ++ flat_map (print_token f) (blk_inner a)
          ++ (match b with
              | Some b => [125; 32; 101; 108; 115; 101; 32; 123; 10]%N ++ flat_map (print_token f) (blk_inner b) ++ t_rbrace
              | None => t_rbrace
              end)
      | TImport _ _ _ _ => [63; 105; 109; 112; 111; 114; 116; 10]%N         (* not printable from the tree: the check keeps such programs apart *)
      | TInstr mn _ operand =>
          mnemonic_text mn ++ (match operand with Some (e, fo) => operand_text e fo | None => [] end) ++ nl
      | TLabel id _ b => id ++ [58%N] ++ (match b with Some b => body b | None => nl end)
      | TLoop e _ b => [46; 108; 111; 111; 112; 32]%N ++ print_expr (le_expr e) ++ body b
      | TMacroDef id _ args b =>
          [46; 109; 97; 99; 114; 111; 32]%N ++ id ++ [40%N] ++ join [44; 32]%N (map fst args) ++ [41%N] ++ body b
      | TInvoke id _ args => id ++ [40%N] ++ join [44; 32]%N (map (fun e => print_expr (le_expr e)) args) ++ [41; 10]%N
      | TPc v => [42; 32; 61; 32]%N ++ print_expr (le_expr v) ++ nl
      | TSegment id b =>
          (* without a block: a `{ .. }` that follows (e.g. an expanded loop) would be parsed as the segment's block, so a
             statement that emits nothing is printed in between: `.const zsep = 0` *)
          [46; 115; 101; 103; 109; 101; 110; 116; 32]%N ++ print_expr (le_expr id)
          ++ (match b with Some b => body b | None => nl ++ t_const ++ [122; 115; 101; 112]%N ++ t_eq ++ [48%N] ++ nl end)
      | TTest id b => [46; 116; 101; 115; 116; 32]%N ++ print_expr (le_expr id) ++ body b
      | TText _ tx => [46; 116; 101; 120; 116; 32]%N ++ print_expr (le_expr tx) ++ nl
      | TVarDef ty id _ v => (match ty with VConst => t_const | VVar => t_var end) ++ id ++ t_eq ++ print_expr (le_expr v) ++ nl
      | TNop => []
      | TUnsupported => [63; 10]%N
      end
  end.
Definition print_tokens (fuel : nat) (ts : list token) : text := flat_map (print_token fuel) ts.
End Print.

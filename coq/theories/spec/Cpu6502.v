(* Spec: executable semantics of the modelled NMOS 6502 subset, written from the ISA (MOS MCS6500 programming
   manual), not from the emulator crate mos uses.  Opcodes are decoded with the bit-structure matrix of
   spec/Isa.v (the one the assembler's table is proved against in C01).

   Interface (used by model/TestRun.v, spec/TestSpec.v and intended for the debugger model):
     ram, ram_read, ram_write, rd, wr, load_program
     cpu (rA rX rY rSP rPC rP rM), flags (fN fV fD fI fZ fC), status_byte, cpu_init
     decode : N -> option (mnemonic * mode)
     exec   : cpu -> option cpu      None = the instruction at pc is outside the modelled subset
                                     (BRK, RTI, undocumented opcodes, ADC/SBC with the D flag set)
     step   : cpu -> cpu             exec, identity where exec is None
     in_subset : cpu -> bool         exec c <> None
     at_brk : cpu -> bool            the byte at pc is 0
   All register values are Z in 0..255, addresses Z in 0..65535 (wf_cpu; preserved by step, see proofs). *)
From Coq Require Import List NArith ZArith Bool.
Import ListNotations.
From Mos Require Import Gen.OpcodeTable spec.Isa.
Open Scope Z_scope.

Definition byte8 (z : Z) : Z := z mod 256.
Definition word16 (z : Z) : Z := z mod 65536.

(* ---- 64 KiB RAM: a loaded image (everything else 0) plus the cells written since ---- *)
Record ram := mkRam { ram_base : Z; ram_image : list N; ram_over : list (Z * Z) }.

Fixpoint over_find (a : Z) (l : list (Z * Z)) : option Z :=
  match l with
  | [] => None
  | (k, v) :: r => if k =? a then Some v else over_find a r
  end.

Definition image_read (base : Z) (img : list N) (a : Z) : Z :=
  let i := a - base in
  if (0 <=? i) && (i <? Z.of_nat (List.length img)) then byte8 (Z.of_N (nth (Z.to_nat i) img 0%N)) else 0.

Definition ram_read (m : ram) (a : Z) : Z :=
  match over_find a (ram_over m) with
  | Some v => v
  | None => image_read (ram_base m) (ram_image m) a
  end.

Definition ram_write (m : ram) (a v : Z) : ram :=
  mkRam (ram_base m) (ram_image m) ((a, v) :: filter (fun p => negb (fst p =? a)) (ram_over m)).

Definition rd (m : ram) (a : Z) : Z := ram_read m (word16 a).
Definition wr (m : ram) (a v : Z) : ram := ram_write m (word16 a) (byte8 v).
Definition rd16 (m : ram) (a : Z) : Z := rd m a + 256 * rd m (a + 1).

(* all of memory is 0 except the image placed at `start` *)
Definition load_program (start : Z) (data : list N) : ram := mkRam start data [].

(* ---- processor state ---- *)
Record flags := mkFlags { fN : bool; fV : bool; fD : bool; fI : bool; fZ : bool; fC : bool }.
Record cpu := mkCpu { rA : Z; rX : Z; rY : Z; rSP : Z; rPC : Z; rP : flags; rM : ram }.

Definition bz (b : bool) : Z := if b then 1 else 0.
(* the processor status as a byte: N V 1 B D I Z C; bit 5 reads as 1, the B bit exists only in pushed copies *)
Definition status_byte (p : flags) : Z :=
  128 * bz (fN p) + 64 * bz (fV p) + 32 + 8 * bz (fD p) + 4 * bz (fI p) + 2 * bz (fZ p) + bz (fC p).
Definition bit (k v : Z) : bool := Z.odd (v / 2 ^ k).
Definition flags_of_byte (v : Z) : flags := mkFlags (bit 7 v) (bit 6 v) (bit 3 v) (bit 2 v) (bit 1 v) (bit 0 v).

(* state after reset as the test runner sets it up: registers 0, SP = $FD, only I set *)
Definition init_flags : flags := mkFlags false false false true false false.
Definition cpu_init (pc : Z) (m : ram) : cpu := mkCpu 0 0 0 253 (word16 pc) init_flags m.

Definition set_pc (c : cpu) (pc : Z) : cpu := mkCpu (rA c) (rX c) (rY c) (rSP c) (word16 pc) (rP c) (rM c).
Definition set_a (c : cpu) (v : Z) : cpu := mkCpu v (rX c) (rY c) (rSP c) (rPC c) (rP c) (rM c).
Definition set_x (c : cpu) (v : Z) : cpu := mkCpu (rA c) v (rY c) (rSP c) (rPC c) (rP c) (rM c).
Definition set_y (c : cpu) (v : Z) : cpu := mkCpu (rA c) (rX c) v (rSP c) (rPC c) (rP c) (rM c).
Definition set_sp (c : cpu) (v : Z) : cpu := mkCpu (rA c) (rX c) (rY c) v (rPC c) (rP c) (rM c).
Definition set_p (c : cpu) (p : flags) : cpu := mkCpu (rA c) (rX c) (rY c) (rSP c) (rPC c) p (rM c).
Definition set_m (c : cpu) (m : ram) : cpu := mkCpu (rA c) (rX c) (rY c) (rSP c) (rPC c) (rP c) m.

Definition with_nz (p : flags) (v : Z) : flags := mkFlags (128 <=? v) (fV p) (fD p) (fI p) (v =? 0) (fC p).
Definition with_c (p : flags) (b : bool) : flags := mkFlags (fN p) (fV p) (fD p) (fI p) (fZ p) b.
Definition with_v (p : flags) (b : bool) : flags := mkFlags (fN p) b (fD p) (fI p) (fZ p) (fC p).
Definition with_d (p : flags) (b : bool) : flags := mkFlags (fN p) (fV p) b (fI p) (fZ p) (fC p).
Definition with_i (p : flags) (b : bool) : flags := mkFlags (fN p) (fV p) (fD p) b (fZ p) (fC p).
Definition with_z (p : flags) (b : bool) : flags := mkFlags (fN p) (fV p) (fD p) (fI p) b (fC p).
Definition with_n (p : flags) (b : bool) : flags := mkFlags b (fV p) (fD p) (fI p) (fZ p) (fC p).

Definition nz (c : cpu) (v : Z) : cpu := set_p c (with_nz (rP c) v).

(* ---- decoding: the inverse of Isa.isa ---- *)
Definition decode_slow (o : N) : option (mnemonic * mode) :=
  find (fun mm => match isa (fst mm) (snd mm) with Some o' => N.eqb o o' | None => false end)
       (list_prod all_mnemonics all_modes).
Definition decode_table : list (option (mnemonic * mode)) := map (fun k => decode_slow (N.of_nat k)) (seq 0 256).
Definition decode (o : N) : option (mnemonic * mode) := nth (N.to_nat o) decode_table None.

(* ---- addressing ---- *)
Definition instr_len (md : mode) : Z :=
  match md with
  | MImp => 1
  | MImm | MZp | MZpX | MZpY | MIndX | MIndY | MRel => 2
  | MAbs | MAbsX | MAbsY | MInd => 3
  end.

Definition signed8 (v : Z) : Z := if v <? 128 then v else v - 256.

(* effective address of the operand (for MRel: the branch target; for MImm: the address of the operand byte) *)
Definition operand_addr (c : cpu) (md : mode) : Z :=
  let m := rM c in
  let pc := rPC c in
  let b1 := rd m (pc + 1) in
  let b2 := rd m (pc + 2) in
  match md with
  | MImp => 0
  | MImm => word16 (pc + 1)
  | MZp => b1
  | MZpX => byte8 (b1 + rX c)
  | MZpY => byte8 (b1 + rY c)
  | MAbs => b1 + 256 * b2
  | MAbsX => word16 (b1 + 256 * b2 + rX c)
  | MAbsY => word16 (b1 + 256 * b2 + rY c)
  | MIndX => let z := byte8 (b1 + rX c) in rd m z + 256 * rd m (byte8 (z + 1))
  | MIndY => word16 (rd m b1 + 256 * rd m (byte8 (b1 + 1)) + rY c)
  | MInd => (* NMOS: the high byte of the pointer is fetched without carry into the page *)
      let p := b1 + 256 * b2 in rd m p + 256 * rd m (256 * b2 + byte8 (b1 + 1))
  | MRel => word16 (pc + 2 + signed8 b1)
  end.

(* ---- stack ---- *)
Definition push (c : cpu) (v : Z) : cpu :=
  set_sp (set_m c (wr (rM c) (256 + rSP c) v)) (byte8 (rSP c - 1)).
(* pull: (value, state with SP incremented) *)
Definition pull (c : cpu) : Z * cpu :=
  let sp := byte8 (rSP c + 1) in (rd (rM c) (256 + sp), set_sp c sp).

(* ---- arithmetic ---- *)
Definition adc_bin (c : cpu) (v : Z) : cpu :=
  let a := rA c in
  let s := a + v + bz (fC (rP c)) in
  let sg := signed8 a + signed8 v + bz (fC (rP c)) in
  let r := byte8 s in
  let p := with_v (with_c (rP c) (256 <=? s)) ((sg <? -128) || (127 <? sg)) in
  set_a (set_p c (with_nz p r)) r.

Definition sbc_bin (c : cpu) (v : Z) : cpu :=
  let a := rA c in
  let borrow := 1 - bz (fC (rP c)) in
  let s := a - v - borrow in
  let sg := signed8 a - signed8 v - borrow in
  let r := byte8 s in
  let p := with_v (with_c (rP c) (0 <=? s)) ((sg <? -128) || (127 <? sg)) in
  set_a (set_p c (with_nz p r)) r.

Definition compare (c : cpu) (r v : Z) : cpu :=
  set_p c (with_nz (with_c (rP c) (v <=? r)) (byte8 (r - v))).

Inductive shift := SAsl | SLsr | SRol | SRor.
(* (result, carry out) *)
Definition shift_val (k : shift) (cin : bool) (v : Z) : Z * bool :=
  match k with
  | SAsl => (byte8 (2 * v), 128 <=? v)
  | SLsr => (v / 2, Z.odd v)
  | SRol => (byte8 (2 * v + bz cin), 128 <=? v)
  | SRor => (v / 2 + 128 * bz cin, Z.odd v)
  end.

Definition branch_cond (m : mnemonic) (p : flags) : option bool :=
  match m with
  | Bpl => Some (negb (fN p)) | Bmi => Some (fN p)
  | Bvc => Some (negb (fV p)) | Bvs => Some (fV p)
  | Bcc => Some (negb (fC p)) | Bcs => Some (fC p)
  | Bne => Some (negb (fZ p)) | Beq => Some (fZ p)
  | _ => None
  end.

(* ---- one instruction ---- *)
Definition exec_instr (m : mnemonic) (md : mode) (c : cpu) : option cpu :=
  let ea := operand_addr c md in
  let next := rPC c + instr_len md in
  let v := rd (rM c) ea in
  let p := rP c in
  let done (c' : cpu) : option cpu := Some (set_pc c' next) in
  let store (x : Z) : option cpu := done (set_m c (wr (rM c) ea x)) in
  let rmw (f : Z -> Z) : option cpu := let r := f v in done (nz (set_m c (wr (rM c) ea r)) r) in
  let shift_op (k : shift) : option cpu :=
    match md with
    | MImp => let '(r, co) := shift_val k (fC p) (rA c) in done (set_a (set_p c (with_nz (with_c p co) r)) r)
    | _ => let '(r, co) := shift_val k (fC p) v in done (set_p (set_m c (wr (rM c) ea r)) (with_nz (with_c p co) r))
    end in
  match m with
  | Lda => done (nz (set_a c v) v)
  | Ldx => done (nz (set_x c v) v)
  | Ldy => done (nz (set_y c v) v)
  | Sta => store (rA c)
  | Stx => store (rX c)
  | Sty => store (rY c)
  | Tax => done (nz (set_x c (rA c)) (rA c))
  | Tay => done (nz (set_y c (rA c)) (rA c))
  | Txa => done (nz (set_a c (rX c)) (rX c))
  | Tya => done (nz (set_a c (rY c)) (rY c))
  | Tsx => done (nz (set_x c (rSP c)) (rSP c))
  | Txs => done (set_sp c (rX c))
  | Inx => let r := byte8 (rX c + 1) in done (nz (set_x c r) r)
  | Iny => let r := byte8 (rY c + 1) in done (nz (set_y c r) r)
  | Dex => let r := byte8 (rX c - 1) in done (nz (set_x c r) r)
  | Dey => let r := byte8 (rY c - 1) in done (nz (set_y c r) r)
  | Inc => rmw (fun x => byte8 (x + 1))
  | Dec => rmw (fun x => byte8 (x - 1))
  | And => let r := Z.land (rA c) v in done (nz (set_a c r) r)
  | Ora => let r := Z.lor (rA c) v in done (nz (set_a c r) r)
  | Eor => let r := Z.lxor (rA c) v in done (nz (set_a c r) r)
  | Adc => if fD p then None else done (adc_bin c v)
  | Sbc => if fD p then None else done (sbc_bin c v)
  | Cmp => done (compare c (rA c) v)
  | Cpx => done (compare c (rX c) v)
  | Cpy => done (compare c (rY c) v)
  | Bit => done (set_p c (with_z (with_v (with_n p (bit 7 v)) (bit 6 v)) (Z.land (rA c) v =? 0)))
  | Asl => shift_op SAsl
  | Lsr => shift_op SLsr
  | Rol => shift_op SRol
  | Ror => shift_op SRor
  | Bpl | Bmi | Bvc | Bvs | Bcc | Bcs | Bne | Beq =>
      match branch_cond m p with
      | Some true => Some (set_pc c ea)
      | Some false => done c
      | None => None
      end
  | Jmp => Some (set_pc c ea)
  | Jsr => let ret := word16 (rPC c + 2) in
           Some (set_pc (push (push c (ret / 256)) (byte8 ret)) ea)
  | Rts => let '(lo, c1) := pull c in
           let '(hi, c2) := pull c1 in
           Some (set_pc c2 (lo + 256 * hi + 1))
  | Pha => done (push c (rA c))
  | Php => done (push c (status_byte p + 16))
  | Pla => let '(x, c1) := pull c in done (nz (set_a c1 x) x)
  | Plp => let '(x, c1) := pull c in done (set_p c1 (flags_of_byte x))
  | Clc => done (set_p c (with_c p false))
  | Sec => done (set_p c (with_c p true))
  | Cld => done (set_p c (with_d p false))
  | Sed => done (set_p c (with_d p true))
  | Cli => done (set_p c (with_i p false))
  | Sei => done (set_p c (with_i p true))
  | Clv => done (set_p c (with_v p false))
  | Nop => done c
  | Brk | Rti => None
  end.

Definition opcode_at (c : cpu) : N := Z.to_N (rd (rM c) (rPC c)).

Definition exec (c : cpu) : option cpu :=
  match decode (opcode_at c) with
  | Some (m, md) => exec_instr m md c
  | None => None
  end.

Definition step (c : cpu) : cpu := match exec c with Some c' => c' | None => c end.
Definition in_subset (c : cpu) : bool := match exec c with Some _ => true | None => false end.
Definition at_brk (c : cpu) : bool := rd (rM c) (rPC c) =? 0.

Definition wf_cpu (c : cpu) : Prop :=
  0 <= rA c < 256 /\ 0 <= rX c < 256 /\ 0 <= rY c < 256 /\ 0 <= rSP c < 256 /\ 0 <= rPC c < 65536.

(* Specification for C14, independent of how mos computes anything.
   Part 1: what an LSP client does with semanticTokens data (decoding per the LSP specification) and when the decoded
           tokens are well-formed.
   Part 2: "the server depends only on the current buffers and survives any request", for ANY server given as a function
           from histories to observations.
   The event alphabet (didOpen / didChange / didClose / requests) and `text`, `result`, `uri` are shared with the model. *)
From Coq Require Import List NArith Arith Bool.
From Mos Require Import model.Lsp.
Import ListNotations.

(* ---------------------------------------------------------------- Part 1: semantic tokens *)
Record abs_token := mkAbs { a_line : nat; a_start : nat; a_len : nat; a_ty : nat }.

(* LSP 3.16, "Semantic Tokens": deltaLine is relative to the previous token's line; deltaStart is relative to the previous
   token's start if both are on the same line, else it is the start column *)
Fixpoint decode_from (line col : nat) (l : list sem_token) : list abs_token :=
  match l with
  | [] => []
  | t :: r =>
      let line' := line + delta_line t in
      let col' := if delta_line t =? 0 then col + delta_start t else delta_start t in
      mkAbs line' col' (tok_len t) (tok_ty t) :: decode_from line' col' r
  end.
Definition decode (l : list sem_token) : list abs_token := decode_from 0 0 l.

(* b starts after a ends *)
Definition strictly_after (a b : abs_token) : Prop :=
  a_line a < a_line b \/ (a_line a = a_line b /\ a_start a + a_len a <= a_start b).
Fixpoint chain {A} (R : A -> A -> Prop) (l : list A) : Prop :=
  match l with
  | [] => True
  | a :: r => match r with [] => True | b :: _ => R a b end /\ chain R r
  end.
(* sorted, non-overlapping, non-zero length *)
Definition tokens_wellformed (l : list abs_token) : Prop :=
  Forall (fun t => 0 < a_len t) l /\ chain strictly_after l.
(* sorted by (line, start) *)
Definition tokens_sorted (l : list abs_token) : Prop :=
  chain (fun a b => a_line a < a_line b \/ (a_line a = a_line b /\ a_start a <= a_start b)) l.

(* ---------------------------------------------------------------- Part 2: histories *)
(* what the server reads: an open document overrides the file on disk *)
Definition overlay {path} (disk b : path -> option text) : path -> option text :=
  fun p => match b p with Some t => Some t | None => disk p end.
(* what a client should be left with for file p when the analysis of the project is a: the file's diagnostics if it is part of
   the project, nothing otherwise *)
Definition spec_diags {path analysis diag} (path_eqb : path -> path -> bool) (tree_files : analysis -> list path)
           (diags_of : analysis -> path -> list diag) (a : analysis) (p : path) : list diag :=
  if existsb (path_eqb p) (tree_files a) then diags_of a p else [].

Section ServerSpec.
  Variables path diag request response obs : Type.
  Variable path_eqb : path -> path -> bool.
  Notation event := (event path request).

  (* a server: after a history it either is gone (Panic) or can be observed *)
  Variable server : list event -> result obs.
  Variable last_published : obs -> path -> list diag.   (* the list last published for a file; [] if none / cleared *)
  Variable responses : obs -> list (option response).   (* one per request so far, newest first; None = no response *)

  Definition apply_event (b : path -> option text) (e : event) : path -> option text :=
    match e with
    | DidOpen (FileUri p) t | DidChange (FileUri p) t => fun q => if path_eqb q p then Some t else b q
    | DidClose (FileUri p) => fun q => if path_eqb q p then None else b q
    | _ => b
    end.
  (* path -> latest text of the documents that are open *)
  Definition final_buffers (h : list event) : path -> option text := fold_left apply_event h (fun _ => None).

  Definition is_request (e : event) : bool := match e with Req _ _ _ _ _ => true | _ => false end.
  Definition is_file_notification (e : event) : bool :=
    match e with
    | DidOpen (FileUri _) _ | DidChange (FileUri _) _ | DidClose (FileUri _) => true
    | _ => false
    end.
  (* the server has been told about at least one document (a server that has been told nothing publishes nothing) *)
  Definition notified (h : list event) : bool := existsb is_file_notification h.
  Definition same_buffers (b b' : path -> option text) : Prop := forall p, b p = b' p.

  (* every request - whatever position or document it names - receives a response and the server keeps running *)
  Definition survives_any_request : Prop :=
    forall h, exists o, server h = Ok o /\
      length (responses o) = length (filter is_request h) /\ Forall (fun r => r <> None) (responses o).

  (* diagnostics last published and the answers to subsequent requests are those of ANY other history with the same final
     buffers - in particular of a freshly started server that is given only the final buffer contents *)
  Definition depends_only_on_current_buffers : Prop :=
    forall h h' o o', server h = Ok o -> server h' = Ok o' ->
      same_buffers (final_buffers h) (final_buffers h') ->
      (notified h = true -> notified h' = true -> forall p, last_published o p = last_published o' p) /\
      (forall e o1 o1', is_request e = true -> server (h ++ [e]) = Ok o1 -> server (h' ++ [e]) = Ok o1' ->
         hd None (responses o1) = hd None (responses o1')).

  (* the freshly started server: one didOpen per open document, in any order *)
  Definition fresh_history (bufs : list (path * text)) : list event := map (fun pt => DidOpen (FileUri (fst pt)) (snd pt)) bufs.
End ServerSpec.

(* Spec side of the parser/printer round trip (C03): canonical concrete syntax of the numeric expression language,
   its printer (single spaces around binary operators, no other trivia) and the tree it denotes.
   The grammar is the documented one: two precedence levels, both left-associative, parentheses. *)
From Coq Require Import List NArith ZArith Bool.
Import ListNotations.
From Mos Require Import model.I64 Gen.BinOps Gen.ExprGrammar model.Expr model.ExprParse.
Open Scope N_scope.

Inductive loose :=
  | L1 (t : tight)
  | LBin (l : loose) (op : binop) (t : tight)
with tight :=
  | T1 (f : factor)
  | TBin (t : tight) (op : binop) (f : factor)
with factor :=
  | FNum (radix : Z) (digits : text)
  | FId (name : text)
  | FParens (l : loose).

Scheme Equality for binop.

Fixpoint tag_of (table : list (text * binop)) (op : binop) : option text :=
  match table with
  | [] => None
  | (t, o) :: rest => if binop_beq o op then Some t else tag_of rest op
  end.

Definition radix_prefix (radix : Z) : text :=
  if (radix =? 16)%Z then [36] else if (radix =? 2)%Z then [37] else [].

Definition op_text (table : list (text * binop)) (op : binop) : text :=
  match tag_of table op with Some t => t | None => [] end.

Fixpoint pr_loose (l : loose) : text :=
  match l with
  | L1 t => pr_tight t
  | LBin l op t => pr_loose l ++ [32] ++ op_text loose_ops op ++ [32] ++ pr_tight t
  end
with pr_tight (t : tight) : text :=
  match t with
  | T1 f => pr_factor f
  | TBin t op f => pr_tight t ++ [32] ++ op_text tight_ops op ++ [32] ++ pr_factor f
  end
with pr_factor (f : factor) : text :=
  match f with
  | FNum radix ds => radix_prefix radix ++ ds
  | FId name => name
  | FParens l => [40] ++ pr_loose l ++ [41]
  end.

Fixpoint expr_of_loose (l : loose) : expr :=
  match l with
  | L1 t => expr_of_tight t
  | LBin l op t => EBin op (expr_of_loose l) (expr_of_tight t)
  end
with expr_of_tight (t : tight) : expr :=
  match t with
  | T1 f => expr_of_factor f
  | TBin t op f => EBin op (expr_of_tight t) (expr_of_factor f)
  end
with expr_of_factor (f : factor) : expr :=
  match f with
  | FNum radix ds => ENum radix ds false false
  | FId name => EId [name] None false false
  | FParens l => EParens (expr_of_loose l) false false
  end.

(* well-formedness: operators belong to their level's table; literals are non-empty digit strings of their radix;
   names are identifiers other than (any letter case of) true and false *)
Definition digits_ok (radix : Z) (ds : text) : bool :=
  negb (match ds with [] => true | _ => false end) &&
  (if (radix =? 16)%Z then forallb is_hex ds
   else if (radix =? 2)%Z then forallb is_bin ds
   else (radix =? 10)%Z && forallb is_digit ds).
Definition ident_char (x : N) : bool := is_alnum x || (x =? 95).
(* an identifier that is not (in any letter case) the keyword true or false *)
Definition name_ok (name : text) : bool :=
  match name with
  | c :: r => (is_alpha c || (c =? 95)) && forallb ident_char r &&
              negb (text_eqb (map to_lower name) t_true_tag) && negb (text_eqb (map to_lower name) t_false_tag)
  | [] => false
  end.
Definition in_table (table : list (text * binop)) (op : binop) : bool :=
  match tag_of table op with Some _ => true | None => false end.

Fixpoint wf_loose (l : loose) : bool :=
  match l with
  | L1 t => wf_tight t
  | LBin l op t => wf_loose l && in_table loose_ops op && wf_tight t
  end
with wf_tight (t : tight) : bool :=
  match t with
  | T1 f => wf_factor f
  | TBin t op f => wf_tight t && in_table tight_ops op && wf_factor f
  end
with wf_factor (f : factor) : bool :=
  match f with
  | FNum radix ds => digits_ok radix ds
  | FId name => name_ok name
  | FParens l => wf_loose l
  end.

(* what may follow an expression: nothing, or a character that ends it: ')' ',' '}' or a line end *)
Definition follow_ok (rest : text) : bool :=
  match rest with
  | [] => true
  | c :: _ => (c =? 41) || (c =? 44) || (c =? 125) || (c =? 10)
  end.

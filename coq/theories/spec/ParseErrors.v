(* Spec of C04 at the parse level: what "reported" means for the token tree of a parsed file.
   An obligation is a property of a diagnostic; it is met when a diagnostic with that property is in the list --
   or when it was the ONE diagnostic suppressed by State::ignore_next_error() behind an unterminated block comment,
   whose own diagnostic is then in the list. *)
From Coq Require Import List NArith Bool.
Import ListNotations.
From Mos Require Import model.Utf model.Nom Gen.ParserTables model.Parser.
Open Scope N_scope.

Definition unterminated (d : diag) : Prop := d_kind d = KExpect MUnterminated.
(* the diagnostic is in the list -- or it was the one suppressed behind an unterminated block comment, whose own
   diagnostic is in the list *)
Definition obl := diag -> Prop.             (* an obligation: "a diagnostic with this property was pushed" *)
Definition reported (errs : list diag) (P : obl) : Prop := (exists d, In d errs /\ P d) \/ exists u, In u errs /\ unterminated u.

Definition expect_diag (m : dmsg) (i : input) : diag := mkDiag (KExpect m) (off i) (off i).

(* a failed expect with a message: the obligation "a point diagnostic with that message exists" *)
Definition point_expect (m : dmsg) : obl := fun d => d_kind d = KExpect m /\ d_lo d = d_hi d.

Definition err_obl (l : located text) : obl := eq (mkDiag (KUnexpected (data l)) (lo l) (hi l)).

Fixpoint Etok (t : token) : list obl :=
  match t with
  | TError l => [err_obl l]
  | TBraces b _ => Eblock b
  | TLabel _ _ (Some b) => Eblock b
  | TMacroDefinition _ _ _ _ _ b => Eblock b
  | TSegment _ _ (Some b) => Eblock b
  | TLoop _ _ _ b => Eblock b
  | TIf _ _ b e => Eblock b ++ match e with Some (_, b2) => Eblock b2 | None => [] end
  | TImport _ _ _ _ (Some b) _ => Eblock b
  | TTest _ _ b => Eblock b
  | _ => []
  end
with Eblock (b : block_t) : list obl :=
  match b with
  | Block _ inner rp =>
      (fix go (l : list token) : list obl := match l with [] => [] | t :: r => Etok t ++ go r end) inner ++
      match rp with None => [point_expect MClosing] | Some _ => [] end
  end.
Definition Etoks (l : list token) : list obl := flat_map Etok l.

Definition blocks_of (t : token) : list block_t :=
  match t with
  | TBraces b _ => [b]
  | TLabel _ _ (Some b) => [b]
  | TMacroDefinition _ _ _ _ _ b => [b]
  | TSegment _ _ (Some b) => [b]
  | TLoop _ _ _ b => [b]
  | TIf _ _ b (Some (_, b2)) => [b; b2]
  | TIf _ _ b None => [b]
  | TImport _ _ _ _ (Some b) _ => [b]
  | TTest _ _ b => [b]
  | _ => []
  end.
Definition block_inner (b : block_t) : list token := match b with Block _ inner _ => inner end.
Definition block_closed (b : block_t) : bool := match b with Block _ _ (Some _) => true | _ => false end.

(* t occurs in the statement list l, at any depth of nested blocks *)
Inductive occurs (t : token) : list token -> Prop :=
| occ_here l : In t l -> occurs t l
| occ_nested l t' b : In t' l -> In b (blocks_of t') -> occurs t (block_inner b) -> occurs t l.

(* Spec: what the documented expression language means, as ordinary integer arithmetic over Z.
   Written without reference to Gen/BinOps.v (only the operator names are shared). *)
From Coq Require Import List NArith ZArith Bool.
Import ListNotations.
From Mos Require Import model.I64 Gen.BinOps model.Expr.
Open Scope Z_scope.

Definition truth (b : bool) : Z := if b then 1 else 0.

Definition sem_binop (op : binop) (a b : Z) : Z :=
  match op with
  | Add => a + b
  | Sub => a - b
  | Mul => a * b
  | Div => Z.quot a b            (* truncating division, as documented: -7 / 2 = -3 *)
  | Mod => Z.rem a b             (* sign follows the dividend: -7 % 3 = -1 *)
  | Shl => a * 2 ^ b
  | Shr => a / 2 ^ b             (* floor *)
  | Xor => Z.lxor a b
  | Eq => truth (a =? b)
  | Ne => truth (negb (a =? b))
  | Gt => truth (b <? a)
  | GtEq => truth (b <=? a)
  | Lt => truth (a <? b)
  | LtEq => truth (a <=? b)
  | And => truth (negb (a =? 0) && negb (b =? 0))
  | Or => truth (negb (a =? 0) || negb (b =? 0))
  end.

(* `!-x` is NOT (NEG x): unary minus negates, `!` maps 0 to 1 and everything else to 0 *)
Definition sem_flags (fnot fneg : bool) (v : Z) : Z :=
  let v := if fneg then - v else v in
  if fnot then (if v =? 0 then 1 else 0) else v.

Definition sem_modifier (m : option modifier) (v : Z) : Z :=
  match m with
  | None => v
  | Some LowByte => v mod 256
  | Some HighByte => (v / 256) mod 256
  end.

(* value of a literal: sum of digit * radix^i; `true` = 1, `false` = 0 *)
Definition spec_digit (c : N) : Z :=
  let c := Z.of_N c in
  if (48 <=? c) && (c <=? 57) then c - 48
  else if (97 <=? c) && (c <=? 102) then c - 87
  else if (65 <=? c) && (c <=? 70) then c - 55
  else -1.
Fixpoint sem_digits (radix : Z) (ds : text) : Z :=
  match ds with [] => 0 | d :: r => spec_digit d * radix ^ Z.of_nat (length r) + sem_digits radix r end.
Definition spec_lit (radix : Z) (digits : text) : Z :=
  if text_eqb digits t_true then 1 else if text_eqb digits t_false then 0 else sem_digits radix digits.
Definition valid_literal (radix : Z) (digits : text) : Prop :=
  (radix = 2 \/ radix = 10 \/ radix = 16) /\
  (digits = t_true \/ digits = t_false \/
   (digits <> [] /\ Forall (fun c => 0 <= spec_digit c < radix) digits)).

(* numeric sublanguage: every identifier is bound to a number by `num` *)
Fixpoint sem (num : list text -> Z) (pc : Z) (e : expr) : Z :=
  match e with
  | EBin op l r => sem_binop op (sem num pc l) (sem num pc r)
  | ENum radix digits fnot fneg => sem_flags fnot fneg (spec_lit radix digits)
  | EId path m fnot fneg => sem_flags fnot fneg (sem_modifier m (num path))
  | EPc fnot fneg => sem_flags fnot fneg pc
  | EParens inner fnot fneg => sem_flags fnot fneg (sem num pc inner)
  | ECall _ _ _ _ | EStr _ _ _ => 0
  end.

(* the domain of the property: no 64-bit overflow anywhere (Rust counts MIN / -1 and MIN % -1 as overflow),
   divisors non-zero, shift counts 0..31, only numeric factors, well-formed literals *)
Fixpoint in_domain (num : list text -> Z) (pc : Z) (e : expr) : Prop :=
  match e with
  | EBin op l r =>
      in_domain num pc l /\ in_domain num pc r /\
      (match op with
       | Div | Mod => sem num pc r <> 0 /\ in_i64 (Z.quot (sem num pc l) (sem num pc r)) = true
       | Shl | Shr => 0 <= sem num pc r <= 31
       | _ => True
       end) /\
      in_i64 (sem num pc e) = true
  | ENum radix digits fnot fneg =>
      valid_literal radix digits /\ in_i64 (spec_lit radix digits) = true /\ in_i64 (- spec_lit radix digits) = true
  | EId path m fnot fneg => in_i64 (num path) = true /\ in_i64 (- sem_modifier m (num path)) = true
  | EPc fnot fneg => in_i64 pc = true /\ in_i64 (- pc) = true
  | EParens inner fnot fneg => in_domain num pc inner /\ in_i64 (- sem num pc inner) = true
  | ECall _ _ _ _ | EStr _ _ _ => False
  end.

Definition spec_le_bytes (k : nat) (v : Z) : list N :=
  map (fun i => Z.to_N ((v / 2 ^ (8 * Z.of_nat i)) mod 256)) (seq 0 k).

(* Spec C02, operational form used by the oracle: lay the program out statically under the FINAL symbol values.
   Given the parse tree, the final symbols of a build as a map from full paths to values, and the options of its
   segments, `relayout` walks the statements once in source order.  It never writes a symbol: every label, block
   start/end symbol, loop index, macro argument and constant it meets is CHECKED against the final map (a label must
   equal the target program counter at that point), every operand / data item / directive argument is evaluated
   under the final map from the scope it stands in, and the bytes of every statement are placed at the running
   program counter of the current segment (`* =`, `.align`, relocation honoured).  A successful build is a fixed point
   exactly when the implementation's segment images equal the images computed here and no check fails.
   Independent of model/Asm.v's codegen (it shares the token type, the expression evaluator and the instruction
   encoder, which are tied to the code by C03 and C01). *)
From Coq Require Import List NArith ZArith Bool PeanoNat.
Import ListNotations.
From Mos Require Import model.I64 Gen.BinOps model.Expr Gen.OpcodeTable spec.Isa model.Encode.
From Mos Require Import model.SymTab Gen.CodegenConsts model.Asm.
Open Scope Z_scope.

Definition fsyms := list (ipath * symdata).          (* full path from the root -> final value *)

Fixpoint fs_get (m : fsyms) (p : ipath) : option symdata :=
  match m with [] => None | (k, v) :: r => if ipath_eqb k p then Some v else fs_get r p end.
Fixpoint is_prefix (p k : ipath) : bool :=
  match p, k with
  | [], _ => true
  | x :: p', y :: k' => ident_eqb x y && is_prefix p' k'
  | _ :: _, [] => false
  end.
(* a path names a node when it is a symbol or an enclosing scope of one *)
Definition node_exists (m : fsyms) (p : ipath) : bool := existsb (fun kv => is_prefix p (fst kv)) m.

Fixpoint walk (cur id : ipath) : option ipath :=
  match id with
  | [] => Some cur
  | i :: r => if is_super i then (match cur with [] => None | _ => walk (removelast cur) r end) else walk (cur ++ [i]) r
  end.

(* lookup of `id` from the scope with path `scope`: nearest enclosing scope in which the path names a node *)
Fixpoint resolve (fuel : nat) (m : fsyms) (scope id : ipath) : option symdata :=
  match fuel with
  | O => None
  | S f =>
      match walk scope id with
      | Some p => if node_exists m p then fs_get m p else
                    if contains_super id then None else match scope with [] => None | _ => resolve f m (removelast scope) id end
      | None => if contains_super id then None else match scope with [] => None | _ => resolve f m (removelast scope) id end
      end
  end.

Inductive lerr :=
  | LUnresolved (sp : span)                        (* an expression has no value under the final symbols *)
  | LSymbol (p : ipath) (expected : symdata) (actual : option symdata)   (* a definition site disagrees with the final map *)
  | LError (k : nat) (sp : span)                   (* the statement is an error under the final symbols *)
  | LNoMacro (name : ident).

Record segstate := mkSS { ss_pc : Z; ss_initial : Z; ss_target : Z }.
Inductive wr := Write (seg : ident) (pc : Z) (bytes : list N) | Recreate (seg : ident).

Record lstate := mkLS {
  l_scope : ipath;
  l_seg : option ident;
  l_segs : list (ident * segstate);
  l_log : list wr;                                 (* newest first *)
  l_macro : nat;
  l_bad : list lerr;
  l_addrs : list (span * Z * nat)                  (* statement span, target address, length: for reports *)
}.

Inductive lres (A : Type) := LOk (a : A) (s : lstate) | LAbort (why : nat).     (* 0 fuel, 1 unsupported *)
Arguments LOk {A}. Arguments LAbort {A}.
Definition L (A : Type) := lstate -> lres A.
Definition lret {A} (a : A) : L A := fun s => LOk a s.
Definition lbind {A B} (m : L A) (k : A -> L B) : L B := fun s => match m s with LOk a s' => k a s' | LAbort w => LAbort w end.
Definition labort {A} (w : nat) : L A := fun _ => LAbort w.
Definition lget : L lstate := fun s => LOk s s.
Definition lmod (f : lstate -> lstate) : L unit := fun s => LOk tt (f s).
Notation "x <~ m ;; k" := (lbind m (fun x => k)) (at level 61, m at next level, right associativity).
Notation "m ;;~ k" := (lbind m (fun _ => k)) (at level 61, right associativity).

Definition bad (e : lerr) : L unit :=
  lmod (fun s => mkLS (l_scope s) (l_seg s) (l_segs s) (l_log s) (l_macro s) (e :: l_bad s) (l_addrs s)).
Definition set_lscope (p : ipath) : L unit :=
  lmod (fun s => mkLS p (l_seg s) (l_segs s) (l_log s) (l_macro s) (l_bad s) (l_addrs s)).
Definition set_lseg (o : option ident) : L unit :=
  lmod (fun s => mkLS (l_scope s) o (l_segs s) (l_log s) (l_macro s) (l_bad s) (l_addrs s)).

Fixpoint ss_get (l : list (ident * segstate)) (n : ident) : option segstate :=
  match l with [] => None | (k, v) :: r => if ident_eqb k n then Some v else ss_get r n end.
Fixpoint ss_put (l : list (ident * segstate)) (n : ident) (v : segstate) : list (ident * segstate) :=
  match l with [] => [(n, v)] | (k, x) :: r => if ident_eqb k n then (k, v) :: r else (k, x) :: ss_put r n v end.

Definition ss_target_pc (x : segstate) : Z :=
  as_usize (usize_as_i64 (ss_pc x) + (usize_as_i64 (ss_target x) - usize_as_i64 (ss_initial x))).
Definition cur_target (s : lstate) : option Z :=
  match l_seg s with Some n => option_map ss_target_pc (ss_get (l_segs s) n) | None => None end.

Definition lemit (sp : span) (bytes : list N) : L unit := fun s =>
  match l_seg s with
  | None => LOk tt s
  | Some n =>
      match ss_get (l_segs s) n with
      | None => LOk tt s
      | Some x =>
          let e := ss_pc x + Z.of_nat (List.length bytes) in
          if (emit_start_limit <? ss_pc x) || (emit_end_limit <? e)
          then LOk tt (mkLS (l_scope s) (l_seg s) (l_segs s) (l_log s) (l_macro s) (LError 1 sp :: l_bad s) (l_addrs s))
          else LOk tt (mkLS (l_scope s) (l_seg s) (ss_put (l_segs s) n (mkSS e (ss_initial x) (ss_target x)))
                            (Write n (ss_pc x) bytes :: l_log s) (l_macro s) (l_bad s)
                            ((sp, ss_target_pc x, List.length bytes) :: l_addrs s))
      end
  end.

(* replay of the write log of one segment (oldest first) *)
Fixpoint seg_writes (name : ident) (log : list wr) : list (Z * list N) :=      (* log newest first -> newest first *)
  match log with
  | [] => []
  | Write n pc bytes :: r => if ident_eqb n name then (pc, bytes) :: seg_writes name r else seg_writes name r
  | Recreate n :: r => if ident_eqb n name then [] else seg_writes name r
  end.

Section Layout.
Variable m : fsyms.

Definition lenv (s : lstate) : env :=
  mkEnv (resolve (S (List.length (l_scope s))) m (l_scope s)) (option_map usize_as_i64 (cur_target s)).

(* value of an expression under the final symbols; a missing value is reported *)
Definition leval (e : lexpr) : L (option sval) := fun s =>
  match eval (lenv s) (le_expr e) with
  | EVal (Some v) => LOk (Some v) s
  | _ => LOk None (mkLS (l_scope s) (l_seg s) (l_segs s) (l_log s) (l_macro s) (LUnresolved (le_span e) :: l_bad s) (l_addrs s))
  end.
Definition leval_i64 (e : lexpr) : L (option Z) :=
  v <~ leval e ;; match v with Some (SNum n) => lret (Some n) | Some _ => bad (LError 2 (le_span e)) ;;~ lret None | None => lret None end.
Definition leval_str (e : lexpr) : L (option text) :=
  v <~ leval e ;; match v with Some (SStr t) => lret (Some t) | Some _ => bad (LError 3 (le_span e)) ;;~ lret None | None => lret None end.

(* a definition site: the final map must hold exactly this value at scope.id *)
Definition check_symbol (id : ident) (expected : symdata) : L unit :=
  s <~ lget ;;
  let p := l_scope s ++ [id] in
  match fs_get m p, expected with
  | Some (DNum a), DNum b => if a =? b then lret tt else bad (LSymbol p expected (Some (DNum a)))
  | Some (DStr a), DStr b => if text_eqb a b then lret tt else bad (LSymbol p expected (Some (DStr a)))
  | Some DMacro, DMacro => lret tt
  | other, _ => bad (LSymbol p expected other)
  end.
Definition check_here (id : ident) : L unit :=
  s <~ lget ;; match cur_target s with Some pc => check_symbol id (DNum (usize_as_i64 pc)) | None => lret tt end.

Definition set_lmacro (n : nat) : L unit :=
  lmod (fun s => mkLS (l_scope s) (l_seg s) (l_segs s) (l_log s) n (l_bad s) (l_addrs s)).
Definition in_scope {A} (scope : ident) (with_block : bool) (f : L A) : L A :=
  s0 <~ lget ;;
  set_lscope (l_scope s0 ++ [scope]) ;;~
  set_lmacro 0%nat ;;~                                  (* invocations are numbered per scope (5239ce9) *)
  (if with_block then check_here t_minus else lret tt) ;;~
  r <~ f ;;
  (if with_block then check_here t_plus else lret tt) ;;~
  set_lscope (l_scope s0) ;;~
  set_lmacro (l_macro s0) ;;~
  lret r.

(* macro definitions by the static path of their definition site (and of the names they are imported under) *)
Definition mtable := list (ipath * (list (ident * span) * list token)).
Variable macros : mtable.
Fixpoint mt_get (t : mtable) (p : ipath) : option (list (ident * span) * list token) :=
  match t with [] => None | (k, v) :: r => if ipath_eqb k p then Some v else mt_get r p end.
Fixpoint find_def (fuel : nat) (scope : ipath) (name : ident) : option (list (ident * span) * list token) :=
  match fuel with
  | O => None
  | S f => match mt_get macros (scope ++ [name]) with
           | Some d => Some d
           | None => match scope with [] => None | _ => find_def f (removelast scope) name end
           end
  end.

Fixpoint lseq {A} (f : A -> L unit) (l : list A) : L unit :=
  match l with [] => lret tt | x :: r => f x ;;~ lseq f r end.

Fixpoint lloop (fuel : nat) (i n : Z) (body : Z -> L unit) : L unit :=
  if n <=? i then lret tt else
  match fuel with O => labort 0%nat | S f => body i ;;~ lloop f (i + 1) n body end.

(* the arguments of an invocation are evaluated where the invocation stands *)
Fixpoint eval_args (args : list lexpr) : L (list (option sval)) :=
  match args with
  | [] => lret []
  | a :: r => v <~ leval a ;; vs <~ eval_args r ;; lret (v :: vs)
  end.
Fixpoint check_args (params : list (ident * span)) (vals : list (option sval)) : L unit :=
  match params, vals with
  | (p, _) :: ps, v :: r =>
      (match v with
       | Some (SNum n) => check_symbol p (DNum n)
       | Some (SStr t) => check_symbol p (DStr t)
       | None => lret tt
       end) ;;~ check_args ps r
  | _, _ => lret tt
  end.

Definition define_seg (idspan : span) (l : list cfgpair) : L unit :=
  match try_get_expression l t_name with
  | None => bad (LError 4 idspan)
  | Some en =>
      name <~ leval_str en ;;
      match name with
      | None => lret tt
      | Some name =>
          start <~ (match try_get_expression l t_start with
                    | Some e => v <~ leval_i64 e ;; lret (match v with Some v => as_usize v | None => 0 end)
                    | None => lret 0
                    end) ;;
          (match try_get_expression l t_write with Some e => leval_i64 e ;;~ lret tt | None => lret tt end) ;;~
          (match try_get_expression l t_bank with Some e => leval_str e ;;~ lret tt | None => lret tt end) ;;~
          target <~ (match try_get_expression l t_pc with
                     | Some e => v <~ leval_i64 e ;; lret (match v with Some t => as_usize t | None => start end)
                     | None => lret start
                     end) ;;
          (* statements that were laid out into this segment before its definition would be lost: an error (code 5) *)
          lmod (fun s => mkLS (l_scope s) (match l_seg s with None => Some name | c => c end)
                              (ss_put (l_segs s) name (mkSS start start target))
                              (Recreate name :: l_log s) (l_macro s)
                              (match seg_writes name (l_log s) with
                               | [] => l_bad s
                               | ws => if existsb (fun w => match snd w with [] => false | _ => true end) ws
                                       then LError 5 idspan :: l_bad s else l_bad s
                               end)
                              (l_addrs s))
      end
  end.

Fixpoint lay (fuel : nat) (t : token) : L unit :=
  match fuel with
  | O => labort 0%nat
  | S f =>
      let lays := lseq (lay f) in
      match t with
      | TAlign value =>
          s <~ lget ;;
          match cur_target s with
          | None => lret tt
          | Some pc =>
              a <~ leval_i64 value ;;
              match a with
              | None => lret tt
              | Some align =>
                  if align <=? 0 then bad (LError 5 (le_span value))
                  else lemit (le_span value)
                         (repeat 0%N (Z.to_nat (Z.min (align - Z.modulo (usize_as_i64 pc) align) align_padding_cap)))
              end
          end
      | TBraces scope b => in_scope scope true (lays (blk_inner b))
      | TData size values =>
          lseq (fun e => v <~ leval_i64 e ;; lemit (le_span e) (match v with Some v => emit_data size v | None => [] end)) values
      | TDefine id idspan cfg =>
          match cfg with
          | None => lret tt
          | Some l => if text_eqb id t_segment then define_seg idspan l else labort 1%nat
          end
      | TIf value if_ else_ =>
          v <~ leval_i64 value ;;
          match v with
          | None => lret tt
          | Some v => if negb (v =? 0) then lays (blk_inner if_)
                      else match else_ with Some e => lays (blk_inner e) | None => lret tt end
          end
      | TImport _ import_scope b file =>
          match file with
          | None => lret tt
          | Some toks =>
              in_scope import_scope (match b with Some _ => true | None => false end)
                ((match b with Some b => lays (blk_inner b) | None => lret tt end) ;;~ lays toks)
          end
      | TInstr mn mspan operand =>
          let full_span := match operand with
                           | Some (e, _) => (Z.min (fst (le_span e)) (fst mspan), Z.max (snd (le_span e)) (snd mspan))
                           | None => mspan end in
          data <~ (match operand with
                   | Some (e, fo) => v <~ leval_i64 e ;; lret (option_map (fun v => (v, fo)) v)
                   | None => lret (Some (0, FImplied))
                   end) ;;
          match data with
          | None => lret tt
          | Some (value, fo) =>
              s <~ lget ;;
              match emit_instruction mn fo value (cur_target s) with
              | (bytes, None) => lemit full_span bytes
              | (_, Some _) => bad (LError 6 full_span)
              end
          end
      | TLabel id idspan b =>
          check_here id ;;~
          match b with Some b => in_scope id true (lays (blk_inner b)) | None => lret tt end
      | TLoop e loop_scope b =>
          n <~ leval_i64 e ;;
          match n with
          | None => lret tt
          | Some count =>
              lloop f loop_first_index count (fun i =>
                in_scope (iteration_scope_name loop_scope i) true
                  (check_symbol t_index (DNum i) ;;~ lays (blk_inner b)))
          end
      | TMacroDef id _ _ _ => check_symbol id DMacro
      | TInvoke name nspan args =>
          s <~ lget ;;
          lmod (fun s => mkLS (l_scope s) (l_seg s) (l_segs s) (l_log s) (S (l_macro s)) (l_bad s) (l_addrs s)) ;;~
          match find_def (S (List.length (l_scope s))) (l_scope s) name with
          | None => bad (LNoMacro name)
          | Some (params, body) =>
              if negb (Nat.eqb (List.length args) (List.length params)) then bad (LError 7 nspan)
              else
                vals <~ eval_args args ;;
                in_scope (macro_scope_name (l_macro s)) false (check_args params vals ;;~ lays body)
          end
      | TPc value =>
          v <~ leval_i64 value ;;
          match v with
          | None => lret tt
          | Some pc =>
              lmod (fun s => match l_seg s with
                             | Some n => match ss_get (l_segs s) n with
                                         | Some x => mkLS (l_scope s) (l_seg s)
                                                          (ss_put (l_segs s) n (mkSS (as_usize pc) (ss_initial x) (ss_target x)))
                                                          (l_log s) (l_macro s) (l_bad s) (l_addrs s)
                                         | None => s
                                         end
                             | None => s
                             end)
          end
      | TSegment id b =>
          n <~ leval_str id ;;
          match n with
          | None => lret tt
          | Some name =>
              s <~ lget ;;
              match ss_get (l_segs s) name with
              | None => bad (LError 8 (le_span id))
              | Some _ =>
                  match b with
                  | Some b => set_lseg (Some name) ;;~ lays (blk_inner b) ;;~ set_lseg (l_seg s)
                  | None => set_lseg (Some name)
                  end
              end
          end
      | TTest id b =>
          s <~ lget ;;
          match cur_target s with
          | None => lret tt
          | Some pc => n <~ leval_str id ;; match n with Some name => check_symbol name (DNum (usize_as_i64 pc)) | None => lret tt end
          end
      | TText enc txt =>
          t <~ leval_str txt ;;
          match t with
          | None => lret tt
          | Some t => match enc, ascii_bytes t with EncAscii, Some bytes => lemit (le_span txt) bytes | _, _ => labort 1%nat end
          end
      | TVarDef ty id _ value =>
          v <~ leval value ;;
          match ty, v with
          | VConst, Some (SNum n) => check_symbol id (DNum n)
          | VConst, Some (SStr t) => check_symbol id (DStr t)
          | _, _ => lret tt                         (* a `.var` is mutable: its final value need not be this one *)
          end
      | TNop => lret tt
      | TUnsupported => labort 1%nat
      end
  end.
End Layout.

(* static collection of macro definitions: braces, labelled blocks and imports contribute their scope names *)
Fixpoint collect (fuel : nat) (scope : ipath) (ts : list token) : mtable :=
  match fuel with
  | O => []
  | S f =>
      flat_map (fun t =>
        match t with
        | TMacroDef id _ args b => [(scope ++ [id], (args, blk_inner b))]
        | TBraces sc b => collect f (scope ++ [sc]) (blk_inner b)
        | TLabel id _ (Some b) => collect f (scope ++ [id]) (blk_inner b)
        | TIf _ a b => collect f scope (blk_inner a) ++ match b with Some b => collect f scope (blk_inner b) | None => [] end
        | TSegment _ (Some b) => collect f scope (blk_inner b)
        | TImport args isc b (Some toks) =>
            let inner := collect f (scope ++ [isc]) toks in
            inner ++
            match args with
            | ImportAll _ None =>
                flat_map (fun kv => match fst kv with
                                    | _ => if Nat.eqb (List.length (fst kv)) (S (List.length (scope ++ [isc])))
                                                && is_prefix (scope ++ [isc]) (fst kv)
                                           then [(scope ++ [last (fst kv) []], snd kv)] else []
                                    end) inner
            | ImportAll _ (Some (p, _)) =>
                flat_map (fun kv => if Nat.eqb (List.length (fst kv)) (S (List.length (scope ++ [isc])))
                                       && is_prefix (scope ++ [isc]) (fst kv)
                                    then [(scope ++ p ++ [last (fst kv) []], snd kv)] else []) inner
            | ImportSpecific items =>
                flat_map (fun it => match it with
                                    | (orig, as_, _) =>
                                        match mt_get inner (scope ++ [isc] ++ orig) with
                                        | Some d => [(scope ++ match as_ with Some a => a | None => orig end, d)]
                                        | None => []
                                        end
                                    end) items
            end
        | _ => []
        end) ts
  end.

Record layout_result := mkLR {
  lr_segments : list (ident * list (Z * list N));   (* per segment: writes, newest first *)
  lr_bad : list lerr;
  lr_end_segment : option ident;
  lr_addrs : list (span * Z * nat)
}.

Definition relayout_once (fuel : nat) (m : fsyms) (toks : list token) (segs : list (ident * segstate)) (cur : option ident)
  : option layout_result + nat :=
  let macros := collect fuel [] toks in
  match lseq (lay m macros fuel) toks (mkLS [] cur segs [] 0%nat [] []) with
  | LAbort w => inr w
  | LOk _ s => inl (Some (mkLR (map (fun ns => (fst ns, seg_writes (fst ns) (l_log s))) (l_segs s)) (l_bad s) (l_seg s) (l_addrs s)))
  end.

(* every pass starts in the segment that was defined first (`cur`, given by the caller as the head of the final segment
   list; repair acfe737 -- before it, a pass started in the segment the previous pass had ended with, and this function
   iterated to that fixed point, i.e. it described the defect instead of the statement) *)
Definition relayout (iters fuel : nat) (m : fsyms) (toks : list token) (segs : list (ident * segstate)) (cur : option ident)
  : option layout_result + nat :=
  relayout_once fuel m toks segs cur.

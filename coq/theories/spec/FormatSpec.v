(* FormatSpec.v -- what C12/C13 talk about, written over the AST and over plain texts, independently of how the
   formatter computes its output:
     * nows: the non-whitespace characters of a text
     * all_comments: every comment of a token list, in source order (field order of the grammar)
     * the decidable classes of inputs on which the current formatter is known to violate the properties *)
From Coq Require Import List NArith Bool Arith.
Import ListNotations.
From Mos Require Import model.Format Gen.FmtRules model.FormatTokens.
Open Scope nat_scope.

(* a is a subsequence of b: b with some elements removed *)
Inductive subseq {A : Type} : list A -> list A -> Prop :=
| subseq_nil : subseq [] []
| subseq_take : forall x a b, subseq a b -> subseq (x :: a) (x :: b)
| subseq_skip : forall x a b, subseq a b -> subseq a (x :: b).


(* ---------------------------------------------------------------- comments of an AST, in source order *)
Definition trivium_comments (t : trivia) : list text :=
  match t with
  | CStyle s | CppStyle s => match s with [] => [] | _ => [s] end   (* the parser never builds an empty comment *)
  | _ => []
  end.
Definition otrivia_comments (ot : option (list trivia)) : list text :=
  match ot with Some ts => flat_map trivium_comments ts | None => [] end.
Definition lt_comments (l : ltext) : list text := otrivia_comments (l_trivia l).
Definition opt_comments {A} (f : A -> list text) (x : option A) : list text :=
  match x with Some a => f a | None => [] end.

(* The text items of a string carry no trivia (parser: `located(..)`); the formatter renders them with Display.  A path
   inside `{ }` may be preceded by trivia (ws(identifier_path)): `wrapper`-like flag `interp` selects whether it counts. *)
Definition istring_comments_with (interp : bool) (s : istring) : list text :=
  lt_comments (is_lquote s) ++
  flat_map (fun i => match i with IString _ => [] | IIdentifierPath p => if interp then lt_comments p else [] end) (is_items s).
(* every comment of the string (the formatter emits the trivia in front of a path since the repair of the interpolation
   defect; proofs/FormatTokensProofs.emits_istring needs Gen.FmtRules.emits_interpolation_trivia = true) *)
Definition istring_comments (s : istring) : list text := istring_comments_with true s.

Fixpoint expr_comments (e : expr) : list text :=
  match e with
  | BinaryExpression lhs op rhs =>
      otrivia_comments (l_trivia lhs) ++ expr_comments (l_data lhs) ++ lt_comments op ++
      otrivia_comments (l_trivia rhs) ++ expr_comments (l_data rhs)
  | Factor tag_not tag_neg f =>
      opt_comments lt_comments tag_not ++ opt_comments lt_comments tag_neg ++
      otrivia_comments (l_trivia f) ++ factor_comments (l_data f)
  end
with factor_comments (f : factor_) : list text :=
  match f with
  | CurrentProgramCounter star => lt_comments star
  | ExprParens lparen inner rparen =>
      lt_comments lparen ++ otrivia_comments (l_trivia inner) ++ expr_comments (l_data inner) ++ lt_comments rparen
  | FunctionCall name lparen args rparen =>
      lt_comments name ++ lt_comments lparen ++
      flat_map (fun ec : located expr * option ltext =>
                  otrivia_comments (l_trivia (fst ec)) ++ expr_comments (l_data (fst ec)) ++ opt_comments lt_comments (snd ec)) args ++
      lt_comments rparen
  | IdentifierValue path modifier => opt_comments lt_comments modifier ++ lt_comments path
  | Number ty value => lt_comments ty ++ lt_comments value
  | FInterpolatedString s => istring_comments s
  end.

Definition lexpr_comments (e : located expr) : list text := otrivia_comments (l_trivia e) ++ expr_comments (l_data e).
Definition arg_exprs_comments (args : arg_exprs) : list text :=
  flat_map (fun ec : located expr * option ltext => lexpr_comments (fst ec) ++ opt_comments lt_comments (snd ec)) args.
Definition arg_ids_comments (args : arg_ids) : list text :=
  flat_map (fun ic : ltext * option ltext => lt_comments (fst ic) ++ opt_comments lt_comments (snd ic)) args.
Definition import_as_comments (a : import_as) : list text := lt_comments (ia_tag a) ++ lt_comments (ia_path a).

(* `wrapper`: whether the trivia of the Located wrapper of a specific import argument is counted *)
Definition import_args_comments (wrapper : bool) (a : import_args) : list text :=
  match a with
  | All star as_ => lt_comments star ++ opt_comments import_as_comments as_
  | Specific args =>
      flat_map (fun pc : located specific_import_arg * option ltext =>
                  (if wrapper then otrivia_comments (l_trivia (fst pc)) else []) ++
                  lt_comments (sa_path (l_data (fst pc))) ++ opt_comments import_as_comments (sa_as (l_data (fst pc))) ++
                  opt_comments lt_comments (snd pc)) args
  end.

Definition operand_comments (op : operand) : list text :=
  opt_comments lt_comments (op_lchar op) ++ lexpr_comments (op_expr op) ++
  match op_mode op with
  | Indirect => opt_comments (fun cr : ltext * ltext => lt_comments (fst cr) ++ lt_comments (snd cr)) (op_suffix op) ++
                opt_comments lt_comments (op_rchar op)
  | OuterIndirect => opt_comments lt_comments (op_rchar op) ++
         opt_comments (fun cr : ltext * ltext => lt_comments (fst cr) ++ lt_comments (snd cr)) (op_suffix op)
  | _ => (* only the two indirect forms have a closing `)` *)
         opt_comments (fun cr : ltext * ltext => lt_comments (fst cr) ++ lt_comments (snd cr)) (op_suffix op)
  end.

(* The comments of a token list in source order: for every token its leading trivia (Token::trivia()), then its body.
   `full` / `wrapper` select whether the trivia of the `{` of a block that belongs to a directive / label / import /
   `.define`, resp. of the Located wrapper of a specific import argument, is counted (both: every comment of the file;
   the formatter emitted neither before 7635ca8 / the `{` repair). *)
Definition lead_comments (t : token) : list text :=
  match t with
  | Expression _ => []        (* Token::trivia() of a bare expression is the trivia of its first factor: part of the body *)
  | _ => otrivia_comments (token_trivia t)
  end.

Section Comments.
  Variable full : bool.        (* the trivia of the `{` of directive / label / import / `.define` blocks is counted *)
  Variable wrapper : bool.     (* the trivia of the Located wrapper of a specific import argument is counted *)

  (* the value of a `.define` or of a config pair is a config block (its `{` trivia) or an expression (trivia inside) *)
  Definition value_lead (v : token) : list text :=
    match v with Config _ => if full then lead_comments v else [] | _ => [] end.

  Fixpoint body_comments (t : token) : list text :=
    match t with
    | Align tag value => lexpr_comments value
    | Assert tag value msg => lexpr_comments value ++ opt_comments istring_comments msg
    | Braces b | Config b => block_comments b
    | ConfigPair key eq value =>
        lt_comments eq ++ otrivia_comments (l_trivia value) ++ value_lead (l_data value) ++ body_comments (l_data value)
    | Data values size => arg_exprs_comments values
    | Definition_ tag id value =>
        lt_comments id ++ match value with Some v => value_lead v ++ body_comments v | None => [] end
    | Eof l => []
    | Error e => []
    | Expression e => expr_comments e
    | File tag filename => istring_comments filename
    | If tag_if value if_ tag_else else_ =>
        lexpr_comments value ++ inner_block_comments if_ ++
        opt_comments lt_comments tag_else ++ match else_ with Some e => inner_block_comments e | None => [] end
    | Import tag args from filename b =>
        import_args_comments wrapper args ++ lt_comments from ++ istring_comments filename ++
        match b with Some b => inner_block_comments b | None => [] end
    | Instruction mnemonic op => opt_comments operand_comments op
    | Label_ id colon b =>   (* the `:` carries no trivia (parser: located(char(':'))) *)
        match b with Some b => inner_block_comments b | None => [] end
    | Loop tag e b => lexpr_comments e ++ inner_block_comments b
    | MacroDefinition tag id lparen args rparen b =>
        lt_comments id ++ lt_comments lparen ++ arg_ids_comments args ++ lt_comments rparen ++ inner_block_comments b
    | MacroInvocation id lparen args rparen => lt_comments lparen ++ arg_exprs_comments args ++ lt_comments rparen
    | ProgramCounterDefinition star eq value => lt_comments eq ++ lexpr_comments value
    | Segment tag id b => lexpr_comments id ++ match b with Some b => inner_block_comments b | None => [] end
    | Test tag id b => lexpr_comments id ++ inner_block_comments b
    | Text tag encoding text_ => opt_comments lt_comments encoding ++ lexpr_comments text_
    | Trace tag lparen args rparen =>
        opt_comments lt_comments lparen ++ arg_exprs_comments args ++ opt_comments lt_comments rparen
    | VariableDefinition ty id eq value => lt_comments id ++ lt_comments eq ++ lexpr_comments value
    end
  (* the inside of a block: inner tokens (each with its leading trivia) and the trivia of `}` *)
  with block_comments (b : block) : list text :=
    match b with
    | mkBlock lparen inner rparen =>
        (fix go (ts : list token) : list text :=
           match ts with [] => [] | t :: r => lead_comments t ++ body_comments t ++ go r end) inner ++
        lt_comments rparen
    end
  (* a block that belongs to a directive, label or import: the trivia of its `{` counts only when `full` *)
  with inner_block_comments (b : block) : list text :=
    match b with
    | mkBlock lparen inner rparen =>
        (if full then lt_comments lparen else []) ++
        (fix go (ts : list token) : list text :=
           match ts with [] => [] | t :: r => lead_comments t ++ body_comments t ++ go r end) inner ++
        lt_comments rparen
    end.

  Definition tokens_comments (ts : list token) : list text := flat_map (fun t => lead_comments t ++ body_comments t) ts.
End Comments.

(* every comment of the file, in source order *)
Definition all_comments (ts : list token) : list text := tokens_comments true true ts.
(* the comments the formatter's token layer emits: the trivia of a directive's `{` / in front of a specific import
   argument iff the source emits it (Gen.FmtRules.emits_lbrace_trivia, emits_import_arg_trivia) *)
Definition emitted_comments (ts : list token) : list text := tokens_comments emits_lbrace_trivia emits_import_arg_trivia ts.

Fixpoint texts_eqb (a b : list text) : bool :=
  match a, b with
  | [], [] => true
  | x :: a', y :: b' => text_eqb x y && texts_eqb a' b'
  | _, _ => false
  end.

(* Known class (F-C12a): some comment sits in front of the `{` of a directive / label / import / `.define` block
   (format_block never emits the trivia of `{`) *)
Definition Known_lbrace_trivia (ts : list token) : bool := negb (texts_eqb (all_comments ts) (tokens_comments false true ts)).
(* the class of the repaired import-argument defect: a comment in front of a specific import argument *)
Definition import_arg_trivia (ts : list token) : bool := negb (texts_eqb (all_comments ts) (tokens_comments true false ts)).

(* ---------------------------------------------------------------- traversal of every token list / token of an AST *)
Section AnyToken.
  Variable P : list token -> bool.     (* holds of some token list (the file's, or the inside of some block) *)
  Variable Q : token -> bool.          (* holds of some token *)

  Fixpoint any_tok (t : token) : bool :=
    Q t ||
    match t with
    | Braces b | Config b | Loop _ _ b | MacroDefinition _ _ _ _ _ b | Test _ _ b => any_block b
    | ConfigPair _ _ v => any_tok (l_data v)
    | Definition_ _ _ (Some v) => any_tok v
    | If _ _ b _ eb => any_block b || match eb with Some e => any_block e | None => false end
    | Import _ _ _ _ (Some b) | Label_ _ _ (Some b) | Segment _ _ (Some b) => any_block b
    | _ => false
    end
  with any_block (b : block) : bool :=
    match b with
    | mkBlock _ inner _ =>
        P inner || (fix go (ts : list token) : bool := match ts with [] => false | t :: r => any_tok t || go r end) inner
    end.

  Definition any_tokens (ts : list token) : bool := P ts || existsb any_tok ts.
End AnyToken.

(* ---------------------------------------------------------------- parser invariants assumed by the theorems *)
Definition is_expression_token (t : token) : bool := match t with Expression _ => true | _ => false end.
Definition else_without_tag (t : token) : bool := match t with If _ _ _ None (Some _) => true | _ => false end.
(* shapes the parser never builds: an `else` block without its tag, a `:` with trivia, a `.define` value that is not a
   config block, a config-pair value that is neither a config block nor an expression *)
Definition bad_shape (t : token) : bool :=
  match t with
  | If _ _ _ None (Some _) => true
  | Label_ _ colon _ => match l_trivia colon with Some _ => true | None => false end
  | Definition_ _ _ (Some v) => match v with Config _ => false | _ => true end
  | ConfigPair _ _ v => match l_data v with Config _ | Expression _ => false | _ => true end
  | _ => false
  end.
(* a bare Expression or Config token only ever is the value of a `.define` / config pair, never an element of a token
   list (format_tokens would emit its leading trivia twice); no bad shapes *)
Definition is_value_token (t : token) : bool := match t with Expression _ | Config _ => true | _ => false end.
Definition wf_tokens (ts : list token) : bool :=
  negb (any_tokens (existsb is_value_token) bad_shape ts).

(* ---------------------------------------------------------------- several statements on one source line *)
Definition has_newline (ot : option (list trivia)) : bool :=
  match ot with Some ts => existsb (fun t => match t with TNewLine => true | _ => false end) ts | None => false end.
Definition blockless_label (t : token) : bool := match t with Label_ _ _ None => true | _ => false end.
Definition is_eof (t : token) : bool := match t with Eof _ => true | _ => false end.

Section Adjacent.
  Variable bad : token -> token -> bool.
  Fixpoint adjacent (prev : option token) (ts : list token) : bool :=
    match ts with
    | [] => false
    | t :: r => match prev with Some p => bad p t | None => false end || adjacent (Some t) r
    end.
End Adjacent.

(* t2 starts on the line on which t1 ends (t1 not being a label that stands in front of its statement) *)
Definition same_line (t1 t2 : token) : bool :=
  negb (is_eof t2) && negb (has_newline (token_trivia t2)) && negb (blockless_label t1) &&
  match kind_of t2 with KError => false | _ => true end.

(* Known class (C12): a statement that starts on the line of the previous one and for which the newline rule table
   inserts no line break: format_tokens then emits the two statements back to back (`lda foo lda bar` -> `lda foolda bar`) *)
Definition glued (t1 t2 : token) : bool :=
  same_line t1 t2 && negb (pushes_newline (kind_of t2) (has_block t2) (kind_of t1)).
Definition Known_same_line_statements (ts : list token) : bool := any_tokens (adjacent glued None) (fun _ => false) ts.

(* ---------------------------------------------------------------- C13: multi-line comments, re-chunking of output lines *)
(* Known class (F-C13a): a comment that spans several lines; its continuation lines are indented again on every run *)
Definition Known_multiline_comment (ts : list token) : bool := existsb contains_nl (all_comments ts).

(* Re-chunking: the chunk list that describes the LINES join_chunks emitted for `cs` -- for every emitted line the pieces
   that went into it (same type, same indent, without their newline), then one newline chunk; squeezed empty lines and
   ignored newlines are gone.  This is the line structure a second run starts from (its trivia newlines are the line
   breaks of the first run's output). *)
Definition strip_nl (s : text) : text := filter (fun c => negb (c =? NL)%N) s.

Definition fchunk := (chunk * bool)%type.     (* a chunk of an emitted line and the is_eol flag it was processed with *)
Record rstate2 := mkR2 { q_st : jstate; q_cur : list fchunk; q_groups : list (list fchunk) }.

Definition is_ignored (o : options) (c : chunk) (st : jstate) (p : text) : bool :=
  match c_ty c with
  | None => text_eqb p [NL] && negb (match j_line st with [] => true | _ => false end)
            && (byte_len (j_line st) <=? o_label_margin o)
  | _ => false
  end.

Definition rechunk_piece2 (o : options) (c : chunk) (is_eol last : bool) (r : rstate2) (p : text) : rstate2 :=
  let st := q_st r in
  let ignored := is_ignored o c st p in
  let st' := join_piece o (c_ty c) is_eol last st p in
  let cur := if ignored then q_cur r
             else match strip_nl p with [] => q_cur r | q => q_cur r ++ [(mkChunk (c_ty c) (c_indent c) q, is_eol)] end in
  if (negb ignored && contains_nl p) || last
  then mkR2 st' [] (if List.length (j_out st) <? List.length (j_out st') then q_groups r ++ [cur] else q_groups r)
  else mkR2 st' cur (q_groups r).

Fixpoint rechunk_loop2 (o : options) (cs : list chunk) (r : rstate2) : rstate2 :=
  match cs with
  | [] => r
  | c :: rest =>
      let r0 := mkR2 (set_indent (q_st r) (c_indent c)) (q_cur r) (q_groups r) in
      rechunk_loop2 o rest (fold_left (rechunk_piece2 o c (next_is_nl rest) (is_last rest)) (chunk_pieces c) r0)
  end.

Definition nlc : chunk := mkChunk None 0 [NL].
Fixpoint join_groups2 (gs : list (list fchunk)) : list chunk :=
  match gs with
  | [] => []
  | g :: rest => map fst g ++ nlc :: join_groups2 rest
  end.
Definition rechunk2 (cs : list chunk) (o : options) : list chunk :=
  join_groups2 (q_groups (rechunk_loop2 o cs (mkR2 j_init [] []))).


(* every line is followed by a newline chunk -- also the last one: a second run sees the newline that format_tokens
   pushes in front of the Eof token (`nop` re-parses to the chunks [nop; "\n"], `nop` + empty line to [nop; "\n"; "\n"]) *)
Definition rechunk (cs : list chunk) (o : options) : list chunk := rechunk2 cs o.

(* the chunk lists for which re-chunking is meaningful: no empty chunk; labels and comments on one line; a plain chunk
   has a newline at most as its last character *)
Fixpoint nl_only_last (s : text) : bool :=
  match s with
  | [] => true
  | [c] => true
  | c :: r => negb (c =? NL)%N && nl_only_last r
  end.
Definition stable_chunk (c : chunk) : bool :=
  negb (match c_str c with [] => true | _ => false end) &&
  match c_ty c with
  | None => nl_only_last (c_str c)
  | Some _ => negb (contains_nl (c_str c))
  end.
Definition stable_chunks (cs : list chunk) : bool := forallb stable_chunk cs.

(* DapCpu.v -- the uninterrupted run of model/DapStep.v instantiated with the 6502 of spec/Cpu6502.v, and the stack
   discipline under which a call returns to the instruction after it. *)
From Coq Require Import List NArith ZArith Bool.
From Mos Require Import Gen.OpcodeTable spec.Isa spec.Cpu6502.
Open Scope Z_scope.

(* state before the i-th instruction of the run that starts in c0 *)
Definition run6502 (c0 : cpu) (i : Z) : cpu := Nat.iter (Z.to_nat i) step c0.
Definition pc6502 (c0 : cpu) (i : Z) : Z := rPC (run6502 c0 i).
Definition sp6502 (c0 : cpu) (i : Z) : Z := rSP (run6502 c0 i).
Definition op6502 (c0 : cpu) (i : Z) : Z := rd (rM (run6502 c0 i)) (rPC (run6502 c0 i)).

Definition in_stack_page (a : Z) : bool := (256 <=? word16 a) && (word16 a <? 512).

(* the instruction at c neither loads the stack pointer from X nor stores into the stack page other than by pushing *)
Definition stack_safe (c : cpu) : bool :=
  match decode (opcode_at c) with
  | Some (m, md) =>
      match m with
      | Txs => false
      | Sta | Stx | Sty | Inc | Dec => negb (in_stack_page (operand_addr c md))
      | Asl | Lsr | Rol | Ror => match md with MImp => true | _ => negb (in_stack_page (operand_addr c md)) end
      | _ => true
      end
  | None => true
  end.

(* Stack discipline of the call executed at index c, for a run on which it returns at index j: the JSR does not wrap the
   stack pointer or the program counter; until the return the subroutine (and what it calls) never pops below its own
   frame, never sets SP from X and writes to the stack page only by pushing; the returning RTS executes with the stack
   pointer the JSR left.  Every clause is a decidable condition on the run. *)
Definition disciplined_call (c0 : cpu) (c j : Z) : Prop :=
  2 <= sp6502 c0 c /\ pc6502 c0 c + 3 < 65536 /\
  (forall k, c < k < j -> sp6502 c0 k <= sp6502 c0 c - 2 /\ stack_safe (run6502 c0 k) = true) /\
  sp6502 c0 (j - 1) = sp6502 c0 c - 2.

(* RenameSpec -- vocabulary for the statements about rename (props/C15.v).  Definitions only. *)
From Coq Require Import List NArith Arith Bool.
Import ListNotations.
From Mos Require Import model.SymGraph model.Analysis model.Rename spec.NavSpec.

(* the table never has two edges with the same label from one node to different targets
   (insert is only called after a failed lookup; export refuses) *)
Definition functional (g : graph) : Prop :=
  forall e1 e2, In e1 g -> In e2 g -> e_src e1 = e_src e2 -> e_lbl e1 = e_lbl e2 -> e_dst e1 = e_dst e2.

(* a fresh name: no edge of the table carries it (and it is not `super`) *)
Definition fresh (g : graph) (new : ident) : Prop :=
  (forall e, In e g -> e_lbl e <> new) /\ is_super new = false.

(* What assembling the edited text builds: the symbol c is known as `new` wherever it was known as `old` -- every
   edge INTO c that carries `old` carries `new`; an alias (another label on another edge into c) is left alone. *)
Definition relabel (g : graph) (c : node) (old new : ident) : graph :=
  map (fun e => if Nat.eqb (e_dst e) c && ident_eqb (e_lbl e) old then mkEdge (e_src e) new c else e) g.

(* g' is g with relabelled edges: same edges in the same order with the same endpoints *)
Definition relabelled (g g' : graph) (c : node) (old new : ident) : Prop :=
  Forall2 (fun e e' => e_src e' = e_src e /\ e_dst e' = e_dst e /\
                       e_lbl e' = if Nat.eqb (e_dst e) c && ident_eqb (e_lbl e) old then new else e_lbl e) g g'.

(* the text edit, identifier by identifier: an identifier of a path is replaced iff it is the old name and the
   resolving walk reaches c with it.  l = the nodes reached after each identifier. *)
Fixpoint ren_path (c : node) (old new : ident) (l : list node) (pth : path) : path :=
  match l, pth with
  | t :: l', id :: pth' => (if Nat.eqb t c && ident_eqb id old then new else id) :: ren_path c old new l' pth'
  | _, _ => []
  end.

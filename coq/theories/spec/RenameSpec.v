(* RenameSpec -- vocabulary for the statements about rename (props/C15.v).  Definitions only. *)
From Coq Require Import List NArith Arith Bool.
Import ListNotations.
From Mos Require Import model.SymGraph model.Analysis model.Rename spec.NavSpec.

(* the table never has two edges with the same label from one node to different targets
   (insert is only called after a failed lookup; export refuses) *)
Definition functional (g : graph) : Prop :=
  forall e1 e2, In e1 g -> In e2 g -> e_src e1 = e_src e2 -> e_lbl e1 = e_lbl e2 -> e_dst e1 = e_dst e2.

(* a fresh name: no edge of the table carries it (and it is not `super`) *)
Definition fresh (g : graph) (new : ident) : Prop :=
  (forall e, In e g -> e_lbl e <> new) /\ is_super new = false.

(* g' is g with relabelled edges: same edges in the same order, the label differs exactly on the edges p -> c *)
Definition relabelled (g g' : graph) (p c : node) (new : ident) : Prop :=
  Forall2 (fun e e' => e_src e' = e_src e /\ e_dst e' = e_dst e /\
                       e_lbl e' = if Nat.eqb (e_src e) p && Nat.eqb (e_dst e) c then new else e_lbl e) g g'.

(* the text edit, identifier by identifier: an identifier of a path is replaced iff the resolving walk crosses an
   edge p -> c there.  n = node the identifier is looked up in, l = the nodes reached after each identifier. *)
Fixpoint ren_path (p c : node) (new : ident) (n : node) (l : list node) (pth : path) : path :=
  match l, pth with
  | t :: l', id :: pth' =>
      (if negb (is_super id) && Nat.eqb n p && Nat.eqb t c then new else id) :: ren_path p c new t l' pth'
  | _, _ => []
  end.

(* all edges p -> c carry the same label *)
Definition uniform (g : graph) (p c : node) (old : ident) : Prop :=
  forall e, In e g -> e_src e = p -> e_dst e = c -> e_lbl e = old.

(* The class of the known finding F-C15a, on the handler's inputs: some usage of the symbol is not "plain".
   A usage is plain when its text is one identifier that is `super`, or that resolves (bubbling allowed) from the
   usage's recorded scope to the symbol itself, the resolving scope being the scope of the definition or the usage's
   own.  The argument `x as y` of a specific import is not plain: as an identifier it resolves to nothing. *)
Definition usage_plain (fuel : nat) (g : graph) (slice : Span -> path) (nx : node) (loc : DefinitionLocation)
           (dl : DefinitionLocation) : bool :=
  match slice (dl_span dl) with
  | [id] =>
      is_super id ||
      match query_traversal_steps fuel g (parent_scope dl) [id] with
      | Some steps =>
          match last_symbol steps with
          | Some t => Nat.eqb t nx &&
                      (Nat.eqb (resolving_scope (parent_scope dl) steps) (parent_scope loc) ||
                       Nat.eqb (resolving_scope (parent_scope dl) steps) (parent_scope dl))
          | None => false
          end
      | None => false
      end
  | _ => false
  end.

Definition Known_import_alias (fuel : nat) (g : graph) (slice : Span -> path) (nx : node) (d : Def) : bool :=
  match location d with
  | Some loc => negb (forallb (usage_plain fuel g slice nx loc) (usages d))
  | None => false
  end.

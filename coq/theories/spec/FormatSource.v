(* FormatSource.v -- the shapes of the token lists the parser builds, as far as the formatter's character accounting
   depends on them (decidable on a token list; evaluated by checks/c12.py on the parse of every generated file):
   whitespace trivia consist of whitespace characters; operands carry only the characters their addressing mode prints; a
   label's colon follows the name directly; the value of a config pair is a nested block or an expression, that of a
   `.define` a block; no value token stands where a statement is expected.  No proofs in this file. *)
From Coq Require Import List NArith Bool.
Import ListNotations.
From Mos Require model.Nom model.Parser model.Display.
From Mos Require Import model.Utf model.Format Gen.FmtRules model.FormatTokens model.FormatParse spec.FormatSpec.

(* every whitespace trivia item consists of whitespace characters (the parser's trivia_impl: is_a(" \t")) *)
Definition triv_clean (t : Nom.trivia) : bool := match t with Nom.TWhitespace s => all_ws s | _ => true end.
Definition ltriv_clean (t : Nom.ltrivia) : bool := forallb triv_clean (Nom.tv_items t).
Definition atom_clean (a : Display.atom) : bool :=
  match a with
  | Display.AItem t => triv_clean t
  | Display.ATriv t => ltriv_clean t
  | Display.AMissing lp => match Nom.triv lp with Some t => ltriv_clean t | None => true end
  | _ => true
  end.
Definition ws_clean (l : list Display.atom) : bool := forallb atom_clean l.

Definition pwf_operand (op : Parser.operand_t) : bool :=
  match Parser.o_mode op with
  | Parser.AbsoluteOrZp => match Parser.lchar op, Parser.rchar op with None, None => true | _, _ => false end
  | Parser.Immediate => match Parser.rchar op, Parser.suffix op with None, None => true | _, _ => false end
  | Parser.Implied => false
  | Parser.Indirect | Parser.OuterIndirect => true
  end.

(* The shapes the parser builds (each is a fact about model/Parser.v, decidable on the token list): operands carry only the
   characters their addressing mode prints; a label's colon follows the name directly; the value of a config pair is a
   nested block or an expression, that of a `.define` a block. *)
Definition value_shape (v : Parser.token) : bool :=
  match v with Parser.TConfig _ | Parser.TExpression _ => true | _ => false end.

Fixpoint pwf (t : Parser.token) : bool :=
  match t with
  | Parser.TBraces b _ | Parser.TConfig b | Parser.TLoop _ _ _ b | Parser.TMacroDefinition _ _ _ _ _ b | Parser.TTest _ _ b => pwf_block b
  | Parser.TConfigPair _ _ value => value_shape (Nom.data value) && pwf (Nom.data value)
  | Parser.TDefinition _ _ (Some v) => match v with Parser.TConfig _ => pwf v | _ => false end
  | Parser.TIf _ _ if_ else_ => pwf_block if_ && match else_ with Some e => pwf_block (snd e) | None => true end
  | Parser.TImport _ _ _ _ (Some b) _ | Parser.TSegment _ _ (Some b) => pwf_block b
  | Parser.TInstruction _ (Some op) => pwf_operand op
  | Parser.TLabel _ colon b =>
      match Nom.triv colon with None => true | Some _ => false end && (Nom.data colon =? 58)%N &&
      match b with Some b => pwf_block b | None => true end
  | _ => true
  end
with pwf_block (b : Parser.block_t) : bool :=
  match b with
  | Parser.Block _ inner _ => (fix go (l : list Parser.token) : bool := match l with [] => true | t :: r => pwf t && negb (value_shape t) && go r end) inner
  end.

(* a statement: the shapes above, and not a bare config block or expression (those only occur as values) *)
Definition stmt_shaped (t : Parser.token) : bool := pwf t && negb (value_shape t).
Definition parser_shaped (toks : list Parser.token) : bool :=
  forallb stmt_shaped toks && ws_clean (Display.a_tokens toks).


(* the same on a source text: None = the file has parse diagnostics (the formatter is not run) *)
Definition source_shaped (s : text) : option bool :=
  match Parser.parse s with
  | Parser.Parsed toks [] => Some (parser_shaped toks)
  | _ => None
  end.

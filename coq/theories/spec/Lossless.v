(* Spec for C05 (and the text-level notions shared with C08), written independently of the parser:
   - `sim s r`: r is s up to ASCII letter case and CRLF -> LF  (how a re-rendering may differ from the file)
   - `tiling a pieces b`: consecutive pieces (optional recorded span + text) tile the byte range [a, b) without
     gap or overlap: every recorded span is exactly the range its text occupies. *)
From Coq Require Import List NArith Bool.
Import ListNotations.
From Mos Require Import model.Utf model.Nom.
Open Scope N_scope.

Inductive sim : text -> text -> Prop :=
| sim_nil : sim [] []
| sim_char : forall c c' s s', ascii_lower c = ascii_lower c' -> sim s s' -> sim (c :: s) (c' :: s')
| sim_crlf : forall s s', sim s s' -> sim (13 :: 10 :: s) (10 :: s').

Definition piece := (option (N * N) * text)%type.
Fixpoint tiling (a : N) (l : list piece) (b : N) : Prop :=
  match l with
  | [] => a = b
  | (sp, t) :: r =>
      match sp with Some (lo, hi) => lo = a /\ hi = a + blen t | None => True end /\ tiling (a + blen t) r b
  end.

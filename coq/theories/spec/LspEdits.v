(* Spec: what it means to apply a list of LSP TextEdits to a document (LSP 3.17, "Text Documents", "Position",
   "TextEdit[]").  Written from the protocol text, independently of how mos computes edits:

   * a document is a sequence of Unicode scalar values; its lines are separated by LF, CR LF or a lone CR;
   * a position is (line, character), both zero-based, character counted in UTF-16 code units within the line
     (a scalar above U+FFFF is two units), the line terminator not being part of the line: a position can neither
     denote the middle of a CR LF pair nor the middle of a surrogate pair;
   * all ranges of a TextEdit[] refer to the ORIGINAL document, they never overlap (touching is allowed; inserts at
     the same position appear in array order).

   This development is strict: a position whose line does not exist, whose character lies beyond the end of the line
   or inside a scalar is "not in range" (the protocol would let a client clamp it; an answer that relies on clamping
   does not denote the text the server meant). *)
From Coq Require Import List NArith Bool Arith.
Import ListNotations.

Definition text := list N.
Definition pos := (nat * nat)%type.                      (* line, character (UTF-16 code units) *)
Record edit := mkEdit { e_start : pos; e_end : pos; e_new : text }.

Definition LF : N := 10%N.
Definition CR : N := 13%N.
Definition is_eol (c : N) : bool := N.eqb c LF || N.eqb c CR.
(* UTF-16 code units of one Unicode scalar value *)
Definition u16 (c : N) : nat := if N.ltb c 65536 then 1 else 2.

(* offset (in scalars) of character `c` within the line that starts at the head of `doc` *)
Fixpoint col_offset (doc : text) (c : nat) : option nat :=
  match c with
  | O => Some 0
  | S _ =>
      match doc with
      | [] => None                                       (* beyond the end of the last line *)
      | x :: r =>
          if is_eol x then None                          (* beyond the end of the line *)
          else if c <? u16 x then None                   (* inside a surrogate pair *)
          else option_map S (col_offset r (c - u16 x))
      end
  end.

(* offset (in scalars) of position (l, c) in `doc`; None = the position does not exist in this document *)
Fixpoint offset_of (doc : text) (l c : nat) {struct doc} : option nat :=
  match l with
  | O => col_offset doc c
  | S l' =>
      match doc with
      | [] => None                                       (* no such line *)
      | x :: r =>
          if N.eqb x CR then
            match r with
            | y :: r' => if N.eqb y LF then option_map (fun n => S (S n)) (offset_of r' l' c)
                         else option_map S (offset_of r l' c)
            | [] => option_map S (offset_of r l' c)
            end
          else if N.eqb x LF then option_map S (offset_of r l' c)
          else option_map S (offset_of r l c)
      end
  end.

(* an edit with both ends resolved to offsets *)
Definition resolved := (nat * nat * text)%type.
Definition resolve (doc : text) (e : edit) : option resolved :=
  match offset_of doc (fst (e_start e)) (snd (e_start e)), offset_of doc (fst (e_end e)) (snd (e_end e)) with
  | Some s, Some t => Some (s, t, e_new e)
  | _, _ => None
  end.
Fixpoint resolve_all (doc : text) (es : list edit) : option (list resolved) :=
  match es with
  | [] => Some []
  | e :: r => match resolve doc e, resolve_all doc r with Some x, Some xs => Some (x :: xs) | _, _ => None end
  end.

(* the document from offset `cur` on, with the (ordered, non-overlapping) replacements carried out *)
Fixpoint splice (doc : text) (cur : nat) (rs : list resolved) : option text :=
  match rs with
  | [] => Some (skipn cur doc)
  | (s, t, new) :: r =>
      if (cur <=? s) && (s <=? t) && (t <=? length doc)
      then option_map (fun out => firstn (s - cur) (skipn cur doc) ++ new ++ out) (splice doc t r)
      else None
  end.

(* None: some position is not in range, or the edits are not ordered / overlap *)
Definition apply_edits (doc : text) (es : list edit) : option text :=
  match resolve_all doc es with Some rs => splice doc 0 rs | None => None end.

(* the same conditions as predicates *)
Definition in_range (doc : text) (es : list edit) : Prop :=
  Forall (fun e => exists s t, offset_of doc (fst (e_start e)) (snd (e_start e)) = Some s /\
                               offset_of doc (fst (e_end e)) (snd (e_end e)) = Some t /\ s <= t <= length doc) es.
Fixpoint ordered_from (cur : nat) (rs : list resolved) : Prop :=
  match rs with
  | [] => True
  | (s, t, _) :: r => cur <= s /\ s <= t /\ ordered_from t r
  end.
Definition ordered_disjoint (doc : text) (es : list edit) : Prop :=
  exists rs, resolve_all doc es = Some rs /\ ordered_from 0 rs.

(* positions compare lexicographically *)
Definition pos_le (p q : pos) : Prop := fst p < fst q \/ (fst p = fst q /\ snd p <= snd q).

(* document class used to guard theorems: the document contains a CR (as part of CR LF or alone) *)
Definition has_cr (doc : text) : bool := existsb (N.eqb CR) doc.

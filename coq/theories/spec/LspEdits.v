(* Spec: applying text edits to a document in the LSP manner.  Positions are (line, UTF-16 code unit);
   lines are separated by LF (a CR before it is an ordinary character of the line, as in
   vscode-languageserver-textdocument).  Edits refer to the OLD document, are ordered and do not overlap. *)
From Coq Require Import List NArith Bool Arith.
Import ListNotations.
From Mos Require Import model.Utf model.Edits.

Definition adv16 := adv1 width_utf16.

Definition pos_eqb (p q : pos) : bool := Nat.eqb (fst p) (fst q) && Nat.eqb (snd p) (snd q).
Definition plt (p q : pos) : Prop := fst p < fst q \/ (fst p = fst q /\ snd p < snd q).
Definition ple (p q : pos) : Prop := p = q \/ plt p q.

(* drop characters of old, starting at position p, until position q is reached *)
Fixpoint skip_to (p : pos) (old : text) (q : pos) : option text :=
  if pos_eqb p q then Some old else
  match old with [] => None | c :: old' => skip_to (adv16 p c) old' q end.

(* relational form: walk the old text; an edit fires exactly when the current position is its start *)
Inductive applies : pos -> text -> list edit -> text -> Prop :=
| A_nil p old : applies p old [] old
| A_edit p old e es old' out : p = e_start e -> skip_to p old (e_end e) = Some old' ->
    applies (e_end e) old' es out -> applies p old (e :: es) (e_new e ++ out)
| A_char p c old e es out : p <> e_start e -> applies (adv16 p c) old (e :: es) out ->
    applies p (c :: old) (e :: es) (c :: out).

(* executable form (the oracle evaluated on the implementation's edits) *)
Fixpoint apply_pos (fuel : nat) (p : pos) (old : text) (es : list edit) : option text :=
  match fuel with
  | O => None
  | S f =>
      match es with
      | [] => Some old
      | e :: es' =>
          if pos_eqb p (e_start e) then
            match skip_to p old (e_end e) with
            | Some old' => option_map (app (e_new e)) (apply_pos f (e_end e) old' es')
            | None => None
            end
          else match old with
               | [] => None
               | c :: old' => option_map (cons c) (apply_pos f (adv16 p c) old' es)
               end
      end
  end.
Definition apply_edits (old : text) (es : list edit) : option text :=
  apply_pos (S (length old + length es)) (0, 0) old es.

(* in range, ordered, non-overlapping *)
Fixpoint ordered (p : pos) (es : list edit) : Prop :=
  match es with
  | [] => True
  | e :: r => ple p (e_start e) /\ ple (e_start e) (e_end e) /\ ordered (e_end e) r
  end.
Definition in_range (old : text) (es : list edit) : Prop :=
  Forall (fun e => ple (e_end e) (adv width_utf16 (0, 0) old)) es.

#!/bin/sh
# usage: goal.sh file.v LINE  -- shows the goals just before LINE
f=$1; n=$2
head -n $((n-1)) $f > /tmp/_goal.v
echo "Show. Abort All." >> /tmp/_goal.v
cd /verif/coq && coqc -Q theories Mos /tmp/_goal.v 2>&1 | grep -v conda | tail -${3:-40}

// mosprobe_c11: line-protocol probe for C11 (source map / listings).
// One JSON request per stdin line, one JSON reply per stdout line; panics inside mos-core are caught.
// request: {"files": {name: text}, "entry": "main.asm", "move_macro": bool, "pc": n, "ns": [bytes-per-line ...]}
// reply:   parse_errors, errors (messages), ok, files (CodeMap order: name, len, num_lines),
//          source_map (emission order: scope, file, lo, hi (byte offsets in the file), pc0, pc1, segment),
//          segments (definition order: name, start, end (emit range), data, target_offset, pc),
//          listings {n: {file: text}} -- the real to_listing output
use mos_core::codegen::{codegen, CodegenOptions};
use mos_core::io::to_listing;
use mos_core::parser::parse;
use mos_core::parser::source::{InMemoryParsingSource, ParsingSource};
use serde_json::{json, Map, Value};
use std::io::{BufRead, Write};
use std::panic::{catch_unwind, AssertUnwindSafe};
use std::path::Path;
use std::sync::{Arc, Mutex};

fn hex(b: &[u8]) -> String {
    let mut s = String::with_capacity(b.len() * 2);
    for x in b {
        s.push_str(&format!("{:02x}", x));
    }
    s
}

fn panic_msg(p: &Box<dyn std::any::Any + Send>) -> String {
    if let Some(s) = p.downcast_ref::<&str>() {
        s.to_string()
    } else if let Some(s) = p.downcast_ref::<String>() {
        s.clone()
    } else {
        "<non-string panic>".to_string()
    }
}

fn cmd_asm(req: &Value) -> Value {
    let mut out = Map::new();
    let mut src = InMemoryParsingSource::new();
    if let Some(files) = req.get("files").and_then(|f| f.as_object()) {
        for (k, v) in files {
            src = src.add(k.as_str(), v.as_str().unwrap_or(""));
        }
    }
    let entry = req.get("entry").and_then(|e| e.as_str()).unwrap_or("main.asm").to_string();
    let src: Arc<Mutex<dyn ParsingSource>> = src.into();
    let (tree, perr) = parse(Path::new(&entry), src);
    out.insert(
        "parse_errors".into(),
        Value::Array(perr.iter().map(|d| json!(d.message)).collect()),
    );
    let tree = match tree {
        Some(t) if perr.is_empty() => t,
        _ => return Value::Object(out),
    };
    let mut opts = CodegenOptions::default();
    if let Some(b) = req.get("move_macro").and_then(|b| b.as_bool()) {
        opts.move_macro_source_map_to_invocation = b;
    }
    if let Some(pc) = req.get("pc").and_then(|b| b.as_u64()) {
        opts.pc = (pc as usize).into();
    }
    let (ctx, errs) = codegen(tree.clone(), opts);
    out.insert("errors".into(), Value::Array(errs.iter().map(|d| json!(d.message)).collect()));
    out.insert("ok".into(), json!(errs.is_empty()));
    let ctx = match ctx {
        Some(c) => c,
        None => return Value::Object(out),
    };
    let cm = &ctx.tree().code_map;
    out.insert(
        "files".into(),
        Value::Array(
            cm.files()
                .iter()
                .map(|f| json!({"name": f.name(), "len": f.source().len(), "num_lines": f.num_lines(), "low": f.span.low().as_usize()}))
                .collect(),
        ),
    );
    let mut segs = vec![];
    for (name, seg) in ctx.segments() {
        segs.push(json!({
            "name": name.to_string(),
            "start": seg.range().start,
            "end": seg.range().end,
            "pc": seg.pc().as_usize(),
            "target_offset": seg.target_offset(),
            "data": hex(seg.range_data()),
        }));
    }
    out.insert("segments".into(), Value::Array(segs));
    let mut sm = vec![];
    for o in ctx.source_map().offsets() {
        let r = catch_unwind(AssertUnwindSafe(|| {
            let sl = cm.look_up_span(o.span);
            let flo = sl.file.span.low().as_usize();
            (
                sl.file.name().to_string(),
                o.span.low().as_usize() - flo,
                o.span.high().as_usize() - flo,
                sl.begin.line,
                sl.begin.column,
                sl.end.line,
                sl.end.column,
            )
        }));
        if let Ok((f, lo, hi, l0, c0, l1, c1)) = r {
            sm.push(json!({"scope": o.scope.index(), "file": f, "lo": lo, "hi": hi, "line": l0, "col": c0, "eline": l1, "ecol": c1,
                           "pc0": o.pc.start, "pc1": o.pc.end, "segment": o.segment.to_string()}));
        } else {
            sm.push(json!({"bad_span": true}));
        }
    }
    out.insert("source_map".into(), Value::Array(sm));
    // address_to_offset / line_col_to_offsets queries: answered with indices into source_map
    if let Some(qs) = req.get("addr_queries").and_then(|q| q.as_array()) {
        let offs = ctx.source_map().offsets();
        let mut res = vec![];
        for q in qs {
            let pc = q.as_u64().unwrap_or(0) as usize;
            let r = ctx.source_map().address_to_offset(pc);
            res.push(match r {
                Some(o) => json!(offs.iter().position(|x| std::ptr::eq(x, o))),
                None => Value::Null,
            });
        }
        out.insert("addr_answers".into(), Value::Array(res));
    }
    if let Some(qs) = req.get("line_queries").and_then(|q| q.as_array()) {
        let offs = ctx.source_map().offsets();
        let mut res = vec![];
        for q in qs {
            let file = q.get(0).and_then(|x| x.as_str()).unwrap_or("");
            let line = q.get(1).and_then(|x| x.as_u64()).unwrap_or(0) as usize;
            let col = q.get(2).and_then(|x| x.as_u64()).map(|c| c as usize);
            let r = catch_unwind(AssertUnwindSafe(|| {
                ctx.source_map()
                    .line_col_to_offsets(cm, file, line, col)
                    .iter()
                    .map(|o| offs.iter().position(|x| std::ptr::eq(x, *o)).unwrap())
                    .collect::<Vec<_>>()
            }));
            res.push(match r {
                Ok(v) => json!(v),
                Err(p) => json!({"panic": panic_msg(&p)}),
            });
        }
        out.insert("line_answers".into(), Value::Array(res));
    }
    let mut listings = Map::new();
    if let Some(ns) = req.get("ns").and_then(|n| n.as_array()) {
        for n in ns {
            let n = n.as_u64().unwrap_or(8) as usize;
            match catch_unwind(AssertUnwindSafe(|| to_listing(&ctx, n))) {
                Ok(Ok(l)) => {
                    let mut m = Map::new();
                    for (k, v) in l {
                        m.insert(k.to_string_lossy().to_string(), json!(v));
                    }
                    listings.insert(n.to_string(), Value::Object(m));
                }
                Ok(Err(e)) => {
                    listings.insert(n.to_string(), json!({"errors": e.iter().map(|d| d.message.clone()).collect::<Vec<_>>()}));
                }
                Err(p) => {
                    listings.insert(n.to_string(), json!({"panic": panic_msg(&p)}));
                }
            }
        }
    }
    out.insert("listings".into(), Value::Object(listings));
    Value::Object(out)
}

fn main() {
    std::panic::set_hook(Box::new(|_| {}));
    let stdin = std::io::stdin();
    let stdout = std::io::stdout();
    for line in stdin.lock().lines() {
        let line = match line {
            Ok(l) => l,
            Err(_) => break,
        };
        if line.trim().is_empty() {
            continue;
        }
        let reply = match serde_json::from_str::<Value>(&line) {
            Ok(req) => match catch_unwind(AssertUnwindSafe(|| cmd_asm(&req))) {
                Ok(v) => v,
                Err(p) => json!({"panic": panic_msg(&p)}),
            },
            Err(e) => json!({"bad_request": e.to_string()}),
        };
        let mut o = stdout.lock();
        writeln!(o, "{}", reply).unwrap();
        o.flush().unwrap();
    }
}

"""C13 -- formatting is idempotent."""
import json
import os
import random

import common
import fmtlib
import c12
from c12 import Ctx, chunks_plain, CLEAN
from fmtlib import S, T


def flatten_comments(src):
    """every block comment on one line: line breaks inside /* */ (nesting honoured; `//` comments and strings skipped)
    are replaced by spaces"""
    out = []
    i, n = 0, len(src)
    while i < n:
        if src.startswith("//", i):
            j = i
            while j < n and src[j] not in "\r\n":
                j += 1
            out.append(src[i:j])
            i = j
        elif src[i] == '"':
            j = i + 1
            while j < n and src[j] not in '"\r\n':
                j += 1
            out.append(src[i:j + 1])
            i = j + 1
        elif src.startswith("/*", i):
            depth, j = 1, i + 2
            while j < n and depth > 0:
                if src.startswith("/*", j):
                    depth += 1
                    j += 2
                elif src.startswith("*/", j):
                    depth -= 1
                    j += 2
                else:
                    j += 1
            out.append(src[i:j].replace("\r", " ").replace("\n", " "))
            i = j
        else:
            out.append(src[i])
            i += 1
    return "".join(out)


def format_project(ctx, files, fmt, ast=True):
    r = ctx.probe.call({"cmd": "chunks", "files": files, "fmt": fmt, "ast": ast})
    if "files" not in r:
        return None, r
    out = {}
    for n, f in r["files"].items():
        if "formatted" not in f:
            return None, r
        out[n] = f["formatted"]
    return out, r


def model_check(ctx, r, fmt, replay, what):
    """tie: the model on the AST of this (already formatted) text against the real chunk list and output"""
    for name, f in sorted(r["files"].items()):
        toks = fmtlib.ast_to_model(r["ast"]["files"][name]["tokens"])
        m = ctx.model.call({"cmd": "format", "fmt": fmt, "tokens": toks})
        if "formatted" not in m:
            ctx.chk.tie_break("model", "mosmodel_fmt failed: %s" % str(m)[:300], replay)
        elif chunks_plain(m["chunks"]) != chunks_plain(f["chunks"]) or S(m["formatted"]) != f["formatted"]:
            ctx.chk.tie_break("correspondence:format(%s)" % what, "model and real formatter differ for %s" % name,
                              dict(replay, model=S(m["formatted"]), impl=f["formatted"]))


def classify(ctx, r, fmt):
    classes = set()
    for name in r["files"]:
        toks = fmtlib.ast_to_model(r["ast"]["files"][name]["tokens"])
        c = ctx.model.call({"cmd": "classify", "fmt": fmt, "tokens": toks})
        for k in c.get("classes", []):
            classes.add(k)
    return classes


def check_project(ctx, files, fmt, dist, origin):
    chk = ctx.chk
    replay = {"files": files, "fmt": fmt, "origin": origin}
    f1, r1 = format_project(ctx, files, fmt)
    if f1 is None:
        if r1.get("parse_errors"):
            dist["rejected_by_parser"] = dist.get("rejected_by_parser", 0) + 1
        else:
            chk.oracle_failure(None, "the formatter panics or the probe failed: %s" % str(r1)[:200], replay)
        return False
    classes = classify(ctx, r1, fmt)
    for k in classes:
        dist["class:" + k] = dist.get("class:" + k, 0) + 1
    # C13_join_fixed on the REAL chunk lists: they are in the theorem's domain (stable) unless the file has a multi-line
    # comment, and re-chunking the real output through the real join_chunks reproduces the formatter's text
    for name, f in sorted(r1["files"].items()):
        m = ctx.model.call({"cmd": "rechunk", "chunks": f["chunks"], "fmt": fmt})
        if "rechunked" not in m:
            chk.tie_break("model", "mosmodel_fmt rechunk failed: %s" % str(m)[:200], replay)
            continue
        if m.get("stable"):
            dist["real_chunk_lists_stable"] = dist.get("real_chunk_lists_stable", 0) + 1
            rj = ctx.probe.call({"cmd": "join", "chunks": m["rechunked"], "fmt": fmt})
            if "joined" not in rj or S(rj["joined"]) != f["formatted"]:
                chk.oracle_failure(None, "%s: re-chunking the formatter's lines and joining them again (real join_chunks) changes the text" % name,
                                   dict(replay, formatted=f["formatted"], rejoined=S(rj.get("joined", []))))
        else:
            dist["real_chunk_lists_unstable"] = dist.get("real_chunk_lists_unstable", 0) + 1
            if "Known_multiline_comment" not in classes:
                chk.tie_break("correspondence:stable_chunks", "a real chunk list of a program without multi-line comments is outside the domain of "
                              "C13_join_fixed (stable_chunks = false)", dict(replay, chunks=chunks_plain(f["chunks"])))
    files1 = dict(files)
    files1.update(f1)
    f2, r2 = format_project(ctx, files1, fmt)
    if f2 is None:
        klass = "Known_same_line_statements" if "Known_same_line_statements" in classes else None
        chk.oracle_failure(klass, "the formatter's own output cannot be formatted again: %s" % str(r2.get("parse_errors", r2))[:200],
                           dict(replay, formatted=f1))
        return True
    # tie on the second run as well (the formatter's own layout as input)
    model_check(ctx, r2, fmt, dict(replay, files=files1), "second run")
    for name in sorted(f1):
        if f2[name] != f1[name]:
            l1, l2 = f1[name].split("\n"), f2[name].split("\n")
            i = next((i for i, (a, b) in enumerate(zip(l1, l2)) if a != b), min(len(l1), len(l2)))
            klass = None
            if "Known_multiline_comment" in classes:
                # known only if the multi-line comments are the cause: the same project with every block comment put on
                # one line must be idempotent
                flat = {n: (flatten_comments(s) if n.endswith(".asm") else s) for n, s in files.items()}
                g1, _ = format_project(ctx, flat, fmt, ast=False)
                g2 = None
                if g1 is not None:
                    flat1 = dict(flat)
                    flat1.update(g1)
                    g2, _ = format_project(ctx, flat1, fmt, ast=False)
                if g1 is not None and g2 == g1:
                    klass = "Known_multiline_comment"
            files2 = dict(files1)
            files2.update(f2)
            f3, _ = format_project(ctx, files2, fmt, ast=False)
            chk.oracle_failure(klass, "%s: format(format(p)) != format(p); first difference at line %d: %r vs %r; a third run %s" % (
                name, i + 1, l1[i:i + 1], l2[i:i + 1], "changes it again" if f3 is None or f3.get(name) != f2[name] else "is stable"),
                dict(replay, first=f1[name], second=f2[name], classes=sorted(classes)))
            dist["not_idempotent"] = dist.get("not_idempotent", 0) + 1
            return True
    dist["idempotent"] = dist.get("idempotent", 0) + 1
    return True


def rechunk_tie(ctx, rng, n, dist):
    """C13_join_fixed evaluated on the real join_chunks: re-chunk the real output (extracted `rechunk`) and join again"""
    chk = ctx.chk
    for i in range(n):
        cs = c12.random_chunks(rng)
        fmt = fmtlib.gen_options(rng)
        m = ctx.model.call({"cmd": "rechunk", "chunks": cs, "fmt": fmt})
        if "rechunked" not in m:
            chk.tie_break("model", "mosmodel_fmt rechunk failed: %s" % str(m)[:200], {"chunks": chunks_plain(cs), "fmt": fmt})
            continue
        r1 = ctx.probe.call({"cmd": "join", "chunks": cs, "fmt": fmt})
        r2 = ctx.probe.call({"cmd": "join", "chunks": m["rechunked"], "fmt": fmt})
        chk.count(1, 1 if m.get("stable") and len(cs) >= 2 else 0)
        dist["rechunk_lists"] = dist.get("rechunk_lists", 0) + 1
        dist["rechunk_stable"] = dist.get("rechunk_stable", 0) + (1 if m.get("stable") else 0)
        if "joined" not in r1 or "joined" not in r2:
            chk.oracle_failure(None, "join_chunks panics: %s" % str(r1)[:100], {"chunks": chunks_plain(cs), "fmt": fmt})
            continue
        if m.get("stable") and r1["joined"] != r2["joined"]:
            chk.oracle_failure(None, "re-chunking the lines of join_chunks' output and joining again changes the text (stable chunk list)",
                               {"chunks": chunks_plain(cs), "fmt": fmt, "first": S(r1["joined"]), "second": S(r2["joined"]),
                                "rechunked": chunks_plain(m["rechunked"])})


def run(chk):
    rng = random.Random(chk.seed)
    common.translate_for(chk, ["fmt"])
    chk.proof = common.prove("C13")
    ctx = Ctx(chk, need_mos=False)
    thorough = chk.tier == "thorough"
    dist = {}
    seen = set()
    axes = fmtlib.all_option_axes()

    def one(files, fmt, origin):
        key = (json.dumps(files, sort_keys=True), json.dumps(fmt, sort_keys=True))
        if key in seen:
            return
        seen.add(key)
        if check_project(ctx, files, fmt, dist, origin):
            chk.count(1, 1 if len(files["main.asm"].split()) > 6 else 0)
            chk.sample({"origin": origin, "fmt": fmt, "main.asm": files["main.asm"][:300]}, limit=4)

    for prop in ("C13", "C12"):
        for name, files in c12.load_corpus(prop):
            for fmt in [fmtlib.DEFAULT_FMT] + axes:
                one(files, fmt, "corpus:%s/%s" % (prop, name))
    n = 7000 if thorough else 1400
    plan = [(CLEAN, 0.55), (CLEAN + ["non_ascii"], 0.1), (CLEAN + ["same_line"], 0.15), (CLEAN + ["lbrace_comment", "import_arg_comment"], 0.06),
            (CLEAN + ["multiline_comments"], 0.08), (["newline_gaps", "same_line", "long_labels"], 0.06)]
    for i in range(n):
        r = rng.random()
        acc = 0.0
        for cls, p in plan:
            acc += p
            if r < acc:
                break
        files, stats = fmtlib.gen_project(rng, cls)
        for k, v in stats.items():
            dist["gen:" + k] = dist.get("gen:" + k, 0) + v
        dist["projects"] = dist.get("projects", 0) + 1
        opts = [fmtlib.gen_options(rng)]
        if i % 4 == 0:
            opts.append(rng.choice(axes))
        for fmt in opts:
            one(files, fmt, "gen:%s" % "+".join(c for c in cls if c not in CLEAN))
    rechunk_tie(ctx, rng, 20000 if thorough else 3000, dist)
    ctx.stop()
    chk.cov["rule"] = ("corpus witnesses (C13 and C12) x every enumerated option axis value; seeded grammar-based projects (as for C12: whole statement "
                       "grammar, comments in every trivia position, long labels, empty blocks, statements sharing a line, multi-line block comments "
                       "as a separate class) x random options (+ one axis value for every 4th project); each case: format, format the result again, "
                       "compare per file (the oracle), and the model against the real chunk list / output on the second run too; plus random chunk "
                       "lists re-chunked by the extracted `rechunk` through the real join_chunks.  distinct = distinct (project, options); "
                       "non-trivial = more than 6 words (chunk lists: stable and >= 2 chunks)")
    chk.extra["distribution"] = dist
    chk.assumptions = ["idempotence is checked on the formatter's output string per file (probe), the end-to-end file rewriting is covered by C12"]
    return chk.finish(extra_trusted=[
        "hook H4 (cfg mos_verif): verif_chunks / verif_join_chunks in mos-core/src/formatting/mod.rs",
        "AST dump of the real parser (harness/src/dump.rs) re-encoded by checks/fmtlib.py:ast_to_model and extract/driver_fmt.ml"])


def replay(chk, path):
    obj = json.load(open(path))
    rp = obj["replay"]
    ctx = Ctx(chk, need_mos=False)
    if "chunks" in rp:
        cs = [[c[0], c[1], T(c[2])] for c in rp["chunks"]]
        r = ctx.probe.call({"cmd": "join", "chunks": cs, "fmt": rp["fmt"]})
        print(json.dumps({"impl": S(r.get("joined", []))}, indent=1, ensure_ascii=False))
    else:
        f1, _ = format_project(ctx, rp["files"], rp["fmt"], ast=False)
        out = {"first": f1}
        if f1:
            files1 = dict(rp["files"])
            files1.update(f1)
            f2, _ = format_project(ctx, files1, rp["fmt"], ast=False)
            out["second"] = f2
            out["idempotent"] = f1 == f2
        print(json.dumps(out, indent=1, ensure_ascii=False))
    ctx.stop()
    return 0

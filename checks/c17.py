"""C17 -- format-document edits reproduce the formatter.

Per case (old text, new text):
  * the real `get_text_edits(old, new)` with the raw diff chunks (hook H2, `mos verif-probe` cmd `edits`);
  * assumption about the diff oracle validated: the chunks partition old / new;
  * correspondence: the extracted model's get_text_edits on the REAL chunks == the real edits;
  * oracle: the extracted spec's apply_edits(old, REAL edits) == new (None = some position not in range / not ordered).
Program cases take new = the real formatter's output (mosprobe `format`, default options); pair cases are arbitrary
text pairs.  A sample of program cases goes end to end through a real `mos lsp` over stdio (formatting and
onTypeFormatting) and is compared with what `mos format` writes to disk.
"""
import hashlib
import json
import os
import random
import shutil
import subprocess
import sys
import tempfile

import common
from common import Proc, log

sys.path.insert(0, os.path.join(common.ROOT, "drivers"))

# ----------------------------------------------------------------------------- text helpers
def scal(s):
    return [ord(c) for c in s]


def unscal(a):
    return "".join(chr(x) for x in a)


def canon_edits(es):
    out = []
    for e in es:
        new = e["new"]
        if isinstance(new, list):
            new = unscal(new)
        out.append((int(e["sl"]), int(e["sc"]), int(e["el"]), int(e["ec"]), new))
    return out


def lsp_edits(result):
    return [(e["range"]["start"]["line"], e["range"]["start"]["character"], e["range"]["end"]["line"],
             e["range"]["end"]["character"], e["newText"]) for e in result]


def show_edits(es):
    return ["(%d,%d)-(%d,%d) -> %r" % e for e in es]


# ----------------------------------------------------------------------------- generators
BMP = ["é", "ü", "ß", "漢", "字", "Ω", " ", " ", "ﬁ"]
ASTRAL = ["😀", "𝄞", "🦀", "𐍈"]
WORDS = ["init", "loop", "done", "back to basic", "x", "set border", "todo", "a b  c", "0", "}", "{", "lda #1", "*/ /", "//"]


def comment_text(rng, kinds):
    parts = []
    for _ in range(rng.randrange(1, 4)):
        r = rng.random()
        if r < 0.45:
            parts.append(rng.choice(WORDS[:9]))
        elif r < 0.7:
            parts.append(rng.choice(BMP))
            kinds.add("bmp")
        elif r < 0.9:
            parts.append(rng.choice(ASTRAL))
            kinds.add("astral")
        else:
            parts.append(rng.choice(["ééé", "😀😀", "é😀é"]))
            kinds.add("bmp")
            kinds.add("astral")
    return " ".join(parts).replace("*/", "* /")


def ws(rng, minimum=1, wide=False):
    r = rng.random()
    if r < 0.5:
        n = minimum
    elif r < 0.85 or not wide:
        n = rng.randrange(minimum, 6)
    else:
        n = rng.randrange(10, 60)
    if n and rng.random() < 0.06:
        return "\t" * max(1, n // 4)
    return " " * n


INSTR = [("nop",), ("rts",), ("inx",), ("dey",), ("asl",), ("lda", "#1"), ("lda", "#$ff"), ("sta", "$d020"), ("ldx", "#<data"),
         ("lda", "data", ",", "x"), ("sta", "($fb)", ",", "y"), ("lda", "(", "$10", ",", "x", ")"), ("jmp", "start"), ("jsr", "sub"),
         ("inc", "$d020"), ("adc", "#1", "+", "2"), ("cmp", "#%1010"), ("bit", "$1234")]


def stmt_instr(rng, kinds):
    t = rng.choice(INSTR)
    out = t[0]
    for i, tok in enumerate(t[1:]):
        if i == 0:
            out += ws(rng, 1)
        elif rng.random() < 0.4:
            out += ws(rng, 0)
        out += tok
    return out


def stmt_data(rng, kinds):
    r = rng.random()
    if r < 0.45:
        n = rng.randrange(1, 6)
        sep = lambda: ws(rng, 0) + "," + ws(rng, 0)
        vals = [rng.choice(["1", "$ff", "%101", "2+3", "<data", "255"]) for _ in range(n)]
        out = rng.choice([".byte", ".word", ".dword"]) + ws(rng, 1)
        for i, v in enumerate(vals):
            out += (sep() if i else "") + v
        return out
    if r < 0.8:
        s = rng.choice(["hello", "a b", "HELLO WORLD", "x  y", "abc//d", "/* no */"])
        if rng.random() < 0.5:
            s = comment_text(rng, kinds).replace('"', "'").replace("{", "(").replace("}", ")")
            kinds.add("non_ascii_string" if any(ord(ch) > 127 for ch in s) else "string")
        kinds.add("string")
        if rng.random() < 0.25:
            return ".assert" + ws(rng, 1) + "1" + ws(rng, 0) + "==" + ws(rng, 0) + "1" + ws(rng, 1) + '"%s"' % s
        return ".text" + ws(rng, 1) + rng.choice(["", "ascii ", "petscii ", "petscreen "]) + '"%s"' % s
    return ".align" + ws(rng, 1) + rng.choice(["2", "4", "16"])


def gen_program(rng, kinds):
    """an error-free program as a list of lines (each possibly with comments), with arbitrary spacing"""
    lines = []
    labels = ["start", "sub", "data"]
    depth = 0

    def indent():
        r = rng.random()
        if r < 0.35:
            return ""
        if r < 0.6:
            return " " * 20
        if r < 0.8:
            return " " * (4 * depth)
        return ws(rng, 0, wide=True)

    def trailer():
        r = rng.random()
        out = ""
        if r < 0.3:
            out = ws(rng, 1, wide=True) + "//" + ws(rng, 0) + comment_text(rng, kinds)
            kinds.add("line_comment")
        elif r < 0.42:
            out = ws(rng, 0, wide=True) + "/*" + ws(rng, 1) + comment_text(rng, kinds) + ws(rng, 1) + "*/"
            kinds.add("block_comment")
        if rng.random() < 0.25:
            out += ws(rng, 1)
            kinds.add("trailing_ws")
        return out

    def blank():
        r = rng.random()
        n = 0 if r < 0.6 else 1 if r < 0.8 else rng.randrange(2, 6)
        for _ in range(n):
            lines.append(ws(rng, 0) if rng.random() < 0.2 else "")
        if n >= 3:
            kinds.add("blank_run")

    def body(n):
        nonlocal depth
        for _ in range(n):
            r = rng.random()
            if r < 0.5:
                lines.append(indent() + stmt_instr(rng, kinds) + trailer())
            elif r < 0.62:
                lines.append(indent() + stmt_data(rng, kinds) + trailer())
            elif r < 0.7:
                lines.append(indent() + "//" + ws(rng, 0) + comment_text(rng, kinds))
                kinds.add("line_comment")
            elif r < 0.76:
                c = "/*" + ws(rng, 1) + comment_text(rng, kinds)
                if rng.random() < 0.5:
                    c += "\n" + ws(rng, 0) + comment_text(rng, kinds)
                    kinds.add("multiline_comment")
                lines.append(indent() + c + ws(rng, 1) + "*/" + (ws(rng, 1) + stmt_instr(rng, kinds) if rng.random() < 0.4 else ""))
                kinds.add("block_comment")
            elif r < 0.86 and depth < 3:
                kind = rng.choice(["{", ".if 1", ".loop 2", ".if 0", "lbl:"])
                head = {"{": "", "lbl:": "l%d:" % len(lines)}.get(kind, kind)
                style = rng.random()
                kinds.add("block")
                if style < 0.3:      # one-liner
                    lines.append(indent() + head + ws(rng, 0 if not head else 1) + "{" + ws(rng, 0) + stmt_instr(rng, kinds) + ws(rng, 0) + "}" + trailer())
                else:
                    if style < 0.65:
                        lines.append(indent() + head + ws(rng, 0 if not head else 1) + "{" + trailer())
                    else:
                        if head:
                            lines.append(indent() + head)
                        lines.append(indent() + "{")
                    depth += 1
                    body(rng.randrange(1, 4))
                    depth -= 1
                    closing = indent() + "}"
                    if kind in (".if 1", ".if 0") and rng.random() < 0.5:
                        closing += ws(rng, 0) + "else" + ws(rng, 0) + "{" + ws(rng, 0) + stmt_instr(rng, kinds) + ws(rng, 0) + "}"
                    lines.append(closing + trailer())
            elif r < 0.885 and depth == 0:
                name = "m%d" % len(lines)
                lines.append(indent() + ".macro" + ws(rng, 1) + name + ws(rng, 0) + "(" + ws(rng, 0) + "a" + ws(rng, 0) + ")" + ws(rng, 0) + "{" + ws(rng, 0)
                             + "lda" + ws(rng, 1) + "#a" + ws(rng, 0) + "}" + trailer())
                lines.append(indent() + name + ws(rng, 0) + "(" + ws(rng, 0) + rng.choice(["1", "$10", "c"]).replace("c", "2") + ws(rng, 0) + ")" + trailer())
                kinds.add("macro")
            elif r < 0.93:
                lines.append(indent() + rng.choice([".const", ".var"]) + ws(rng, 1) + "c%d" % len(lines) + ws(rng, 0) + "=" + ws(rng, 0) + rng.choice(["1", "$10", "2 * 3"]) + trailer())
            else:
                lines.append(indent() + "*" + ws(rng, 0) + "=" + ws(rng, 0) + "$%04x" % (0x1000 + 0x100 * len(lines)) + trailer())
            blank()

    for lb in labels:
        if rng.random() < 0.5:
            lines.append(indent() + lb + ":" + (ws(rng, 1) + stmt_instr(rng, kinds) if rng.random() < 0.5 else "") + trailer())
        else:
            lines.append(indent() + lb + ":")
            kinds.add("label_own_line")
        blank()
        body(rng.randrange(1, 5))
    return lines


def join_lines(rng, lines, kinds):
    r = rng.random()
    if r < 0.62:
        eol = lambda: "\n"
    elif r < 0.85:
        eol = lambda: "\r\n"
        kinds.add("crlf")
    else:
        eol = lambda: "\r\n" if rng.random() < 0.5 else "\n"
        kinds.add("mixed_eol")
    out = ""
    for i, l in enumerate(lines):
        out += l.replace("\n", eol())
        if i + 1 < len(lines) or rng.random() < 0.6:
            out += eol()
    if rng.random() < 0.05 and "/*" in out:
        # a lone CR inside a block comment (a line break for LSP clients, none for the formatter)
        i = out.index("/*") + 2
        out = out[:i] + " a\rb" + out[i:]
        kinds.add("lone_cr")
    return out


def column0_program(rng, kinds):
    """statements in column 0 followed by a long run of blanks and a comment already in the comment column: the diff
    rotates the mnemonic through the blanks (Delete x, Equal e, Insert x) and further edits follow"""
    lines = []
    for _ in range(rng.randrange(1, 5)):
        ins = rng.choice(["rts", "nop", "inx", "lda #1", "sta $d020"])
        if rng.random() < 0.7:
            pad = " " * (50 - len(ins))
            line = ins + pad + "// " + comment_text(rng, kinds) + " " * rng.randrange(0, 4)
        else:
            line = " " * 20 + ins + " " * rng.randrange(0, 3)
        lines.append(line)
        if rng.random() < 0.3:
            lines += [""] * rng.randrange(1, 5)
    kinds.add("column0")
    return "\n".join(lines) + rng.choice(["", "\n"])


PAIR_ALPHA = ["a", "b", " ", " ", "\n", "\n", "}", "{", "é", "è", "😀", "🦀", "😀", "x", "\t", "漢", "字"]


def gen_pair(rng, kinds):
    """an arbitrary text pair assembled from a random chunk list of our own (the real diff decides its own chunks)"""
    def piece(maxlen=5):
        return "".join(rng.choice(PAIR_ALPHA) for _ in range(rng.randrange(0, maxlen + 1)))
    old, new = "", ""
    n = rng.randrange(1, 9)
    for _ in range(n):
        r = rng.random()
        if r < 0.3:
            e = piece(8)
            old += e
            new += e
        elif r < 0.5:
            old += piece()
        elif r < 0.7:
            new += piece()
        elif r < 0.85:
            x, e = piece(3) or "}", piece(4) or "\n"      # rotation: old x e, new e x
            old += x + e
            new += e + x
            kinds.add("rotation")
        else:
            k = rng.randrange(2, 5)                        # multi-line deletion / replacement
            old += "\n" * k + piece(2)
            new += rng.choice(["", "\n", "z"])
            kinds.add("multi_nl")
    if rng.random() < 0.12:
        i = rng.randrange(0, len(old) + 1)
        old = old[:i] + rng.choice(["\r\n", "\r", "\r\n\r\n"]) + old[i:]
        kinds.add("cr_in_pair")
    return old, new


# ----------------------------------------------------------------------------- implementation access
def real_format(probe, src):
    """(formatted text | None, reason)"""
    r = probe.call({"cmd": "format", "files": {"main.asm": src}})
    if "formatted" not in r:
        return None, "parse_error" if r.get("parse_errors") else "probe:%s" % json.dumps(r)[:200]
    f = r["formatted"].get("main.asm")
    if not isinstance(f, str):
        return None, "formatter_panic:%s" % json.dumps(f)[:200]
    return f, None


def cli_format(mos, src, workdir):
    """what `mos format` writes to disk for a project whose main.asm is src"""
    d = tempfile.mkdtemp(prefix="c17_", dir=workdir)
    try:
        with open(os.path.join(d, "mos.toml"), "w") as f:
            f.write('[build]\nentry = "main.asm"\n')
        p = os.path.join(d, "main.asm")
        with open(p, "wb") as f:
            f.write(src.encode("utf-8"))
        r = subprocess.run([mos, "format"], cwd=d, stdout=subprocess.PIPE, stderr=subprocess.STDOUT, env=common.ENV, timeout=120)
        with open(p, "rb") as f:
            data = f.read()
        return r.returncode, data.decode("utf-8", "replace"), common.clean(r.stdout.decode("utf-8", "replace"))
    finally:
        shutil.rmtree(d, ignore_errors=True)


class Ctx:
    pass


def check_pair(c, old, new, kind, kinds, formatted_by=None):
    """tie + oracle for one (old, new); returns the real edits (canonical) or None"""
    chk = c.chk
    key = hashlib.sha256((old + "\0" + new).encode("utf-8", "surrogatepass")).hexdigest()
    if key in c.seen:
        return None
    c.seen.add(key)
    rep = {"kind": kind, "old": old, "new": new}
    r = c.vp.call({"cmd": "edits", "old": old, "new": new})
    if "edits" not in r and "is not a char boundary" in str(r.get("panic", "")) and "`" in str(r.get("panic", "")):
        # dissimilar 1.0.3 itself panics (str slicing inside a multi-byte character) on some texts with neighbouring
        # multi-byte characters that share bytes: no answer, hence outside this property (a server crash: C06/C14).
        # Counted per kind; samples kept in evidence.
        c.dist["diff_panicked_" + kind] = c.dist.get("diff_panicked_" + kind, 0) + 1
        chk.extra.setdefault("diff_panic_samples", [])
        if len(chk.extra["diff_panic_samples"]) < 3:
            chk.extra["diff_panic_samples"].append({"kind": kind, "old": old[:200], "new": new[:200], "panic": r["panic"][:160]})
        return None
    if "edits" not in r:
        chk.oracle_failure(None, "get_text_edits gave no answer on %r: %s" % (old[:80], json.dumps(r)[:200]), rep)
        return None
    chunks = r["chunks"]
    real = canon_edits(r["edits"])
    # --- the assumption about the diff oracle
    o = "".join(t for k, t in chunks if k in "=-")
    n = "".join(t for k, t in chunks if k in "=+")
    if o != old or n != new:
        # dissimilar 1.0.3 can lose a character between neighbouring multi-byte characters that share bytes (F-C17c);
        # get_text_edits detects that (is_partition) and replaces the whole document -- modelled, so the correspondence
        # and the oracle below decide; here it is only counted
        c.dist["diff_not_partition"] = c.dist.get("diff_not_partition", 0) + 1
        kinds = set(kinds) | {"diff_not_partition"}
    # --- correspondence
    m = c.model.call({"cmd": "edits", "chunks": [[k, scal(t)] for k, t in chunks], "old": scal(old), "new": scal(new),
                      "error": 0, "file": True})
    if "edits" not in m:
        chk.tie_break("model", "mosmodel_c17 failed: %s" % json.dumps(m)[:300], rep)
        return real
    mod = canon_edits(m["edits"])
    if mod != real:
        chk.tie_break("correspondence:get_text_edits", "model %s vs implementation %s" % (show_edits(mod)[:6], show_edits(real)[:6]),
                      dict(rep, chunks=chunks, model=show_edits(mod), impl=show_edits(real)))
    if m["handler"] is None or canon_edits(m["handler"]) != mod or m["on_type"] is None or canon_edits(m["on_type"]) != mod:
        chk.tie_break("model:handler", "handler model differs from get_text_edits with no diagnostics", rep)
    # --- oracle: the spec applied to the implementation's edits
    a = c.model.call({"cmd": "apply", "doc": scal(old), "edits": [dict(sl=e[0], sc=e[1], el=e[2], ec=e[3], new=scal(e[4])) for e in real]})
    if "result" not in a:
        chk.tie_break("model", "mosmodel_c17 apply failed: %s" % json.dumps(a)[:300], rep)
        return real
    got = None if a["result"] is None else unscal(a["result"])
    if got is None:
        chk.oracle_failure(None, "edits are not in range / not ordered for old=%r: %s" % (old[:120], show_edits(real)[:6]),
                           dict(rep, edits=show_edits(real), resolved=a.get("resolved")))
    elif got != new:
        chk.oracle_failure(None, "applying the edits to %r gives %r, expected %r; edits %s" % (old[:120], got[:160], new[:160], show_edits(real)[:6]),
                           dict(rep, edits=show_edits(real), applied=got))
    if old == new and real:
        chk.oracle_failure(None, "already formatted text %r answered with edits %s" % (old[:120], show_edits(real)[:4]), dict(rep, edits=show_edits(real)))
    if old == new and any(k != "=" for k, _ in chunks):
        chk.tie_break("assumption:diff_identity", "diff of identical texts has non-Equal chunks", dict(rep, chunks=chunks))
    # --- bookkeeping
    d = c.dist
    nontrivial = 1 if (real and old != new) else 0
    chk.count(1, nontrivial)
    d["cases_" + kind] = d.get("cases_" + kind, 0) + 1
    d["edits_total"] += len(real)
    b = "0" if not real else "1" if len(real) == 1 else "2-5" if len(real) <= 5 else "6-20" if len(real) <= 20 else ">20"
    d["edits_per_case"][b] = d["edits_per_case"].get(b, 0) + 1
    for i, (k, t) in enumerate(chunks):
        if k == "-" and i + 2 < len(chunks) and chunks[i + 1][0] == "=" and chunks[i + 2][0] == "+" and chunks[i + 2][1] == t:
            d["merge_rule_fired"] += 1
            if i + 3 < len(chunks) and any(kk != "=" for kk, _ in chunks[i + 3:]):
                d["merge_rule_then_more_edits"] += 1
        if k == "-" and t.count("\n") >= 2:
            d["delete_with_2plus_newlines"] += 1
        if k in "-+" and "\n" in t:
            d["multi_line_chunks"] += 1
    if any(ord(ch) > 0xFFFF for ch in old):
        d["old_with_astral"] += 1
        if any(e[1] > 0 or e[3] > 0 for e in real):
            d["astral_and_nonzero_columns"] += 1
    elif any(ord(ch) > 127 for ch in old):
        d["old_with_bmp_non_ascii"] += 1
    if "\r" in old:
        d["old_with_cr"] += 1
    if old == new:
        d["already_formatted"] += 1
    for k in kinds:
        d["features"][k] = d["features"].get(k, 0) + 1
    if nontrivial:
        chk.sample({"kind": kind, "old": old[:300], "new": new[:300], "edits": show_edits(real)[:8]}, limit=5)
    return real


def e2e(c, cases, workdir):
    """real `mos lsp` over stdio vs `mos format` on disk"""
    from lsp_client import LspServer, make_params
    chk, d = c.chk, c.dist
    srv = None

    def server():
        nonlocal srv
        if srv is None or not srv.alive():
            if srv is not None:
                srv.kill()
            srv = LspServer(c.mos, workdir=workdir)
            srv.opened = False
        return srv

    try:
        for src, expect_null in cases:
            rep = {"kind": "e2e", "old": src}
            s = server()
            (s.did_change if s.opened else s.did_open)("main.asm", src)
            s.opened = True
            r1 = s.request("textDocument/formatting", make_params(s, "textDocument/formatting", "main.asm"))
            r2 = s.request("textDocument/onTypeFormatting", make_params(s, "textDocument/onTypeFormatting", "main.asm", 0, 0))
            if r1.kind != "result" or r2.kind != "result":
                # the property speaks about answers; a server that dies on this buffer (e.g. the codegen panic of
                # nested .if under greedy analysis, C06/C14 territory) gives none.  Counted, reported in evidence, restarted.
                d["e2e_no_answer"] += 1
                chk.extra.setdefault("e2e_no_answer_samples", [])
                if len(chk.extra["e2e_no_answer_samples"]) < 3:
                    chk.extra["e2e_no_answer_samples"].append({"old": src[:400], "formatting": repr(r1)[:300]})
                srv.kill()
                srv = None
                continue
            d["e2e_cases"] += 1
            if expect_null:
                d["e2e_guard_cases"] += 1
                if r1.value is not None or r2.value is not None:
                    chk.oracle_failure(None, "buffer with diagnostics answered with edits: %r" % src[:120],
                                       dict(rep, formatting=r1.value, on_type=r2.value))
                continue
            if r1.value is None:
                d["e2e_null"] += 1
                if r2.value is not None:
                    chk.oracle_failure(None, "formatting answers null but onTypeFormatting answers edits for %r" % src[:120], rep)
                continue
            ed1, ed2 = lsp_edits(r1.value), lsp_edits(r2.value or [])
            if r2.value is None or ed1 != ed2:
                chk.oracle_failure(None, "onTypeFormatting and formatting answer differently for %r" % src[:120],
                                   dict(rep, formatting=show_edits(ed1), on_type=None if r2.value is None else show_edits(ed2)))
            rc, disk, out = cli_format(c.mos, src, workdir)
            if rc != 0:
                d["e2e_cli_failed"] += 1
                continue
            a = c.model.call({"cmd": "apply", "doc": scal(src), "edits": [dict(sl=e[0], sc=e[1], el=e[2], ec=e[3], new=scal(e[4])) for e in ed1]})
            got = None if a.get("result") is None else unscal(a["result"])
            chk.count(1, 1 if ed1 else 0)
            d["e2e_with_edits"] += 1 if ed1 else 0
            if got != disk:
                chk.oracle_failure(None, "textDocument/formatting edits applied to %r give %r but `mos format` writes %r; edits %s" % (
                    src[:120], None if got is None else got[:160], disk[:160], show_edits(ed1)[:6]),
                    dict(rep, new=disk, edits=show_edits(ed1), applied=got))
            # the hook and the server agree (the probe really is the handler's function)
            rr = c.vp.call({"cmd": "edits", "old": src, "new": disk})
            if "edits" in rr and canon_edits(rr["edits"]) != ed1:
                chk.tie_break("correspondence:hook_vs_server", "verif-probe edits differ from the server's answer",
                              dict(rep, probe=show_edits(canon_edits(rr["edits"])), server=show_edits(ed1)))
    finally:
        if srv is not None:
            srv.kill()


# ----------------------------------------------------------------------------- main
def corpus_cases():
    out = []
    cdir = os.path.join(common.ROOT, "corpus", "C17")
    if os.path.isdir(cdir):
        for fn in sorted(os.listdir(cdir)):
            p = os.path.join(cdir, fn)
            if fn.endswith(".asm"):
                with open(p, "rb") as f:
                    out.append(("program", f.read().decode("utf-8"), None, fn))
            elif fn.endswith(".json"):
                o = json.load(open(p, encoding="utf-8"))
                out.append(("pair", o["old"], o["new"], fn))
    return out


def run_cases(c, rng, n_prog, n_pair, n_e2e, first_round):
    chk, d = c.chk, c.dist
    e2e_pool = []

    def program_case(src, kinds, tag="program"):
        new, why = real_format(c.probe, src)
        if new is None:
            d["rejected"][why.split(":")[0]] = d["rejected"].get(why.split(":")[0], 0) + 1
            return
        check_pair(c, src, new, tag, kinds)
        e2e_pool.append(src)
        # already formatted text (and, should the formatter not be idempotent, one more pair)
        new2, _ = real_format(c.probe, new)
        if new2 is not None:
            check_pair(c, new, new2, "formatted", set())
            if rng.random() < 0.15:
                e2e_pool.append(new)

    if first_round:
        for kind, a, b, fn in corpus_cases():
            if kind == "program":
                program_case(a, {"corpus"}, "corpus")
            else:
                check_pair(c, a, b, "corpus", {"corpus"})
    for i in range(n_prog):
        kinds = set()
        if rng.random() < 0.15:
            src = column0_program(rng, kinds)
        else:
            src = join_lines(rng, gen_program(rng, kinds), kinds)
        program_case(src, kinds)
    for i in range(n_pair):
        kinds = set()
        old, new = gen_pair(rng, kinds)
        check_pair(c, old, new, "pair", kinds)
    # end to end: corpus programs first, then a sample
    sample = e2e_pool[:8] + (rng.sample(e2e_pool[8:], min(n_e2e, len(e2e_pool) - 8)) if len(e2e_pool) > 8 else [])
    cases = [(s, False) for s in sample]
    if first_round:
        cases += [("lda #1\n   sta undefined_symbol\n", True), ("lda #\n", True), ("nop   \n   }\n", True)]
    e2e(c, cases, c.workdir)


def run(chk):
    rng = random.Random(chk.seed)
    common.translate_for(chk, ["edits"])
    chk.proof = common.prove("C17")
    c = Ctx()
    c.chk = chk
    c.probe = Proc([common.build_probe()])
    c.model = Proc([common.build_model("c17")])
    c.mos = common.build_mos()
    c.vp = Proc([c.mos, "verif-probe"])
    c.seen = set()
    c.workdir = os.path.join(common.CACHE, "work")
    os.makedirs(c.workdir, exist_ok=True)
    c.dist = {"edits_total": 0, "edits_per_case": {}, "merge_rule_fired": 0, "merge_rule_then_more_edits": 0,
              "delete_with_2plus_newlines": 0, "multi_line_chunks": 0, "old_with_astral": 0, "astral_and_nonzero_columns": 0,
              "old_with_bmp_non_ascii": 0, "old_with_cr": 0, "already_formatted": 0, "features": {}, "rejected": {},
              "e2e_cases": 0, "e2e_with_edits": 0, "e2e_null": 0, "e2e_guard_cases": 0, "e2e_no_answer": 0, "e2e_cli_failed": 0}
    thorough = chk.tier == "thorough"
    n_prog, n_pair, n_e2e = (3000, 12000, 300) if thorough else (700, 3000, 60)
    run_cases(c, rng, n_prog, n_pair, n_e2e, True)
    proof_broken = chk.proof["discharged"] < chk.proof["obligations"] or chk.proof["rc"] != 0
    if (proof_broken or chk.tie_breaks) and not chk.violations:
        # the property is no longer shown to hold: widen the search for a concrete failing input
        log("proof or tie broken (%s): widening the search" % ([t[0] for t in chk.tie_breaks[:3]] or chk.proof["failed"][:3]))
        c.dist["widened"] = True
        run_cases(c, rng, 1200, 6000, 40, False)
    for p in (c.probe, c.model, c.vp):
        p.stop()
    if thorough and not proof_broken:
        rc, out = common.run("coqchk -silent -o -Q theories Mos Mos.props.C17", cwd=common.COQ, timeout=1500)
        chk.extra["coqchk"] = {"rc": rc, "tail": out[-400:]}
        if rc != 0:
            chk.tie_break("coqchk", out[-800:])
    chk.cov["rule"] = (
        "cases are (old, new) text pairs: (a) generated error-free programs (instructions, data, labels, nested blocks, .if/.loop, "
        "constants, pc assignments; arbitrary blanks/tabs between tokens, trailing blanks, runs of blank lines, line and block "
        "comments with BMP and astral characters, strings; LF / CR LF / mixed line ends, lone CR in a comment, with and without final "
        "newline; column-0 statements with long blank runs) with new = the real formatter's output; (b) each formatter output again "
        "(already formatted); (c) arbitrary text pairs (rotations x e -> e x, multi-newline deletions, non-ASCII, CR). Each pair: real "
        "get_text_edits + raw chunks via `mos verif-probe`, model on the real chunks == real edits, spec apply_edits(old, real edits) == new. "
        "A sample goes through a real `mos lsp` (formatting + onTypeFormatting) and is compared with what `mos format` writes. "
        "distinct = distinct (old, new); non-trivial = old != new and at least one edit returned")
    chk.extra["distribution"] = c.dist
    chk.assumptions = [
        "dissimilar::diff is an oracle about which nothing is assumed for correctness (the code validates the chunks; non-partitioning diffs are counted in distribution.diff_not_partition); only C17_already_formatted assumes that identical texts give Equal chunks only, validated on every such case",
        "the formatter is an oracle (any function text -> text); program cases use the real one with default options",
        "u32 line/character counters are modelled as unbounded naturals (documents below 2^32 lines / code units)",
        "LSP positions are interpreted strictly (no clamping of out-of-range characters): spec/LspEdits.v",
        "`mos format` writes LINE_ENDING = LF on this platform; on Windows it would write CR LF while the edits produce LF",
    ]
    return chk.finish(extra_trusted=[
        "hand model of RangeKeeper / get_text_edits / do_formatting (model/Edits.v), validated by correspondence on every case",
        "hook H2 `mos verif-probe edits` (returns the raw diff chunks and calls the real get_text_edits); cross-checked against the real server's answers",
        "drivers/lsp_client.py, mosprobe `format`"])


def replay(chk, path):
    obj = json.load(open(path, encoding="utf-8"))
    rep = obj.get("replay", obj)
    if "broken" in rep or "broken" in obj:
        print(json.dumps(obj, indent=1, ensure_ascii=False)[:4000])
        return 1
    old = rep["old"]
    mos = common.build_mos()
    probe = Proc([common.build_probe()])
    model = Proc([common.build_model("c17")])
    vp = Proc([mos, "verif-probe"])
    new = rep.get("new")
    if new is None:
        new, why = real_format(probe, old)
    r = vp.call({"cmd": "edits", "old": old, "new": new})
    real = canon_edits(r.get("edits", []))
    a = model.call({"cmd": "apply", "doc": scal(old), "edits": [dict(sl=e[0], sc=e[1], el=e[2], ec=e[3], new=scal(e[4])) for e in real]})
    got = None if a.get("result") is None else unscal(a["result"])
    print(json.dumps({"old": old, "new": new, "chunks": r.get("chunks"), "edits": show_edits(real), "applied": got,
                      "holds": got == new}, indent=1, ensure_ascii=False))
    for p in (probe, model, vp):
        p.stop()
    return 0 if got == new else 1

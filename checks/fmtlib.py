"""Shared by checks/c12.py and checks/c13.py: formatter options, AST-dump -> model encoding, spec-level views of an
AST dump (token texts ignoring whitespace, comments in order), program generators."""
import random

# ----------------------------------------------------------------------------- text / options
def T(s):
    return [ord(c) for c in s]


def S(t):
    return "".join(chr(c) for c in t)


DEFAULT_FMT = {"mnemonic_casing": "lowercase", "register_casing": "lowercase", "brace_position": "same_line", "indent": 4,
               "label_margin": 20, "label_alignment": "right", "code_margin": 30}


def gen_options(rng, simple=False):
    if simple or rng.random() < 0.15:
        return dict(DEFAULT_FMT)
    return {"mnemonic_casing": rng.choice(["lowercase", "uppercase"]),
            "register_casing": rng.choice(["lowercase", "uppercase"]),
            "brace_position": rng.choice(["same_line", "new_line"]),
            "indent": rng.choice([0, 1, 2, 3, 4, 4, 5, 6, 7, 8]),
            "label_margin": rng.choice([0, 1, 2, 5, 8, 10, 16, 20, 20, 24, 40]),
            "label_alignment": rng.choice(["left", "right"]),
            "code_margin": rng.choice([0, 1, 4, 10, 20, 30, 30, 40])}


def all_option_axes():
    """one option set per value of every axis (others default): the enumerated part of the option space"""
    out = []
    for k, vals in (("mnemonic_casing", ["lowercase", "uppercase"]), ("register_casing", ["lowercase", "uppercase"]),
                    ("brace_position", ["same_line", "new_line"]), ("indent", list(range(0, 9))),
                    ("label_margin", [0, 1, 7, 20, 33]), ("label_alignment", ["left", "right"]),
                    ("code_margin", [0, 1, 13, 30, 45])):
        for v in vals:
            o = dict(DEFAULT_FMT)
            o[k] = v
            if o not in out:
                out.append(o)
    return out


def toml_of(o):
    return ("[formatting.mnemonics]\ncasing = \"%s\"\nregister-casing = \"%s\"\n[formatting.braces]\nposition = \"%s\"\n"
            "[formatting.whitespace]\nindent = %d\nlabel-margin = %d\nlabel-alignment = \"%s\"\ncode-margin = %d\n" % (
                o["mnemonic_casing"], o["register_casing"], o["brace_position"].replace("_", "-"), o["indent"], o["label_margin"],
                o["label_alignment"], o["code_margin"]))


# ----------------------------------------------------------------------------- AST dump (harness/src/dump.rs) -> model encoding
def _tr(tr):
    if tr is None:
        return None
    out = []
    for it in tr["items"]:
        if it[0] == "nl":
            out.append(["nl"])
        else:
            out.append([it[0], T(it[1])])
    return out


def _lt(l):
    return [_tr(l["tr"]), T(l["d"])]


def _olt(l):
    return None if l is None else _lt(l)


def _istr(i):
    items = []
    for it in i["items"]:
        if "s" in it:
            items.append(["s", [_tr(it.get("tr")), T(it["s"])]])
        else:
            items.append(["p", [_tr(it.get("tr")), T(it["p"])]])
    return [_lt(i["lquote"]), items]


def _factor(f):
    k = f["k"]
    if k == "pc":
        return ["pc", _lt(f["star"])]
    if k == "parens":
        return ["parens", _lt(f["lparen"]), _lexpr(f["inner"]), _lt(f["rparen"])]
    if k == "call":
        return ["call", _lt(f["name"]), _lt(f["lparen"]), _args(f["args"]), _lt(f["rparen"])]
    if k == "id":
        return ["id", _lt(f["path"]), _olt(f["modl"])]
    if k == "num":
        return ["num", _lt(f["ty"]), _lt(f["value"])]
    if k == "str":
        return ["str", _istr(f["s"])]
    raise ValueError("factor kind " + k)


def _expr(e):
    if e["e"] == "bin":
        return ["bin", _lexpr(e["l"]), _lt(e["opl"]), _lexpr(e["r"])]
    return ["fac", _olt(e["tag_not"]), _olt(e["tag_neg"]), [_tr(e["f"]["tr"]), _factor(e["f"])]]


def _lexpr(e):
    return [_tr(e["tr"]), _expr(e)]


def _args(a):
    return [[_lexpr(x["e"]), _olt(x["comma"])] for x in a]


def _block(b):
    return [_lt(b["lparen"]), [_token(t) for t in b["inner"]], _lt(b["rparen"])]


def _oblock(b):
    return None if b is None else _block(b)


def _import_as(a):
    return None if a is None else [_lt(a["tag"]), _lt(a["path"])]


def _token(t):
    k = t["t"]
    if k == "align":
        return ["Align", _lt(t["tag"]), _lexpr(t["value"])]
    if k == "assert":
        return ["Assert", _lt(t["tag"]), _lexpr(t["value"]), None if t["msg"] is None else _istr(t["msg"])]
    if k == "braces":
        return ["Braces", _block(t["block"])]
    if k == "config":
        return ["Config", _block(t["block"])]
    if k == "pair":
        return ["ConfigPair", _lt(t["key"]), _lt(t["eq"]), [_tr(t["vtr"]), _token(t["value"])]]
    if k == "data":
        return ["Data", _args(t["values"]), _lt(t["sizel"])]
    if k == "define":
        return ["Definition", _lt(t["tag"]), _lt(t["id"]), None if t["value"] is None else _token(t["value"])]
    if k == "eof":
        return ["Eof", _tr(t["tr"])]
    if k == "error":
        return ["Error", _lt(t["l"])]
    if k == "expr":
        return ["Expression", _expr(t["e"])]
    if k == "file":
        return ["File", _lt(t["tag"]), _istr(t["filename"])]
    if k == "if":
        return ["If", _lt(t["tag"]), _lexpr(t["value"]), _block(t["if"]), _olt(t["tag_else"]), _oblock(t["else"])]
    if k == "import":
        a = t["args"]
        if "all" in a:
            args = ["all", _lt(a["all"]), _import_as(a["as"])]
        else:
            args = ["specific", [[_tr(x["tr"]), _lt(x["path"]), _import_as(x["as"]), _olt(x["comma"])] for x in a["specific"]]]
        return ["Import", _lt(t["tag"]), args, _lt(t["from"]), _istr(t["filename"]), _oblock(t["block"])]
    if k == "instr":
        op = t["operand"]
        if op is not None:
            sfx = op["suffix"]
            op = [_lexpr(op["expr"]), _olt(op["lchar"]), _olt(op["rchar"]), op["am"],
                  None if sfx is None else [_lt(sfx["comma"]), _lt(sfx["regl"])]]
        return ["Instruction", _lt(t["mnl"]), op]
    if k == "label":
        return ["Label", _lt(t["id"]), _lt(t["colon"]), _oblock(t["block"])]
    if k == "loop":
        return ["Loop", _lt(t["tag"]), _lexpr(t["expr"]), _block(t["block"])]
    if k == "macrodef":
        return ["MacroDefinition", _lt(t["tag"]), _lt(t["id"]), _lt(t["lparen"]),
                [[_lt(a["id"]), _olt(a["comma"])] for a in t["args"]], _lt(t["rparen"]), _block(t["block"])]
    if k == "invoke":
        return ["MacroInvocation", _lt(t["id"]), _lt(t["lparen"]), _args(t["args"]), _lt(t["rparen"])]
    if k == "pc":
        return ["ProgramCounterDefinition", _lt(t["star"]), _lt(t["eq"]), _lexpr(t["value"])]
    if k == "segment":
        return ["Segment", _lt(t["tag"]), _lexpr(t["id"]), _oblock(t["block"])]
    if k == "test":
        return ["Test", _lt(t["tag"]), _lexpr(t["id"]), _block(t["block"])]
    if k == "text":
        return ["Text", _lt(t["tag"]), _olt(t["encl"]), _lexpr(t["text"])]
    if k == "trace":
        return ["Trace", _lt(t["tag"]), _olt(t["lparen"]), _args(t["args"]), _olt(t["rparen"])]
    if k == "vardef":
        return ["VariableDefinition", _lt(t["tyl"]), _lt(t["id"]), _lt(t["eq"]), _lexpr(t["value"])]
    raise ValueError("token kind " + k)


def ast_to_model(tokens):
    return [_token(t) for t in tokens]


# ----------------------------------------------------------------------------- spec-level views of an AST dump
def spans_view(ast_file):
    """all (span_lo, kind, text) of a file's dump, sorted by position: leaf texts and comments"""
    items = []

    def visit(n):
        if isinstance(n, dict):
            tr = n.get("tr")
            if isinstance(tr, dict):
                _trivia(tr)
            vtr = n.get("vtr")
            if isinstance(vtr, dict):
                _trivia(vtr)
            if "d" in n and "span" in n and isinstance(n["d"], str):
                if n["d"] != "":
                    items.append((n["span"][0], n["span"][1], "w", n["d"]))
            elif "s" in n and "span" in n and isinstance(n["s"], str):
                items.append((n["span"][0], n["span"][1], "w", n["s"]))
            elif "p" in n and "span" in n and isinstance(n["p"], str):
                items.append((n["span"][0], n["span"][1], "w", n["p"]))
            for k, v in n.items():
                if k in ("tr", "vtr", "span", "vspan"):
                    continue
                visit(v)
        elif isinstance(n, list):
            for x in n:
                visit(x)

    def _trivia(tr):
        # comments inside a trivia list are in order; give them increasing pseudo positions inside the trivia span
        lo = tr["span"][0]
        for i, it in enumerate(tr["items"]):
            if it[0] in ("c", "cpp"):
                items.append((lo, lo, "c", it[1], i))

    visit(ast_file["tokens"])
    return items


def comments_in_order(ast_file):
    """the comment texts of a file in source order (trivia spans are disjoint and ordered like the source)"""
    cs = [x for x in spans_view(ast_file) if x[2] == "c"]
    cs.sort(key=lambda x: (x[0], x[4]))
    return [x[3] for x in cs]


_WS = set([0x85, 0xA0, 0x1680, 0x2028, 0x2029, 0x202F, 0x205F, 0x3000] + list(range(9, 14)) + [32] + list(range(0x2000, 0x200B)))


def plain_chars(text):
    """the characters of a text that are not whitespace (char::is_whitespace), ASCII letters lower-cased"""
    return "".join(c.lower() if "A" <= c <= "Z" else c for c in text if ord(c) not in _WS)


def token_words(ast_file):
    """the leaf texts of a file's tokens in source order, case-folded (keywords, mnemonics and registers are
    case-insensitive; the dump renders them canonically anyway) -- the 'sequence of tokens ignoring whitespace'"""
    ws = [x for x in spans_view(ast_file) if x[2] == "w"]
    ws.sort(key=lambda x: (x[0], x[1]))
    return [x[3] for x in ws]


def strip_positions(n):
    """the AST dump without spans and without whitespace/newline trivia: equality of two dumps modulo layout"""
    if isinstance(n, dict):
        out = {}
        for k, v in n.items():
            if k in ("span", "vspan", "base", "len"):
                continue
            if k in ("tr", "vtr"):
                if v is None:
                    out[k] = []
                else:
                    out[k] = [it for it in v["items"] if it[0] in ("c", "cpp")]
                continue
            if k in ("scope", "resolved"):
                continue
            out[k] = strip_positions(v)
        return out
    if isinstance(n, list):
        return [strip_positions(x) for x in n]
    return n


# ----------------------------------------------------------------------------- program generator
IMPLIED = ["brk", "clc", "cld", "cli", "clv", "dex", "dey", "inx", "iny", "nop", "pha", "php", "pla", "plp", "rti", "rts", "sec", "sed",
           "sei", "tax", "tay", "tsx", "txa", "txs", "tya"]
ACC = ["asl", "lsr", "rol", "ror"]
IMM = ["adc", "and", "cmp", "cpx", "cpy", "eor", "lda", "ldx", "ldy", "ora", "sbc"]
ABS = ["adc", "and", "asl", "bit", "cmp", "cpx", "cpy", "dec", "eor", "inc", "jmp", "jsr", "lda", "ldx", "ldy", "lsr", "ora", "rol", "ror",
       "sbc", "sta", "stx", "sty"]
ABSX = ["adc", "and", "asl", "cmp", "dec", "eor", "inc", "lda", "ldy", "lsr", "ora", "rol", "ror", "sbc", "sta"]
ABSY = ["adc", "and", "cmp", "eor", "lda", "ldx", "ora", "sbc", "sta"]
INDX = ["adc", "and", "cmp", "eor", "lda", "ora", "sbc", "sta"]
BRANCH = ["bcc", "bcs", "beq", "bmi", "bne", "bpl", "bvc", "bvs"]
NON_ASCII = ["é", "λ", "漢", "🙂", "ß", "ñ", " x", "ü"]

CLASSES = ["comments", "line_comments", "multiline_comments", "non_ascii", "same_line", "lbrace_comment", "import_arg_comment",
           "long_labels", "newline_gaps"]


class G:
    """gap markers between the tokens of a statement"""
    w = ("gap", "w")    # optional inline trivia (spaces, tabs, block comments)
    W = ("gap", "W")    # inline trivia with at least one space
    m = ("gap", "m")    # optional multi-line trivia (also newlines and line comments): `mws` positions
    lb = ("gap", "lb")  # the gap in front of the `{` of a directive / label / import block
    ia = ("gap", "ia")  # the gap in front of a specific import argument


class ProgGen:
    def __init__(self, rng, cls, size=8, lib=None):
        self.rng, self.cls, self.size = rng, set(cls), size
        self.ncomment = 0
        self.nname = 0
        self.labels, self.consts, self.macros, self.segments = [], [], [], []
        self.lib = lib          # name of an importable file, or None
        self.lib_syms = []
        self.stats = {}
        self.imported = False

    def bump(self, k, n=1):
        self.stats[k] = self.stats.get(k, 0) + n

    # ---- trivia
    def comment_text(self):
        self.ncomment += 1
        t = "c%d" % self.ncomment
        r = self.rng.random()
        if r < 0.4:
            t += " " + self.rng.choice(["note", "TODO: x", "lda #1", "a,b;c", "{ }", "\"q\"", "x == y"])
        if "non_ascii" in self.cls and self.rng.random() < 0.5:
            t += " " + "".join(self.rng.choice(NON_ASCII) for _ in range(self.rng.randrange(1, 24)))
            self.bump("non_ascii_comments")
        return t

    def block_comment(self):
        t = self.comment_text()
        if "multiline_comments" in self.cls and self.rng.random() < 0.5:
            t += "\n" + " " * self.rng.randrange(0, 6) + "more" + ("\n  and more" if self.rng.random() < 0.3 else "")
            self.bump("multiline_comments")
        if self.rng.random() < 0.05:
            t += " /* nested */"
        self.bump("block_comments")
        return "/* " + t + " */" if self.rng.random() < 0.8 else "/*" + t + "*/"

    def line_comment(self):
        self.bump("line_comments")
        return "//" + (" " if self.rng.random() < 0.8 else "") + self.comment_text() + (" " * self.rng.randrange(0, 3) if self.rng.random() < 0.2 else "")

    def spaces(self, lo=0):
        r = self.rng.random()
        if r < 0.6:
            return " " * max(lo, 1) if lo else self.rng.choice(["", " "])
        if r < 0.9:
            return " " * self.rng.randrange(max(lo, 1), 5)
        return "\t" if lo or self.rng.random() < 0.5 else ""

    def inline_gap(self, need_space, comments=True):
        s = self.spaces(1 if need_space else 0)
        if comments and "comments" in self.cls and self.rng.random() < 0.12:
            n = 1 if self.rng.random() < 0.8 else 2
            for _ in range(n):
                s += self.block_comment() + self.spaces(0)
            self.bump("inline_comment_gaps")
            if need_space and not s.startswith((" ", "\t")):
                s = " " + s
        return s

    def multi_gap(self, comments=True, need_newline=False):
        """trivia where the parser accepts newlines as well"""
        s = ""
        if "newline_gaps" not in self.cls and not need_newline:
            return self.inline_gap(True, comments)
        n = self.rng.choice([0, 0, 1, 1, 1, 2, 3]) if not need_newline else self.rng.choice([1, 1, 1, 1, 2, 2, 3, 5])
        s += self.spaces(1)
        had_nl = False
        for _ in range(n):
            if comments and "comments" in self.cls and self.rng.random() < 0.25:
                if "line_comments" in self.cls and self.rng.random() < 0.6:
                    s += self.line_comment()
                else:
                    s += self.block_comment() + self.spaces(0)
                    if self.rng.random() < 0.5:
                        s += self.block_comment()
                self.bump("comment_lines")
            s += "\n" if self.rng.random() < 0.9 else "\r\n"
            had_nl = True
            s += self.spaces(0)
        if comments and "comments" in self.cls and self.rng.random() < 0.08:
            s += self.block_comment() + " "
        return s

    def render(self, items):
        out = []
        for it in items:
            if it == ("noop",):
                continue
            if isinstance(it, tuple) and it[0] == "gap":
                k = it[1]
                if k == "w":
                    out.append(self.inline_gap(False))
                elif k == "W":
                    out.append(self.inline_gap(True))
                elif k == "m":
                    out.append(self.multi_gap())
                elif k == "lb":
                    out.append(self.multi_gap(comments="lbrace_comment" in self.cls))
                    if "lbrace_comment" in self.cls:
                        self.bump("lbrace_gaps")
                elif k == "ia":
                    out.append(self.inline_gap(False, comments="import_arg_comment" in self.cls))
            else:
                out.append(it)
        return "".join(out)

    # ---- names
    def fresh(self, prefix):
        self.nname += 1
        if prefix == "lb" and "long_labels" in self.cls and self.rng.random() < 0.4:
            self.bump("long_labels")
            return "lb%d_%s" % (self.nname, "x" * self.rng.randrange(8, 40))
        return "%s%d" % (prefix, self.nname)

    def case(self, s):
        r = self.rng.random()
        return s if r < 0.6 else s.upper() if r < 0.85 else s.capitalize()

    # ---- expressions (as item lists)
    def number(self):
        r = self.rng.random()
        v = self.rng.choice([0, 1, 2, 7, 16, 127, 128, 255])
        if r < 0.4:
            return [self.rng.choice(["%d", "0%d", "%d"]) % v]
        if r < 0.8:
            return ["$", ("%02x" if self.rng.random() < 0.5 else "%02X") % v] if self.rng.random() < 0.9 else ["$", G.w, "%x" % v]
        return ["%", format(v, "b")]

    def atom(self, depth):
        r = self.rng.random()
        if r < 0.45 or depth <= 0 and r < 0.7:
            return self.number()
        if r < 0.7:
            pool = self.consts + self.labels
            if pool:
                name = self.rng.choice(pool)
                mod = [self.rng.choice(["<", ">"]), G.w] if self.rng.random() < 0.2 else []
                return mod + [name]
            return self.number()
        if r < 0.75:
            return ["*"]
        if r < 0.8 and (self.consts or self.labels):
            return ["defined", G.w, "(", G.w, self.rng.choice(self.consts + self.labels), G.w, ")"]
        if r < 0.9 and depth > 0:
            return ["(", G.w] + self.expr(depth - 1) + [G.w, ")"]
        return self.number()

    def factor(self, depth):
        pre = []
        if self.rng.random() < 0.08:
            pre += ["!", G.w]
        if self.rng.random() < 0.08:
            # a unary minus must be directly followed by a letter or digit ('-' followed by anything else is the
            # anonymous-scope identifier '-')
            r = self.rng.random()
            if r < 0.6 or not (self.consts or self.labels):
                return pre + ["-", str(self.rng.choice([0, 1, 2, 127, 128]))]
            return pre + ["-", self.rng.choice(self.consts + self.labels)]
        return pre + self.atom(depth)

    def expr(self, depth=2):
        items = self.factor(depth)
        n = self.rng.choice([0, 0, 0, 1, 1, 2]) if depth > 0 else 0
        for _ in range(n):
            op = self.rng.choice(["+", "-", "*", "/", "+", "-", "==", "!=", "&&", "||", "^", "<", ">", "<=", ">=", "<<", ">>", "%"])
            tight = op in ("+", "-", "*", "==", "!=", "&&", "||", "^")   # not "/": `/` + `*` or `/` + a comment would start a comment
            g = G.w if tight and self.rng.random() < 0.5 else G.W
            items += [g, op, g] + self.factor(depth - 1)
        self.bump("expressions")
        return items

    def small_expr(self):
        return self.expr(1)

    def string(self, interp=True):
        body = self.rng.choice(["hello", "a b  c", "x", "", "// not a comment", "/* neither */", "it's", "{", "tab\there"])
        if body == "{":
            if not (interp and self.consts):
                body = "lb"
            else:
                # trivia is accepted between `{` and the identifier
                lead = self.rng.choice(["", "", " ", "  ", "/* i%d */" % self.rng.randrange(100) if "comments" in self.cls else " "])
                if lead:
                    self.bump("interpolation_trivia")
                body = "v={%s%s}" % (lead, self.rng.choice(self.consts))
        if "non_ascii" in self.cls and self.rng.random() < 0.4:
            body += "".join(self.rng.choice(NON_ASCII) for _ in range(self.rng.randrange(1, 16)))
            self.bump("non_ascii_strings")
        return '"' + body + '"'

    # ---- statements (each returns a list of items WITHOUT leading trivia)
    def instruction(self):
        r = self.rng.random()
        self.bump("instructions")
        if r < 0.22:
            self.bump("am_implied")
            return [self.case(self.rng.choice(IMPLIED + ACC)), ("noop",)]
        if r < 0.42:
            self.bump("am_immediate")
            return [self.case(self.rng.choice(IMM)), G.w if self.rng.random() < 0.3 else G.W, "#", G.w] + self.small_expr()
        target = self.rng.choice(self.labels) if self.labels and self.rng.random() < 0.6 else "$%04x" % self.rng.choice([0x10, 0xd020, 0x0400, 0xfe])
        tgt = [target] if self.rng.random() < 0.8 else [target, G.w, "+", G.w, "1"]
        if r < 0.6:
            self.bump("am_absolute")
            return [self.case(self.rng.choice(ABS)), G.W] + tgt
        reg = lambda x: self.rng.choice([x, x.upper()])
        if r < 0.72:
            self.bump("am_absolute_x")
            return [self.case(self.rng.choice(ABSX)), G.W] + tgt + [G.w, ",", G.w, reg("x")]
        if r < 0.82:
            self.bump("am_absolute_y")
            return [self.case(self.rng.choice(ABSY)), G.W] + tgt + [G.w, ",", G.w, reg("y")]
        zp = ["$%02x" % self.rng.choice([0x10, 0xfb, 0x02])]
        if r < 0.89:
            self.bump("am_indexed_indirect")
            return [self.case(self.rng.choice(INDX)), G.W, "(", G.w] + zp + [G.w, ",", G.w, reg("x"), G.w, ")"]
        if r < 0.96:
            self.bump("am_indirect_indexed")
            return [self.case(self.rng.choice(INDX)), G.W, "(", G.w] + zp + [G.w, ")", G.w, ",", G.w, reg("y")]
        self.bump("am_indirect_jmp")
        return [self.case("jmp"), G.W, "(", G.w] + tgt + [G.w, ")"]

    def block(self, depth, body=None, kind="code"):
        """`{ statements }` with the gap in front of `{` supplied by the caller"""
        n = self.rng.choice([0, 1, 1, 2, 3]) if depth < 3 else self.rng.choice([0, 1])
        if n == 0:
            self.bump("empty_blocks")
        inner = body if body is not None else self.statements(n, depth + 1, kind)
        return ["{"] + inner + [G.m, "}"]

    def label(self, depth, top):
        name = self.fresh("lb")
        if top:
            self.labels.append(name)
        self.bump("labels")
        if self.rng.random() < 0.15 and depth < 3:
            self.bump("label_blocks")
            return [name, ":", G.lb] + self.block(depth)
        return [name, ":"]

    def data(self):
        self.bump("data")
        tag = self.case(self.rng.choice([".byte", ".byte", ".word", ".dword"]))
        items = [tag, G.W] + self.small_expr()
        for _ in range(self.rng.choice([0, 0, 1, 2, 4])):
            items += [G.w, ",", G.w] + self.small_expr()
        return items

    def text(self):
        self.bump("text")
        items = [self.case(".text"), G.W]
        if self.rng.random() < 0.4:
            items += [self.case(self.rng.choice(["ascii", "petscii", "petscreen"])), G.W]
        return items + [self.string()]

    def vardef(self, top):
        name = self.fresh("kc")
        kw = self.rng.choice([".const", ".const", ".var"])
        self.bump("const" if kw == ".const" else "var")
        items = [self.case(kw), G.W, name, G.w, "=", G.w] + self.small_expr()
        if top:
            self.consts.append(name)
        return items

    def if_(self, depth):
        self.bump("if")
        cond = self.small_expr() if self.rng.random() < 0.5 else [self.rng.choice(self.consts), G.W, "==", G.W, "1"] if self.consts else ["1"]
        items = [self.case(".if"), G.W] + cond + [G.lb] + self.block(depth)
        if self.rng.random() < 0.5:
            self.bump("else")
            items += [G.m, self.case("else"), G.lb] + self.block(depth)
        return items

    def loop(self, depth):
        self.bump("loop")
        return [self.case(".loop"), G.W, str(self.rng.randrange(1, 4)), G.lb] + self.block(depth)

    def macrodef(self, depth):
        name = self.fresh("mm")
        nargs = self.rng.choice([0, 1, 2])
        args = [self.fresh("pa") for _ in range(nargs)]
        self.bump("macro_def")
        items = [self.case(".macro"), G.W, name, G.w, "(", G.w]
        for i, a in enumerate(args):
            if i:
                items += [G.w, ",", G.w]
            items += [a]
        items += [G.w, ")", G.lb]
        body = []
        saved = list(self.consts)
        self.consts = saved + args
        body = self.statements(self.rng.choice([0, 1, 2]), depth + 1, "code")
        self.consts = saved
        items += self.block(depth, body)
        self.macros.append((name, nargs))
        return items

    def invoke(self):
        name, nargs = self.rng.choice(self.macros)
        self.bump("macro_call")
        items = [name, G.w, "(", G.w]
        for i in range(nargs):
            if i:
                items += [G.w, ",", G.w]
            items += self.small_expr()
        return items + [G.w, ")"]

    def define(self):
        kind = self.rng.choice(["segment", "bank"])
        name = self.fresh("sg")
        self.bump("define_" + kind)
        pairs = [("name", ['"%s"' % name])]
        if kind == "segment":
            pairs.append(("start", ["$%04x" % (0x4000 + 0x100 * len(self.segments))]))
            if self.rng.random() < 0.3:
                pairs.append(("write", ["false"]))
            self.segments.append(name)
        else:
            if self.rng.random() < 0.5:
                pairs.append(("fill", ["$ff"]))
        items = [self.case(".define"), G.W, kind, G.lb, "{"]
        for k, v in pairs:
            items += [G.m if "newline_gaps" in self.cls else G.W, k, G.m if self.rng.random() < 0.1 else G.w, "=",
                      G.m if self.rng.random() < 0.1 else G.w] + v
        if self.rng.random() < 0.25:
            # a nested config block as the value of a pair (an unknown key is a codegen diagnostic, the same before and after)
            self.bump("nested_config")
            items += [G.m if "newline_gaps" in self.cls else G.W, "opts", G.w, "=", G.m if self.rng.random() < 0.4 else G.w, "{",
                      G.m, "k", G.w, "=", G.w, "1", G.m, "}"]
        return items + [G.m, "}"]

    def segment(self, depth):
        if not self.segments:
            return self.instruction()
        self.bump("segment")
        name = self.rng.choice(self.segments)
        if self.rng.random() < 0.7 and depth < 3:
            return [self.case(".segment"), G.W, '"%s"' % name, G.lb] + self.block(depth)
        return [self.case(".segment"), G.W, '"%s"' % name]

    def import_(self):
        self.bump("import")
        self.imported = True
        items = [self.case(".import"), G.W]
        r = self.rng.random()
        if r < 0.5 or not self.lib_syms:
            items += ["*"]
            if self.rng.random() < 0.3:
                items += [G.W, self.case("as"), G.W, self.fresh("ns")]
        else:
            syms = self.rng.sample(self.lib_syms, self.rng.randrange(1, len(self.lib_syms) + 1))
            for i, s in enumerate(syms):
                if i:
                    items += [G.w, ","]
                items += [G.ia, s]
                if self.rng.random() < 0.3:
                    items += [G.W, self.case("as"), G.W, self.fresh("im")]
        items += [G.m if self.rng.random() < 0.15 else G.W, self.case("from"), G.W, '"%s"' % self.lib]
        if self.rng.random() < 0.2:
            items += [G.lb] + self.block(2, [])
        return items

    def test(self, depth):
        self.bump("test")
        name = self.fresh("tt")
        body = []
        for _ in range(self.rng.randrange(0, 4)):
            r = self.rng.random()
            if r < 0.4:
                st = self.instruction()
            elif r < 0.75:
                st = self.assert_()
            else:
                st = self.trace()
            body += [("sep",)] + st
        return [self.case(".test"), G.W, '"%s"' % name, G.lb] + self.block(depth, body)

    def assert_(self):
        self.bump("assert")
        items = [self.case(".assert"), G.W] + self.small_expr()
        if self.rng.random() < 0.5:
            items += [G.W, self.string()]
        return items

    def trace(self):
        self.bump("trace")
        items = [self.case(".trace")]
        if self.rng.random() < 0.7:
            items += [G.w, "(", G.w]
            if self.rng.random() < 0.8:
                items += self.small_expr()
                if self.rng.random() < 0.4:
                    items += [G.w, ",", G.w] + self.small_expr()
            items += [G.w, ")"]
        return items

    def statement(self, depth, kind, top):
        r = self.rng.random()
        if kind == "code" and depth > 0 and r > 0.8:
            r = self.rng.random() * 0.6
        if r < 0.36:
            return self.instruction()
        if r < 0.46:
            return self.label(depth, top)
        if r < 0.53:
            return self.data()
        if r < 0.57:
            return self.text()
        if r < 0.63:
            return self.vardef(top)
        if r < 0.68 and depth < 3:
            return self.if_(depth)
        if r < 0.71 and depth < 3:
            return self.loop(depth)
        if r < 0.74 and depth < 3:
            self.bump("braces")
            return self.block(depth)
        if r < 0.77 and top:
            return self.macrodef(depth)
        if r < 0.82 and self.macros:
            return self.invoke()
        if r < 0.85 and top:
            return self.define()
        if r < 0.88:
            return self.segment(depth)
        if r < 0.90 and top and self.lib and not self.imported:
            return self.import_()
        if r < 0.92:
            self.bump("align")
            return [self.case(".align"), G.W, str(self.rng.choice([2, 4, 8, 16]))]
        if r < 0.94 and top:
            self.bump("pc")
            return ["*", G.w, "=", G.w, "$%04x" % self.rng.choice([0x1000, 0x2000, 0xc000])]
        if r < 0.96 and top:
            return self.test(depth)
        if r < 0.975:
            return self.assert_()
        if r < 0.99:
            return self.trace()
        self.bump("file")
        return [self.case(".file"), G.W, '"data.bin"']

    def statements(self, n, depth, kind="code"):
        items = []
        for _ in range(n):
            items += [("sep",)] + self.statement(depth, kind, depth == 0)
        return items

    def render_program(self, items):
        """resolve statement separators: a newline-containing gap, or (class same_line) only spaces"""
        out, first, prev_bare = [], True, False
        for it in items:
            if it == ("noop",):
                prev_bare = True
                continue
            if it == ("sep",):
                bare, prev_bare = prev_bare, False
                if first:
                    out.append(self.multi_gap() if self.rng.random() < 0.3 else "")
                elif "same_line" in self.cls and self.rng.random() < 0.3 and not bare and not self._ends_in_line_comment(out):
                    out.append(self.inline_gap(True))
                    self.bump("same_line_separators")
                else:
                    out.append(self.multi_gap(need_newline=True) if "newline_gaps" in self.cls or True else "\n")
                first = False
            else:
                out.append(self.render([it]))
                first = False
        return "".join(out)

    @staticmethod
    def _ends_in_line_comment(out):
        s = "".join(out[-3:])
        last = s.rsplit("\n", 1)[-1]
        return "//" in last

    def program(self):
        items = []
        if self.lib and self.rng.random() < 0.85:
            items += [("sep",)] + self.import_()
        items += self.statements(self.size, 0)
        src = self.render_program(items)
        r = self.rng.random()
        if r < 0.5:
            src += "\n"
        elif r < 0.7 and "comments" in self.cls:
            src += " " + (self.line_comment() if "line_comments" in self.cls else self.block_comment())
        elif r < 0.8:
            src += "\n\n\n"
        return src


def gen_project(rng, cls, size=None):
    """a project: main.asm (+ lib.asm, imported) ; returns (files, stats)"""
    size = size if size is not None else rng.choice([1, 2, 3, 5, 8, 12, 16])
    files = {}
    stats = {}
    lib = None
    lib_syms = []
    if rng.random() < 0.45:
        lg = ProgGen(rng, [c for c in cls if c != "same_line"] , size=rng.choice([1, 2, 4]))
        lg.nname = 500
        lg.ncomment = 500
        src = lg.program()
        # exported symbols of the library: top-level labels/consts
        lib_syms = lg.labels + lg.consts
        files["lib.asm"] = src
        lib = "lib.asm"
        for k, v in lg.stats.items():
            stats[k] = stats.get(k, 0) + v
    g = ProgGen(rng, cls, size=size, lib=lib)
    g.lib_syms = lib_syms
    files["main.asm"] = g.program()
    if lib and not g.imported:
        del files["lib.asm"]
    for k, v in g.stats.items():
        stats[k] = stats.get(k, 0) + v
    files["data.bin"] = "AB"
    return files, stats


def fold_ws_comments(n):
    """a strip_positions() tree without any trivia: the token tree ignoring whitespace and comments"""
    if isinstance(n, dict):
        return {k: fold_ws_comments(v) for k, v in n.items() if k not in ("tr", "vtr")}
    if isinstance(n, list):
        return [fold_ws_comments(x) for x in n]
    return n

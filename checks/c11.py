"""C11 -- source map and listings are exact."""
import json
import os
import random
import re
import shutil
import subprocess
import tempfile

import common
import c11gen
from common import Proc, log

ALL_NS = list(range(1, 17))
# Rust's char::is_whitespace (White_Space property) for trim_end
RUST_WS = "\t\n\x0b\x0c\r \x85\xa0\u1680" + "".join(chr(c) for c in range(0x2000, 0x200b)) + "\u2028\u2029\u202f\u205f\u3000"


def src_lines(text):
    """File::source_line for every line of the line table (a new line starts after every '\\n')"""
    return [l.rstrip("\n\r") for l in text.split("\n")]


def render_rows(rows, n, text):
    """the textual part of to_listing (format! calls, join, trim_end) applied to the model's rows"""
    lines = src_lines(text)
    out = []
    for r in rows:
        num = "%5d" % (r["line"] + 1)
        if r["addr"] is None:
            out.append(" ".join([num, " " * 5, " " * (3 * n), lines[r["line"]]]))
        else:
            parts = [num, "%04X:" % r["addr"], "%-*s" % (3 * n, " ".join("%02X" % b for b in r["bytes"]))]
            if r["src"]:
                parts.append(lines[r["line"]])
            out.append(" ".join(parts).rstrip(RUST_WS))
    return "\n".join(out).rstrip(RUST_WS)


ROW = re.compile(r"^ *(\d+) (?:([0-9A-F]{4,}):|     )")


def parse_listing(listing, n, text):
    """rows of a real listing, independent of the model: (line, addr, bytes, source text or None); None if malformed"""
    rows = []
    for raw in listing.split("\n"):
        m = ROW.match(raw)
        if not m:
            # the very last row may have been cut by the final trim_end
            m2 = re.match(r"^ *(\d+)$", raw)
            if m2:
                rows.append({"line": int(m2.group(1)) - 1, "addr": None, "bytes": [], "src": True, "text": ""})
                continue
            return None
        line = int(m.group(1)) - 1
        rest = raw[m.end():]
        field, tail = rest[1:1 + 3 * n], rest[1 + 3 * n:]
        if m.group(2) is None:
            if field.strip():
                return None
            rows.append({"line": line, "addr": None, "bytes": [], "src": True, "text": tail[1:] if tail.startswith(" ") else tail})
        else:
            toks = field.split()
            if not toks or any(not re.fullmatch(r"[0-9A-F]{2}", t) for t in toks) or field.rstrip() != " ".join(toks):
                return None
            src = None
            if tail:
                if not tail.startswith(" "):
                    return None
                src = tail[1:]
            rows.append({"line": line, "addr": int(m.group(2), 16), "bytes": [int(t, 16) for t in toks], "src": src is not None,
                         "text": src})
    return rows


def norm_rows(rows):
    return [(r["line"], r["addr"], tuple(r["bytes"])) for r in rows]


def first_flags(rows):
    """which rows must carry the source text: the first row of every line"""
    seen, out = set(), []
    for r in rows:
        out.append(r["line"] not in seen)
        seen.add(r["line"])
    return out


# ----------------------------------------------------------------------------- requests
def model_inputs(files_order, files, impl):
    fidx = {f["name"]: i for i, f in enumerate(files_order)}
    sidx = {s["name"]: i for i, s in enumerate(impl["segments"])}
    jfiles = [{"name": i, "src": list(files[f["name"]].encode("utf-8"))} for i, f in enumerate(files_order)]
    sm = []
    for o in impl["source_map"]:
        sm.append({"scope": o["scope"], "file": fidx[o["file"]], "lo": o["lo"], "hi": o["hi"], "pc0": o["pc0"], "pc1": o["pc1"],
                   "seg": sidx.get(o["segment"], 999)})
    segs = [{"name": i, "lo": s["start"], "hi": s["end"], "data": list(bytes.fromhex(s["data"])), "toff": s["target_offset"]}
            for i, s in enumerate(impl["segments"])]
    return fidx, sidx, jfiles, sm, segs


def derived_emissions(impl, fidx):
    """emissions read back from the implementation's own entries and segments (used for hand-written corpus programs,
    whose emissions the generator does not know): bytes of an entry = the emitting segment's data at its emit address"""
    segs = {s["name"]: s for s in impl["segments"]}
    ems = []
    for o in impl["source_map"]:
        s = segs.get(o["segment"])
        if s is None:
            continue
        data = bytes.fromhex(s["data"])
        a = o["pc0"] - s["target_offset"] - s["start"]
        ems.append({"file": fidx[o["file"]], "lo": o["lo"], "addr": o["pc0"], "bytes": list(data[a:a + o["pc1"] - o["pc0"]])})
    return ems


def canon_scopes(seq):
    m = {}
    out = []
    for s in seq:
        if s not in m:
            m[s] = len(m)
        out.append(m[s])
    return out


class Case:
    def __init__(self, files, entry="main.asm", gen=None, labels=None, expect=None, name=None):
        self.files, self.entry, self.gen, self.labels, self.expect, self.name = files, entry, gen, labels, expect, name


def check_case(chk, probe, model, case, moves, ns, rng, dist):
    files = case.files
    for move in moves:
        req = {"files": files, "entry": case.entry, "pc": 0x2000, "move_macro": move, "ns": ns}
        impl = probe.call(req)
        replay = {"files": files, "move_macro": move, "ns": ns, "name": case.name}
        if impl.get("parse_errors") or not impl.get("ok"):
            if case.gen is not None:
                chk.tie_break("generator", "a generated valid program does not build: %s %s" % (
                    impl.get("parse_errors"), impl.get("errors") or impl), replay)
            dist["rejected"] += 1
            continue
        order = impl["files"]
        fidx, sidx, jfiles, sm, segs = model_inputs(order, files, impl)
        # -------- emissions: known to the generator, else read back from the implementation
        ex = None
        if case.gen is not None:
            ex = c11gen.Exec(case.gen, move, case.labels)
            ex.run_items(case.gen.top, {})
            ems = [{"file": fidx[e["attr"][0]], "lo": e["attr"][1], "addr": e["tpc"], "bytes": e["bytes"]}
                   for e in ex.ems if e["attr"][0] in fidx]
        else:
            ems = derived_emissions(impl, fidx)
        m = model.call({"cmd": "listing", "files": jfiles, "sm": sm, "segs": segs, "ns": ns, "ems": ems})
        if "model" not in m:
            chk.tie_break("model", "mosmodel_c11 failed on a listing request: %s" % str(m)[:300], replay)
            continue
        nontrivial = len(impl["source_map"]) > 0
        # the width guard of to_listing (1..=256): widths outside are a diagnostic, in the model and in the implementation
        if case.gen is None or rng.random() < 0.1:
            gw = [0, 256, 257, rng.choice([1, 16, 300, 70000])]
            ri = probe.call(dict(req, ns=gw))
            rm = model.call({"cmd": "widths", "ns": gw})
            for w in gw:
                li = ri.get("listings", {}).get(str(w))
                acc_i = isinstance(li, dict) and "errors" not in li and "panic" not in li
                if isinstance(li, dict) and "panic" in li:
                    chk.oracle_failure(None, "to_listing(%d) panics: %s" % (w, li["panic"]), dict(replay, n=w))
                if acc_i != rm.get("accepted", {}).get(str(w)):
                    chk.tie_break("correspondence:to_listing_checked", "width %d: implementation %s, model %s" % (
                        w, "accepts" if acc_i else "rejects", rm.get("accepted", {}).get(str(w))), dict(replay, n=w))
        for n in ns:
            real = impl["listings"].get(str(n))
            if not isinstance(real, dict) or "panic" in real or "errors" in real:
                chk.oracle_failure(None, "to_listing(%d) failed: %s" % (n, real), dict(replay, n=n))
                continue
            mrows = m["model"][str(n)]
            srows = dict((f, rows) for f, rows in m["spec"][str(n)])
            if mrows == "panic":
                chk.tie_break("correspondence:to_listing", "the model panics where to_listing succeeds", dict(replay, n=n))
                continue
            mrows = dict((f, rows) for f, rows in mrows)
            mtext = m.get("text", {}).get(str(n))
            mtext = None if not isinstance(mtext, list) else dict((f, bytes(t).decode("utf-8", "replace")) for f, t in mtext)
            for f in order:
                fi = fidx[f["name"]]
                text = files[f["name"]]
                got = real.get(f["name"])
                if got is None:
                    chk.oracle_failure(None, "no listing for file %s" % f["name"], dict(replay, n=n))
                    continue
                chk.count(1, 1 if nontrivial else 0)
                # ---- tie: the text rendered by the extracted model (model/Listing.v to_listing_text) is the real listing text
                want = None if mtext is None else mtext.get(fi)
                if want != got:
                    chk.tie_break("correspondence:to_listing", "model listing differs from to_listing (n=%d, %s)" % (n, f["name"]),
                                  dict(replay, n=n, file=f["name"], model=want, impl=got))
                # (the check's own renderer is kept only as a cross-check of the row parser used by the oracle)
                if render_rows(mrows[fi], n, text) != got:
                    chk.tie_break("correspondence:render_rows", "the check's row renderer differs from to_listing (n=%d, %s)" % (n, f["name"]),
                                  dict(replay, n=n, file=f["name"]))
                # ---- oracle: the spec, evaluated on the implementation's output
                rows = parse_listing(got, n, text)
                lines = src_lines(text)
                bad = None
                if rows is None:
                    bad = "listing of %s is not a sequence of rows" % f["name"]
                else:
                    spec = srows[fi]
                    if norm_rows(rows) != norm_rows(spec):
                        bad = "rows differ from the emissions (n=%d, %s): got %s want %s" % (
                            n, f["name"], first_diff(norm_rows(rows), norm_rows(spec)), "")
                    elif [r["src"] for r in rows[:-1]] != first_flags(rows)[:-1]:
                        bad = "source text is not shown exactly on the first row of each line (%s)" % f["name"]
                    elif any(r["src"] and r["text"].rstrip(RUST_WS) != lines[r["line"]].rstrip(RUST_WS) for r in rows[:-1]):
                        bad = "a row shows a different source text than its line (%s)" % f["name"]
                    elif sorted(set(r["line"] for r in rows)) != list(range(f["num_lines"])) or \
                            [r["line"] for r in rows] != sorted(r["line"] for r in rows):
                        bad = "source lines are not listed once each in order (%s)" % f["name"]
                if bad:
                    chk.oracle_failure(None, bad, dict(replay, n=n, file=f["name"], listing=got))
            # ---- oracle (no model, no generator knowledge): every byte of every segment that an entry covers is shown once
            if isinstance(real, dict):
                shown = []
                for f in order:
                    rows = parse_listing(real.get(f["name"], ""), n, files[f["name"]]) or []
                    for r in rows:
                        shown += [(r["addr"] + k, b) for k, b in enumerate(r["bytes"])] if r["addr"] is not None else []
                emitted = []
                for e in derived_emissions(impl, fidx):
                    emitted += [(e["addr"] + k, b) for k, b in enumerate(e["bytes"])]
                if sorted(shown) != sorted(emitted):
                    chk.oracle_failure(None, "the listings (n=%d) do not show every emitted byte exactly once: %s" % (
                        n, first_diff(sorted(shown), sorted(emitted))), dict(replay, n=n))
        # -------- expected listing text of hand-written witnesses
        if case.expect and case.expect.get("move", move) == move:
            n = case.expect["n"]
            r2 = probe.call(dict(req, ns=[n]))
            for fname, want in case.expect["listing"].items():
                got = (r2.get("listings", {}).get(str(n)) or {}).get(fname)
                if got != want:
                    chk.oracle_failure(None, "witness %s: listing of %s differs from the expected one" % (case.name, fname),
                                       dict(replay, n=n, got=got, want=want))
        # -------- wf_emission on the implementation + tie of the emission model (generator-known programs)
        if ex is not None:
            check_emission(chk, model, case, ex, impl, fidx, sidx, replay, dist)
        # -------- address_to_offset / line_col_to_offsets
        check_queries(chk, probe, model, req, impl, jfiles, sm, fidx, files, order, rng, replay)
        dist["programs"] += 1
        dist["entries"] += len(impl["source_map"])
        dist["files"] += len(order)
        dist["relocated_segments"] += sum(1 for s in impl["segments"] if s["target_offset"] != 0 and s["data"])
        dist["multi_segment"] += 1 if sum(1 for s in impl["segments"] if s["data"]) > 1 else 0
        chk.sample({"files": files, "move_macro": move, "listing_n8": (impl["listings"].get("8") or {})}, limit=3)


def first_diff(a, b):
    for i, (x, y) in enumerate(zip(a, b)):
        if x != y:
            return "at %d: %s vs %s" % (i, x, y)
    return "lengths %d vs %d (%s)" % (len(a), len(b), (a[len(b):] or b[len(a):])[:2])


def check_emission(chk, model, case, ex, impl, fidx, sidx, replay, dist):
    g = case.gen
    # wf_emission oracle: the entries are exactly the generator's emissions (span of the emitting construct, target
    # address range, segment) in emission order, and the segments hold exactly the emitted bytes
    want = [(e["attr"][0], e["attr"][1], e["attr"][2], e["tpc"], e["tpc"] + len(e["bytes"]), e["seg"]) for e in ex.ems]
    got = [(o["file"], o["lo"], o["hi"], o["pc0"], o["pc1"], o["segment"]) for o in impl["source_map"]]
    if want != got:
        chk.oracle_failure(None, "source map entries differ from the emissions of the program: %s" % first_diff(got, want),
                           dict(replay, got=got[:50], want=want[:50]))
    for s in impl["segments"]:
        data = bytes.fromhex(s["data"])
        mem = {}
        for e in ex.ems:
            if e["seg"] == s["name"]:
                for k, b in enumerate(e["bytes"]):
                    mem[e["epc"] + k] = b
        touched = [e for e in ex.ems if e["seg"] == s["name"]]
        if touched:
            lo = min(e["epc"] for e in touched)
            hi = max(e["epc"] + len(e["bytes"]) for e in touched)
            exp = bytes(mem.get(a, 0) for a in range(lo, hi))
            if (s["start"], s["end"], data) != (lo, hi, exp):
                chk.oracle_failure(None, "segment %s does not hold the emitted bytes at their addresses" % s["name"],
                                   dict(replay, segment=s, want=(lo, hi, exp.hex())))
        dist["bytes"] += len(mem)
    # tie: the Coq emission model on the generator's operation sequence
    segs0 = [{"name": sidx[n], "initial_pc": ex.segs[n]["initial_pc"], "target": ex.segs[n]["target"]} for n in ex.segorder]
    ops = []
    for o in ex.ops:
        o = dict(o)
        if "span" in o:
            f, lo, hi = o.pop("span")
            if f not in fidx:
                continue
            o.update(file=fidx[f], lo=lo, hi=hi)
        if o["op"] == "segment":
            o["name"] = sidx[o["name"]]
        ops.append(o)
    m = model.call({"cmd": "emit", "segs": segs0, "current": sidx[ex.segorder[0]], "scope": 0, "move": ex.move, "ops": ops})
    if m.get("result") != "done":
        chk.tie_break("correspondence:emit", "the emission model does not finish: %s" % str(m)[:200], replay)
        return
    msm = [(o["file"], o["lo"], o["hi"], o["pc0"], o["pc1"], o["seg"]) for o in m["sm"]]
    ism = [(fidx[o["file"]], o["lo"], o["hi"], o["pc0"], o["pc1"], sidx[o["segment"]]) for o in impl["source_map"]]
    if msm != ism or canon_scopes([o["scope"] for o in m["sm"]]) != canon_scopes([o["scope"] for o in impl["source_map"]]):
        chk.tie_break("correspondence:emit", "source map of the emission model differs from the real one: %s" % first_diff(msm, ism),
                      dict(replay, model=m["sm"][:40], impl=impl["source_map"][:40]))
    msegs = [(s["name"], s["lo"], s["hi"], bytes(s["data"]).hex(), s["toff"]) for s in m["segs"]]
    isegs = [(sidx[s["name"]], s["start"], s["end"], s["data"], s["target_offset"]) for s in impl["segments"]]
    # a segment nothing was emitted to keeps an empty range at its (initial) pc
    if msegs != isegs:
        chk.tie_break("correspondence:emit", "segments of the emission model differ from the real ones: %s" % first_diff(msegs, isegs),
                      dict(replay, model=msegs, impl=isegs))


def check_queries(chk, probe, model, req, impl, jfiles, sm, fidx, files, order, rng, replay):
    offs = impl["source_map"]
    if not offs:
        return
    addrs = []
    for _ in range(6):
        o = rng.choice(offs)
        addrs += [o["pc0"], o["pc1"] - 1, o["pc1"], rng.randrange(0, 0x10000)]
    lq = []
    for _ in range(8):
        o = rng.choice(offs)
        line = rng.choice([o["line"], o["eline"], o["line"] + 1, max(0, o["line"] - 1)])
        col = rng.choice([None, o["col"], o["ecol"], max(0, o["ecol"] - 1), o["col"] + 1, 0, 200])
        fname = rng.choice([o["file"], o["file"], order[0]["name"]])
        lq.append([fname, line, col])
    r = probe.call(dict(req, ns=[], addr_queries=addrs, line_queries=lq))
    m = model.call({"cmd": "queries", "files": jfiles, "sm": sm, "addr_queries": addrs,
                    "line_queries": [[fidx[f], l, c] for f, l, c in lq]})
    if "addr_answers" not in r or "addr_answers" not in m:
        chk.tie_break("correspondence:queries", "query request failed: %s / %s" % (str(r)[:100], str(m)[:100]), replay)
        return
    key = lambda o: (o["scope"], o["file"], o["lo"], o["hi"], o["pc0"], o["pc1"], o["seg"])
    for a, ia, ma in zip(addrs, r["addr_answers"], m["addr_answers"]):
        chk.count(1, 0)
        want = None if ia is None else key(sm[ia])
        got = None if ma is None else key(ma)
        if want != got:
            chk.tie_break("correspondence:address_to_offset", "address %#x: model %s impl %s" % (a, got, want), dict(replay, addr=a))
        # oracle: the entry returned covers the address; None only if no entry covers it
        if ia is None and any(o["pc0"] <= a < o["pc1"] for o in offs):
            chk.oracle_failure(None, "address_to_offset(%#x) finds nothing although an entry covers it" % a, dict(replay, addr=a))
        if ia is not None and not (offs[ia]["pc0"] <= a < offs[ia]["pc1"]):
            chk.oracle_failure(None, "address_to_offset(%#x) returns an entry that does not cover it" % a, dict(replay, addr=a))
    for q, ia, ma in zip(lq, r["line_answers"], m["line_answers"]):
        chk.count(1, 0)
        want = "panic" if isinstance(ia, dict) else [key(sm[i]) for i in ia]
        got = "panic" if ma == "panic" else [key(o) for o in ma]
        if want != got:
            chk.tie_break("correspondence:line_col_to_offsets", "query %s: model %s impl %s" % (q, got, want), dict(replay, query=q))


# ----------------------------------------------------------------------------- end to end
def run_build(mos, files, n, workdir, listing=True):
    d = tempfile.mkdtemp(prefix="c11_", dir=workdir)
    try:
        for name, text in files.items():
            os.makedirs(os.path.dirname(os.path.join(d, name)), exist_ok=True)
            with open(os.path.join(d, name), "w", encoding="utf-8", newline="") as f:
                f.write(text)
        with open(os.path.join(d, "mos.toml"), "w") as f:
            f.write('[build]\nentry = "main.asm"\nlisting = %s\n[formatting]\nlisting.num-bytes-per-line = %d\n' % (
                "true" if listing else "false", n))
        p = subprocess.run([mos, "--error-style", "Short", "build"], cwd=d, stdout=subprocess.PIPE, stderr=subprocess.STDOUT,
                           env=common.ENV, timeout=60)
        out = {}
        t = os.path.join(d, "target")
        if os.path.isdir(t):
            for fn in sorted(os.listdir(t)):
                with open(os.path.join(t, fn), "rb") as f:
                    out[fn] = f.read()
        return p.returncode, common.clean(p.stdout.decode("utf-8", "replace")), out
    finally:
        shutil.rmtree(d, ignore_errors=True)


def check_build(chk, mos, probe, model, case, n, workdir, dist):
    rc, out, produced = run_build(mos, case.files, n, workdir)
    impl = probe.call({"files": case.files, "pc": 0x2000, "move_macro": True, "ns": [n]})
    replay = {"files": case.files, "n": n, "end_to_end": True}
    if rc != 0 or not impl.get("ok"):
        if (rc != 0) != (not impl.get("ok")):
            chk.tie_break("correspondence:build", "`mos build` and the probe disagree on success: rc=%s %s" % (rc, out[-200:]), replay)
        return
    # the class of the known finding, decided by the Coq predicate Known_listing_name_collision on (directory, stem)
    dirs, stems = {}, {}
    paths = []
    for f in impl["files"]:
        d, base = os.path.split(f["name"])
        stem = os.path.splitext(base)[0]
        paths.append([dirs.setdefault(d, len(dirs)), stems.setdefault(stem, len(stems))])
    kl = model.call({"cmd": "lstnames", "paths": paths})
    klass = "Known_listing_name_collision" if kl.get("collision") else None
    for f in impl["files"]:
        stem = os.path.splitext(os.path.basename(f["name"]))[0]
        got = produced.get(stem + ".lst")
        want = impl["listings"][str(n)].get(f["name"])
        chk.count(1, 1)
        dist["lst_files"] += 1
        if got is None or got.decode("utf-8", "replace") != want:
            chk.oracle_failure(klass, "%s.lst written by `mos build` is not the listing of %s" % (stem, f["name"]),
                               dict(replay, got=None if got is None else got.decode("utf-8", "replace"), want=want))


def load_corpus():
    out = []
    cdir = os.path.join(common.ROOT, "corpus", "C11")
    if os.path.isdir(cdir):
        for fn in sorted(os.listdir(cdir)):
            if fn.endswith(".json"):
                o = json.load(open(os.path.join(cdir, fn), encoding="utf-8"))
                out.append(Case(o["files"], o.get("entry", "main.asm"), expect=o.get("expect"), name=fn))
    return out


def run(chk):
    rng = random.Random(chk.seed)
    chk.proof = common.prove("C11")
    probe = Proc([common.build_probe("harness_c11", "mosprobe_c11")])
    model = Proc([common.build_model("c11")], timeout=900.0)   # a timeout is not a verdict: two orders above a normal request
    mos = common.build_mos()
    thorough = chk.tier == "thorough"
    nprog = 480 if thorough else 56
    nbuild = 120 if thorough else 14
    workdir = os.path.join(common.CACHE, "work")
    os.makedirs(workdir, exist_ok=True)
    dist = {"programs": 0, "rejected": 0, "entries": 0, "files": 0, "bytes": 0, "relocated_segments": 0, "multi_segment": 0,
            "lst_files": 0, "with_macros": 0, "with_imports": 0, "with_loops": 0}
    for case in load_corpus():
        check_case(chk, probe, model, case, [False, True], ALL_NS, rng, dist)
        check_build(chk, mos, probe, model, case, 8, workdir, dist)
    seen = set()
    for i in range(nprog):
        g, labels = c11gen.build(rng, transient=(i % 10 == 2))
        key = json.dumps(g.files, sort_keys=True)
        if key in seen:
            continue
        seen.add(key)
        case = Case(g.files, gen=g, labels=labels, name="gen%d" % i)
        kinds = set(n["k"] for n in c11gen.walk(g.top))
        dist["with_macros"] += 1 if "call" in kinds else 0
        dist["with_imports"] += 1 if "import" in kinds else 0
        dist["with_loops"] += 1 if "loop" in kinds else 0
        # all of 1..16 on every 4th program, otherwise a random subset that always contains a small and a large width
        ns = ALL_NS if (i % 8 == 0 and i % 10 != 2) else sorted(set([rng.randrange(1, 4), rng.randrange(4, 9), rng.randrange(9, 17)]))
        check_case(chk, probe, model, case, [False, True], ns, rng, dist)
        if i < nbuild:
            check_build(chk, mos, probe, model, case, rng.choice(ALL_NS), workdir, dist)
    probe.stop()
    model.stop()
    chk.cov["rule"] = ("seeded random programs built from an AST whose emissions the generator knows without an assembler "
                       "(data/text/instructions with literal, macro-argument, import-parameter and label operands; blocks, labelled "
                       "blocks, loops, conditionals, macros calling macros, imports with parameters, 0-3 segments: disjoint / "
                       "overlapping / relocated to the same target; `* =`, .align; multi-line spans; non-ASCII comments) x macro "
                       "attribution mode (definition / invocation) x bytes-per-line (all of 1..16 on every 8th program and on every corpus witness, else 3 widths); every 10th program contains a macro whose body fails in an intermediate pass only (transient `branch too far`); "
                       "one evaluation = one (program, mode, width, file) listing compared row by row with the extracted spec on the "
                       "generator's emissions and with the rendered model; non-trivial = the program emitted at least one entry; "
                       "plus address/line queries and end-to-end `mos build` .lst files")
    chk.extra["distribution"] = dist
    chk.assumptions = ["names of files and segments are abstracted to numbers (injective renaming by the check)",
                       "programs that overwrite their own bytes (pc moved backwards within a segment) are outside the domain "
                       "(no_overwrite hypothesis of the theorems) and are not generated",
                       "the textual rendering of a listing (widths, hex, joins, trim_end) is part of the Coq model "
                       "(to_listing_text) and compared byte for byte with the real text on every case"]
    return chk.finish(extra_trusted=["checks/c11gen.py: the generator's own account of what each statement emits (independent of mos)",
                                     "harness_c11/mosprobe_c11 (mos-core API: codegen, source_map, segments, to_listing)",
                                     "extract/driver_c11.ml"])


def replay(chk, path):
    obj = json.load(open(path))
    rp = obj.get("replay", obj)
    probe = Proc([common.build_probe("harness_c11", "mosprobe_c11")])
    ns = rp.get("ns") or [rp.get("n", 8)]
    r = probe.call({"files": rp["files"], "pc": 0x2000, "move_macro": rp.get("move_macro", True), "ns": ns})
    print(json.dumps({"what": obj.get("what"), "errors": r.get("errors"), "listings": r.get("listings")}, indent=1, ensure_ascii=False))
    probe.stop()
    return 0

"""C07 -- loops, conditionals, macros, constants, scopes and imports mean their expansion."""
import glob
import json
import os
import random

import asmgen
import c02
import common
from common import Proc

MODES = [("loops",), ("ifs",), ("macros",), ("consts",), ("imports",), ("loops", "ifs", "macros", "consts", "imports")]


def tag(mode):
    return "+".join(mode) if len(mode) < 5 else "all"


def image(r):
    return [(s["name"], s["start"], s["end"], s["data"]) for s in r.get("segments", [])]


def assemble(probe, files, opts, ast=False):
    req = {"cmd": "asm", "files": files, "merge": False, "ast": ast, "max_passes": 250}
    req.update(opts)
    return probe.call(req, timeout=60)


def expansions(chk, probe, model, r, files, opts, what, dist, check_model=True):
    """image_impl(p) = image_impl(expand p) for every construct kind and for all of them together"""
    has_import = len(files) > 1
    for mode in MODES:
        if has_import and "imports" not in mode:
            continue
        if not has_import and mode == ("imports",):
            continue
        q = {"cmd": "expand", "ast": r["ast"], "symbols": r["symbols"]}
        for k in mode:
            q[k] = True
        x = model.call(q, timeout=120)
        t = tag(mode)
        st = x.get("status")
        if st != "ok":
            dist["expand"][t + ":" + str(st)] = dist["expand"].get(t + ":" + str(st), 0) + 1
            continue
        if x["text"].strip() == files["main.asm"].strip():
            dist["expand"][t + ":nothing_to_expand"] = dist["expand"].get(t + ":nothing_to_expand", 0) + 1
        f2 = {"main.asm": x["text"]}
        r2 = assemble(probe, f2, opts, ast=(t == "all" and check_model))
        replay = {"files": files, "opts": opts, "mode": t, "expanded": x["text"]}
        if r2.get("parse_errors") or not r2.get("ok"):
            msgs = [e["msg"] for e in (r2.get("parse_errors") or []) + (r2.get("errors") or [])][:3]
            klass = None
            stale = stale_of(model, r, opts)
            if stale:
                # the build of P kept symbols its last pass never wrote; the expansion does not contain their definitions
                klass = "Known_stale_symbol_survives"
                msgs = msgs + ["stale: %s" % stale[:4]]
            chk.oracle_failure(klass, "%s: the program assembles, its expansion by hand (%s) does not: %s" % (what, t, msgs or r2.get("panic")), replay)
            dist["expand"][t + ":FAIL"] = dist["expand"].get(t + ":FAIL", 0) + 1
            continue
        if image(r) != image(r2):
            a, b = image(r), image(r2)
            stale = stale_of(model, r, opts)
            if stale:
                chk.oracle_failure("Known_stale_symbol_survives", "%s: the program and its expansion by hand (%s) assemble to different bytes; the build of the "
                                   "program kept symbols that its last pass never wrote: %s" % (what, t, stale[:4]), replay)
                dist["expand"][t + ":known"] = dist["expand"].get(t + ":known", 0) + 1
                continue
            first = next((i for i in range(min(len(a), len(b))) if a[i] != b[i]), 0)
            chk.oracle_failure(None, "%s: the program and its expansion by hand (%s) assemble to different bytes: segment %s %s.. vs %s.." % (
                what, t, a[first][0] if a else "?", (a[first][3] if a else "")[:40], (b[first][3] if first < len(b) else "")[:40]), replay)
            dist["expand"][t + ":FAIL"] = dist["expand"].get(t + ":FAIL", 0) + 1
            continue
        dist["expand"][t + ":same"] = dist["expand"].get(t + ":same", 0) + 1
        if t == "all" and check_model and "ast" in r2:
            # tie on the expanded program as well
            c02.correspondence(chk, model, r2, f2, opts, what + " (expanded)")


def stale_of(model, r, opts):
    """symbols of the build that were left over from an earlier pass (pass stamps are visible in the model only; the
    model is tied to the implementation by the correspondence check of the same program)"""
    mreq = {"cmd": "codegen", "ast": r.get("ast")}
    mreq.update(opts)
    m = model.call(mreq, timeout=120)
    if m.get("status") != "done":
        return []
    if c02.sym_key(r["symbols"]) != c02.sym_key(m["symbols"]):
        return []
    return [p for p, t in m.get("stale", [])]


def corpus_cases():
    out = []
    d = os.path.join(common.ROOT, "corpus", "C07")
    for p in sorted(glob.glob(os.path.join(d, "*.json"))):
        j = json.load(open(p))
        out.append((os.path.basename(p), j["files"], j.get("opts", {}), j.get("expect")))
    return out


def run(chk):
    rng = random.Random(chk.seed)
    common.translate_for(chk, ["codegen"])
    chk.proof = common.prove("C07")
    probe = Proc([common.build_probe("harness_c02", "c02probe")])
    model = Proc([common.build_model("asm")])
    thorough = chk.tier == "thorough"
    n = 2000 if thorough else 500
    dist = {"programs": 0, "ok": 0, "failed": 0, "expand": {}, "kinds": {}, "nested_constructs": 0, "max_nesting": 0, "statements": 0}
    seen = set()

    def one(name, files, opts, nested, expect=None):
        r = assemble(probe, files, opts, ast=True)
        if r.get("parse_errors") or "ast" not in r:
            return
        m, st = c02.correspondence(chk, model, r, files, opts, name)
        if not r.get("ok"):
            dist["failed"] += 1
            if expect and expect.get("data") is not None:
                chk.oracle_failure(None, "%s: regression witness no longer assembles: %s (%s)" % (
                    name, [e["msg"] for e in (r.get("errors") or [])][:3] or r.get("panic"), expect.get("why", "")), {"files": files, "opts": opts})
            chk.count(1, 0)
            return
        dist["ok"] += 1
        if expect and expect.get("data") is not None:
            got = "".join(s["data"] for s in r["segments"])
            if got != expect["data"]:
                chk.oracle_failure(None, "%s: regression witness assembles to %s, its expansion by hand gives %s (%s)" % (name, got, expect["data"], expect.get("why", "")),
                                   {"files": files, "opts": opts})
        expansions(chk, probe, model, r, files, opts, name, dist)
        chk.count(1, 1 if nested else 0)
        if nested:
            chk.sample({"program": files["main.asm"][:500]}, limit=4)

    for name, files, opts, expect in corpus_cases():
        one("corpus/" + name, files, opts, True, expect)

    def generated(count):
        for _ in range(count):
            feats = {"pcset": rng.random() < 0.5, "align": rng.random() < 0.5}
            if rng.random() < 0.6:
                feats["imports"] = False
            src, files, opts, st = asmgen.generate(rng, feats, size=rng.choice([8, 12, 18, 26, 36]))
            if src in seen or not any(k in st["kinds"] for k in ("loop", "if", "invoke", "const", "import", "idiom_late_condition", "idiom_scoped_alias_import")):
                continue
            seen.add(src)
            f = {"main.asm": src}
            f.update(files)
            dist["programs"] += 1
            dist["statements"] += src.count("\n")
            dist["max_nesting"] = max(dist["max_nesting"], st["max_depth"])
            dist["nested_constructs"] += st["nested_constructs"]
            for k, v in st["kinds"].items():
                dist["kinds"][k] = dist["kinds"].get(k, 0) + v
            one("generated#%d" % dist["programs"], f, opts, st["nested_constructs"] >= 1)

    generated(n)
    broken = bool(chk.tie_breaks) or (chk.proof and (chk.proof["discharged"] < chk.proof["obligations"] or chk.proof["rc"] != 0))
    if broken and not chk.violations:
        common.log("C07: proof or tie broken; widening the search for a failing input")
        generated(2500 if not thorough else 5000)
    probe.stop()
    model.stop()
    chk.cov["rule"] = ("corpus/C07 first, then seeded grammar-based programs (checks/asmgen.py) that contain at least one of .loop / .if / macro invocation / .const / "
                       ".import, nesting <= 4. Each program P is assembled by the real codegen; the extracted spec/Expand.v rewrites P (per construct kind and all "
                       "kinds together) using the final symbols of that build and prints source text, which is assembled again: segment names, ranges and bytes must "
                       "be equal. Model and implementation are compared on P and on expand(P). distinct = distinct source text; non-trivial = at least one construct "
                       "nested in another (loop / if / macro call / block inside a loop body, branch, macro body or block)")
    chk.extra["distribution"] = dist
    chk.assumptions = [
        "expansion uses the final symbol values of the build of P for conditions, loop counts and name binding; a construct whose expansion by hand is not "
        "meaning-preserving by the language's own scoping rules is left in place (macro arguments that name a parameter / a label of the macro body / `super` / `*`, "
        "macro bodies that use `-` / `+`, constants whose defining expression means something else at the use, imports `as` a namespace or of files that define macros)",
        "theorems: C07_if, C07_loop, C07_macro, C07_import_* (the model's meaning of each construct) and C07_compose (congruence) are single-pass statements about the model; "
        "the whole-program theorems cover `.if` / `.loop` on closed or run-stable conditions, constants with closed definitions, and `.if` in runs with diagnostics; "
        "whole-program macro-invocation and import expansion, constants with non-closed definitions and `.loop` expansion in runs with diagnostics are decided by the "
        "oracle on the implementation only",
    ]
    return chk.finish(extra_trusted=[
        "spec/Expand.v + print_tokens extracted (the expander and printer are the oracle's trusted part); extract/driver_asm.ml",
        "translator t_codegen (loop arm: one scope per iteration, macro arm: arguments evaluated at the invocation, if arm) -> Gen/CodegenConsts.v",
    ])


def replay(chk, path):
    obj = json.load(open(path))
    rp = obj.get("replay", obj)
    files, opts = rp.get("files"), rp.get("opts", {})
    if not files:
        print(json.dumps(obj, indent=1)[:3000])
        return 0
    probe = Proc([common.build_probe("harness_c02", "c02probe")])
    model = Proc([common.build_model("asm")])
    r = assemble(probe, files, opts, ast=True)
    out = {"program": files, "opts": opts, "ok": r.get("ok"), "image": [(a, b, c, d[:200]) for a, b, c, d in image(r)]}
    if r.get("ok"):
        for mode in MODES:
            q = {"cmd": "expand", "ast": r["ast"], "symbols": r["symbols"]}
            for k in mode:
                q[k] = True
            x = model.call(q, timeout=120)
            if x.get("status") == "ok":
                r2 = assemble(probe, {"main.asm": x["text"]}, opts)
                out["expanded:" + tag(mode)] = {"text": x["text"], "ok": r2.get("ok"), "same_image": image(r) == image(r2),
                                                "image": [(a, b, c, d[:200]) for a, b, c, d in image(r2)]}
    print(json.dumps(out, indent=1))
    probe.stop()
    model.stop()
    return 0

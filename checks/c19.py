"""C19 -- the debugger reports where the machine really is.

proof      props/C19.v over model/Dap.v (lock-granularity interleaving model, CPU abstract) and model/DapStep.v
tie        (1) every DAP trace recorded from the real adapter (`mos lsp -p`, hook H3 schedule perturbation) must be
               accepted by the extracted model: the acceptor searches a schedule of the StateHeld protocol that explains
               the observed request/response/event sequence (mosmodel_c19 `accept`);
           (2) translate/t_dap.py re-reads the lock structure of the adapter and regenerates Gen/DapShape.v
oracle     independent of the model: self-locating programs.  A 30-line reference interpreter of the dozen opcodes the
           generator uses gives the uninterrupted run (pc, A, X, Y, flags, cycle count per instruction index); the cycle
           counter the adapter exposes (variable CYC) locates the machine in that run, so "reported frame vs machine",
           "halted while stopped", "no breakpoint overrun" and "step lands where the uninterrupted run says" are all
           decided from protocol-visible state.
No wall-clock verdicts: a missing event is reported only after EVENT_TIMEOUT (60 s, > 100x the normal latency)."""
import hashlib
import json
import os
import random
import sys
import time

import common
from common import Proc, log

sys.path.insert(0, os.path.join(common.ROOT, "drivers"))
import dap_client  # noqa: E402

EVENT_TIMEOUT = 60.0
JSR, RTS, BRK = 0x20, 0x60, 0x00


# ------------------------------------------------------------------------------------------------ reference run
class Ref:
    """uninterrupted run of the test, computed lazily.  state i = machine state before instruction i executes."""
    CYCLES = {0xA2: 2, 0xA0: 2, 0xA9: 2, 0xE8: 2, 0xC8: 2, 0xCA: 2, 0x88: 2, 0xEA: 2, 0x48: 3, 0x68: 4, 0x20: 6, 0x60: 6,
              0x4C: 3, 0xD0: 2, 0xF0: 2, 0xAA: 2, 0xA8: 2, 0x8A: 2, 0x98: 2}

    def __init__(self, start, data, entry):
        self.mem = bytearray(65536)
        self.mem[start:start + len(data)] = data
        self.pc, self.a, self.x, self.y, self.sp = entry, 0, 0, 0, 0xFD
        self.n = self.z = False
        self.cyc = 0
        self.depth = 0
        self.esp = []            # stack pointer right after the JSR of each open frame
        self.calls = []          # instruction index of the JSR of each open frame
        self.states = []         # (pc, a, x, y, sp, n, z, cyc, depth, entry_sp, opcode, ret)
        self.by_cyc = {}
        self.final = False
        self._snap()

    def _snap(self):
        op = self.mem[self.pc]
        self.by_cyc[self.cyc] = len(self.states)
        ret = (1 + self.mem[0x100 + self.sp + 1] + 256 * self.mem[0x100 + self.sp + 2]) & 0xFFFF   # step_out's will_return_to
        self.states.append((self.pc, self.a, self.x, self.y, self.sp, self.n, self.z, self.cyc, self.depth,
                            self.esp[-1] if self.esp else None, op, ret, self.calls[-1] if self.calls else None))
        if op == BRK:
            self.final = True

    def _nz(self, v):
        self.n, self.z = v >= 128, v == 0

    def _step(self):
        m, pc = self.mem, self.pc
        op = m[pc]
        if op not in self.CYCLES:
            raise ValueError("reference interpreter: opcode $%02X at $%04X is outside the generated subset" % (op, pc))
        cyc = self.CYCLES[op]
        if op == 0xA2:
            self.x = m[pc + 1]; self._nz(self.x); pc += 2
        elif op == 0xA0:
            self.y = m[pc + 1]; self._nz(self.y); pc += 2
        elif op == 0xA9:
            self.a = m[pc + 1]; self._nz(self.a); pc += 2
        elif op == 0xE8:
            self.x = (self.x + 1) & 255; self._nz(self.x); pc += 1
        elif op == 0xC8:
            self.y = (self.y + 1) & 255; self._nz(self.y); pc += 1
        elif op == 0xCA:
            self.x = (self.x - 1) & 255; self._nz(self.x); pc += 1
        elif op == 0x88:
            self.y = (self.y - 1) & 255; self._nz(self.y); pc += 1
        elif op == 0xEA:
            pc += 1
        elif op == 0xAA:
            self.x = self.a; self._nz(self.x); pc += 1
        elif op == 0xA8:
            self.y = self.a; self._nz(self.y); pc += 1
        elif op == 0x8A:
            self.a = self.x; self._nz(self.a); pc += 1
        elif op == 0x98:
            self.a = self.y; self._nz(self.a); pc += 1
        elif op == 0x48:
            m[0x100 + self.sp] = self.a; self.sp = (self.sp - 1) & 255; pc += 1
        elif op == 0x68:
            self.sp = (self.sp + 1) & 255; self.a = m[0x100 + self.sp]; self._nz(self.a); pc += 1
        elif op == 0x20:
            ret = pc + 2
            m[0x100 + self.sp] = ret >> 8; self.sp = (self.sp - 1) & 255
            m[0x100 + self.sp] = ret & 255; self.sp = (self.sp - 1) & 255
            pc = m[pc + 1] | (m[pc + 2] << 8)
            self.depth += 1
            self.esp.append(self.sp)
            self.calls.append(len(self.states) - 1)
        elif op == 0x60:
            self.sp = (self.sp + 1) & 255; lo = m[0x100 + self.sp]
            self.sp = (self.sp + 1) & 255; hi = m[0x100 + self.sp]
            pc = ((lo | (hi << 8)) + 1) & 0xFFFF
            self.depth -= 1
            if self.esp:
                self.esp.pop()
                c = self.calls.pop()
                if pc != self.states[c][0] + 3:       # returns_to_caller on this run (the generator's calls are disciplined)
                    raise ValueError("reference run: the call at instruction %d does not return to the instruction after it" % c)
        elif op == 0x4C:
            pc = m[pc + 1] | (m[pc + 2] << 8)
        elif op in (0xD0, 0xF0):
            taken = (not self.z) if op == 0xD0 else self.z
            off = m[pc + 1]
            nxt = pc + 2
            if taken:
                tgt = (nxt + (off - 256 if off >= 128 else off)) & 0xFFFF
                cyc += 1 + (1 if (tgt >> 8) != (nxt >> 8) else 0)
                pc = tgt
            else:
                pc = nxt
        self.pc = pc
        self.cyc += cyc
        self._snap()

    def ensure(self, i):
        while len(self.states) <= i and not self.final:
            self._step()
        return i < len(self.states)

    def locate(self, cyc, limit=3_000_000):
        """instruction index whose start has this cycle count, or None"""
        while self.cyc < cyc and not self.final and len(self.states) < limit:
            self._step()
        return self.by_cyc.get(cyc)

    def st(self, i):
        self.ensure(i)
        return self.states[i]

    # --- the uninterrupted run's answer to the step commands
    def step_in(self, i):
        return i if self.st(i)[10] == BRK else i + 1

    def first_after(self, i, pred, horizon=200000):
        j = i + 1
        while j - i < horizon:
            if not self.ensure(j):
                return len(self.states) - 1        # the test ends first
            if pred(self.states[j]):
                return j
            j += 1
        return None

    def next(self, i):
        s = self.st(i)
        if s[10] == JSR:
            return self.first_after(i, lambda t: t[8] == s[8])
        return self.step_in(i)

    def step_out(self, i):
        s = self.st(i)
        if s[8] == 0:
            return i                                # no enclosing call: nothing to step out of, nothing executes
        return self.first_after(i, lambda t: t[8] == s[8] - 1)

    def stack_dirty(self, i):
        """the subroutine has pushed something that is still on the stack (statistics only: stepOut from such a stop was
        F-C19b; a failure there is classified by the extracted predicate, see classify())"""
        s = self.st(i)
        return s[9] is not None and s[4] != s[9]


# ------------------------------------------------------------------------------------------------ programs
def gen_program(rng, endless=True, want_calls=True):
    """a self-locating test program: one instruction per line; returns the text.
    Shapes: 0-2 plain subroutines (nested calls), optionally a self-recursive subroutine (called with a depth in Y),
    optionally two segments whose source order is not their address order (test in one, subroutines in the other)."""
    nsub = rng.choice([0, 1, 2, 2]) if want_calls else 0
    recursive = want_calls and rng.random() < 0.4
    layout = rng.choice(["single", "single", "test_high", "subs_first"]) if (nsub or recursive) else "single"
    test = ['.test "t" {', "    ldx #%d" % rng.randrange(0, 3), "    ldy #0"]

    def body(depth_allowed, nitems, subs, keep_y=False):
        out = []
        for _ in range(nitems):
            k = rng.random()
            if k < 0.35:
                out.append("    inx")
            elif k < 0.45:
                out.append("    inx" if keep_y else "    iny")
            elif k < 0.52:
                out.append("    nop")
            elif k < 0.60:
                out.append("    lda #%d" % rng.randrange(1, 200))
            elif k < 0.70:
                inner = ["    " + rng.choice(["inx", "nop", "inx" if keep_y else "iny", "txa"]) for _ in range(rng.randrange(0, 3))]
                if subs and depth_allowed and rng.random() < 0.4:
                    inner.append("    jsr %s" % rng.choice(subs))
                out += ["    pha"] + inner + ["    pla"]
            elif k < 0.80 and not keep_y:
                lab = "l%d" % rng.randrange(10 ** 6)
                out += ["    ldy #%d" % rng.randrange(2, 5), lab + ":", "    dey", "    bne " + lab]
            elif subs and depth_allowed:
                out.append("    jsr %s" % rng.choice(subs))
            else:
                out.append("    inx")
        return out

    subs = ["sub%d" % i for i in range(nsub)]
    test.append("main_loop:")
    main = body(True, rng.randrange(3, 9), subs)
    if subs and not any("jsr" in l for l in main):
        main.insert(rng.randrange(0, len(main) + 1), "    jsr %s" % subs[-1])
    if recursive:
        at = rng.randrange(0, len(main) + 1)
        main[at:at] = ["    ldy #%d" % rng.randrange(2, 5), "    jsr rec"]
    test += main
    test.append("    jmp main_loop" if endless else "    brk")
    code = []
    for i, name in enumerate(subs):
        code.append(name + ":")
        code += body(True, rng.randrange(1, 5), subs[:i])     # sub_i may call sub_j, j < i: nesting
        code.append("    rts")
    if recursive:
        # rec calls itself through one call site until Y reaches 0; the plain subroutines never change Y between
        # the `dey` and the recursive call (the items placed there keep Y)
        code += ["rec:", "    dey", "    beq rec_done"] + body(False, rng.randrange(0, 3), [], keep_y=True) + ["    jsr rec"]
        code += body(False, rng.randrange(0, 2), [], keep_y=True) + ["rec_done:", "    inx", "    rts"]
    if layout == "single":
        lines = test + code + ["}"]
    elif layout == "test_high":          # test at $c100, subroutines (later in the source) at $c000
        lines = ['.define segment { name = "hi" start = $c100 }', '.define segment { name = "lo" start = $c000 }',
                 '.segment "hi" {'] + test + ["}", "}", '.segment "lo" {'] + code + ["}"]
    else:                                # subroutines first in the source but at the higher address
        lines = ['.define segment { name = "lo" start = $c000 }', '.define segment { name = "hi" start = $c100 }',
                 '.segment "hi" {'] + code + ["}", '.segment "lo" {'] + test + ["}", "}"]
    return "\n".join(lines) + "\n"


class Program:
    def __init__(self, text, probe):
        self.text = text
        r = probe.call({"cmd": "asm", "files": {"main.asm": text}, "active_test": "t", "constants": {"TEST": 1}})
        if not r.get("ok") or r.get("errors") or not r.get("banks"):
            raise ValueError("generated program does not assemble: %s" % json.dumps(r)[:400])
        bank = r["banks"][0]
        entry = [v for p, t, v in r["symbols"] if p == "t"][0]
        self.ref = Ref(bank["start"], bytes.fromhex(bank["data"]), entry)
        self.line_of = {}            # address of an instruction -> 1-based source line
        self.addrs_of_line = {}
        for e in r["source_map"]:
            self.line_of[e["pc0"]] = e["line"] + 1
            self.addrs_of_line.setdefault(e["line"] + 1, []).append((e["pc0"], e["pc1"]))
        self.code_lines = sorted(self.addrs_of_line)
        self.key = hashlib.sha1(text.encode()).hexdigest()[:10]

    def bp_addresses(self, lines):
        out = set()
        for l in lines:
            for lo, hi in self.addrs_of_line.get(l, []):
                out.update(range(lo, hi))
        return out


# ------------------------------------------------------------------------------------------------ one session
class Failure(Exception):
    def __init__(self, kind, what, klass=None):
        Exception.__init__(self, what)
        self.kind, self.what, self.klass = kind, what, klass


class Session:
    """drives one debug session from a per-session PRNG; all verdicts from protocol-visible state"""

    def __init__(self, mos, prog, seed, sched, max_us, nreq, max_delay_ms=20.0, script=None, model=None):
        self.mos, self.prog, self.seed, self.sched, self.max_us, self.nreq = mos, prog, seed, sched, max_us, nreq
        self.model = model              # mosmodel_c19: evaluates the Known_* predicates extracted from Coq
        self.rng = random.Random(seed)
        self.max_delay = max_delay_ms / 1000.0
        self.script = script            # fixed list of commands (corpus witnesses) or None = random
        self.failures = []              # (kind, what, klass)
        self.stats = {"requests": 0, "stops": 0, "pauses": 0, "bp_stops": 0, "steps": 0, "stepouts": 0, "continues": 0,
                      "setbps": 0, "queries_running": 0}
        self.stop_records = []          # (command, prev index, index) for distinct counting
        self.trace = []                 # abstract trace for the acceptor
        self.bps = set()                # lines
        self.bp_addr = set()
        self.stable_bp_addr = set()     # breakpoints in force for the whole current run interval
        self.union_bp_addr = set()      # breakpoints in force at some time of the current run interval
        self.epochs = []                # [first index, end index or None, addresses]: breakpoint lists known to be in force
                                        # for the instructions of that index range of the current run interval
        self.bp_changed_running = False
        self.configured = False
        self.cur = None                 # instruction index while stopped
        self.running = False
        self.lo = 0                     # first index that executes in the current run interval
        self.d = None

    # -- helpers
    def fail(self, kind, what, klass=None):
        self.failures.append((kind, what, klass))

    def delay(self):
        r = self.rng.random()
        if r < 0.35:
            return
        t = self.rng.random() * self.max_delay * (0.1 if r < 0.7 else 1.0)
        self.d.pump(t)

    def req(self, command, args=None):
        self.stats["requests"] += 1
        r = self.d.request(command, args, timeout=EVENT_TIMEOUT)
        if r.kind == "timeout":
            raise Failure("hang", "no response to `%s` within %.0f s" % (command, EVENT_TIMEOUT))
        if r.kind == "died":
            raise Failure("died", "the adapter closed the connection during `%s`: %s" % (command, (r.message or "")[-300:]))
        return r

    def expect_stopped(self):
        n, b = self.d.wait_event("stopped", timeout=EVENT_TIMEOUT, also=("terminated",))
        if n is None:
            raise Failure("hang" if b == "timeout" else "died", "no `stopped` event within %.0f s (%s)" % (EVENT_TIMEOUT, b))
        return n, b

    # -- the oracle at a stop
    def inspect(self, command, prev):
        d, ref, prog = self.d, self.prog.ref, self.prog
        self.stats["stops"] += 1
        r1 = d.registers()
        f1 = d.frame()
        self.stats["requests"] += 2
        if not isinstance(r1, dict) or isinstance(f1, dap_client.Reply):
            raise Failure("error", "variables/stackTrace failed while stopped: %r %r" % (r1, f1))
        self.delay()
        r2 = d.registers()
        f2 = d.frame()
        self.stats["requests"] += 2
        extra = self.rng.random()
        idx = ref.locate(r1["CYC"])
        if idx is None and ref.cyc < r1["CYC"] and not ref.final:
            # the machine ran further than the reference run is computed (only without schedule perturbation): the stop
            # cannot be located; the session ends here without a verdict on it
            self.stats["beyond_reference"] = self.stats.get("beyond_reference", 0) + 1
            self.cur = None
            self.running = False
            return None
        if idx is None:
            self.fail("reference", "cycle count %d is not an instruction boundary of the reference run" % r1["CYC"])
            self.cur = None
            return None
        s = ref.st(idx)
        if (r1["A"], r1["X"], r1["Y"]) != (s[1], s[2], s[3]):
            self.fail("reference", "registers %r differ from the reference run at instruction %d: A=%d X=%d Y=%d" % (r1, idx, s[1], s[2], s[3]))
        want_line = prog.line_of.get(s[0])
        # (1) the reported frame's source range contains the CPU's program counter
        if f1 is None:
            self.fail("oracle", "stopped but stackTrace reports no frame (machine at $%04X, line %s)" % (s[0], want_line))
        elif not (f1[0] <= want_line <= f1[1]):
            back = None
            for k in range(1, 6):
                if idx - k >= 0 and prog.line_of.get(ref.st(idx - k)[0]) == f1[0]:
                    back = k
                    break
            self.fail("oracle", "after `%s`: reported frame is line %d but the machine (CYC=%d X=%d) is at line %d%s" % (
                command, f1[0], r1["CYC"], r1["X"], want_line, " (%d instruction(s) behind)" % back if back else ""))
        # (2) halted: nothing changes while stopped
        if r2 != r1 or f2 != f1:
            self.fail("oracle", "state changed while stopped after `%s`: registers %r -> %r, frame %r -> %r" % (command, r1, r2, f1, f2))
        if extra < 0.3:
            e = d.evaluate("cpu.x")
            fl = d.flags()
            self.stats["requests"] += 2
            if e != str(s[2]):
                self.fail("oracle", "evaluate cpu.x = %r but X = %d" % (e, s[2]))
            if isinstance(fl, dict) and (fl["N"], fl["Z"]) != (s[5], s[6]):
                self.fail("reference", "flags N/Z %r differ from the reference run (%r, %r)" % (fl, s[5], s[6]))
        # (3) transitions
        if command in ("launch", "continue", "pause"):
            for k in range(self.lo, idx):
                if ref.st(k)[0] in self.stable_bp_addr:
                    self.fail("oracle", "instruction %d at line %d (breakpoint) executed without a stop there; machine now at instruction %d line %d" % (
                        k, prog.line_of.get(ref.st(k)[0]), idx, want_line), klass=self.self_loop_class(k))
                    break
            for start, end, addrs in self.epochs:
                hi = idx if end is None else min(end, idx)
                bad = next((k for k in range(start, hi) if ref.st(k)[0] in addrs), None)
                if bad is not None:
                    self.fail("oracle", "instruction %d at line %d executed although a breakpoint on it was in force (list acknowledged before "
                              "instruction %d) and no stop was reported; machine now at instruction %d line %d" % (
                                  bad, prog.line_of.get(ref.st(bad)[0]), start, idx, want_line), klass=self.self_loop_class(bad))
                    break
            if idx < self.lo - (1 if prev is not None else 0):
                self.fail("oracle", "machine went backwards: instruction %d after %d" % (idx, prev))
            if command in ("launch", "continue") and s[0] not in self.union_bp_addr:
                self.fail("oracle", "spontaneous stop at line %d, which has no breakpoint" % want_line)
        elif command == "pause_stopped":
            if prev is not None and idx != prev:
                self.fail("oracle", "`pause` while stopped at instruction %d moved the machine to instruction %d" % (prev, idx))
        elif command in ("stepIn", "next", "stepOut") and prev is not None:
            want = {"stepIn": ref.step_in, "next": ref.next, "stepOut": ref.step_out}[command](prev)
            if want is not None and idx != want:
                klass = self.stepout_class(prev) if command == "stepOut" else None
                self.fail("oracle", "`%s` from instruction %d (line %d) must land on instruction %d (line %d) but the machine is at instruction %d (line %d)" % (
                    command, prev, prog.line_of.get(ref.st(prev)[0]), want, prog.line_of.get(ref.st(want)[0]), idx, want_line), klass=klass)
        for n, b in self.d.take_events():     # a second `stopped` for the same halt (pause racing a breakpoint) is consumed here
            self.trace.append(("event", n))
        self.stop_records.append((command, prev, idx))
        self.trace.append(("stopped_at", idx, f1[0] if f1 else None))
        self.cur = idx
        self.running = False
        return idx

    def self_loop_class(self, k):
        return classify(self.model, self.prog, "Known_breakpoint_self_loop", k)

    def stepout_class(self, i):
        c = self.prog.ref.st(i)[12]
        if c is None:
            return None
        return classify(self.model, self.prog, "Known_stepout_stack_dirty", i, call=c)

    # -- commands
    def locate_running(self):
        """position of the (possibly running) machine at the time of a registers request, or None"""
        r = self.d.registers()
        self.stats["requests"] += 1
        if not isinstance(r, dict):
            raise Failure("error", "variables failed: %r" % r)
        return self.prog.ref.locate(r["CYC"])

    def set_breakpoints(self, lines):
        """While the machine runs freely the request is bracketed by two position reads: every instruction before the
        first read ran under the old list; every instruction after the one the machine is at in the second read (its
        breakpoint check may already have passed) runs under the new list, because the response has been received."""
        bracket = self.running and self.configured
        if bracket:
            before = self.locate_running()
            if self.epochs and self.epochs[-1][1] is None:
                self.epochs[-1][1] = before if before is not None else self.epochs[-1][0]
        r = self.req("setBreakpoints", {"source": {"path": self.d.source_path()}, "breakpoints": [{"line": l} for l in lines]})
        self.stats["setbps"] += 1
        if not r.ok:
            raise Failure("error", "setBreakpoints failed: %r" % r)
        got = sorted(b.get("line") for b in r.body["breakpoints"])
        if got != sorted(lines):
            self.fail("oracle", "setBreakpoints(%r) verified lines %r" % (sorted(lines), got))
        new = self.prog.bp_addresses(lines)
        if bracket:
            after = self.locate_running()
            self.stats["setbps_running"] = self.stats.get("setbps_running", 0) + 1
            if after is not None:
                self.epochs.append([after + 1, None, set(new)])
        self.stable_bp_addr = (self.stable_bp_addr & new) if self.running else set(new)
        self.union_bp_addr = (self.union_bp_addr | new) if self.running else set(new)
        self.bp_changed_running = self.running
        self.bps, self.bp_addr = set(lines), new
        self.trace.append(("setbps", sorted(lines)))

    def bp_reachable(self, frm, horizon=4000):
        """a stop at a breakpoint is certain: reachable from `frm`, and (when the breakpoints were replaced while the
        machine was running, position unknown) also from well inside the periodic part of the program"""
        if self.bp_changed_running and frm < self.lo + 2000:
            return self.bp_reachable(frm, horizon) if False else (self._reach(frm, horizon) and self._reach(self.lo + 2000, horizon))
        return self._reach(frm, horizon)

    def _reach(self, frm, horizon=4000):
        ref = self.prog.ref
        for k in range(frm, frm + horizon):
            if not ref.ensure(k):
                return False
            if ref.states[k][0] in self.bp_addr:
                return True
        return False

    def resume(self):
        r = self.req("continue", {"threadId": 1})
        self.stats["continues"] += 1
        if not r.ok:
            raise Failure("error", "continue failed: %r" % r)
        self.trace.append(("continue",))
        self.lo = self.cur + 1 if self.cur is not None else 0
        self.stable_bp_addr = set(self.bp_addr)
        self.union_bp_addr = set(self.bp_addr)
        self.epochs = [[self.lo, None, set(self.bp_addr)]]
        self.bp_changed_running = False
        self.running = True

    def do_pause(self):
        r = self.req("pause", {"threadId": 1})
        if not r.ok:
            raise Failure("error", "pause failed: %r" % r)
        self.stats["pauses"] += 1
        self.trace.append(("pause",))
        n, _ = self.expect_stopped()
        if n == "terminated":
            return None
        return self.inspect("pause" if self.running else "pause_stopped", self.cur)

    def do_step(self, command):
        prev = self.cur
        r = self.req(command, {"threadId": 1})
        if not r.ok:
            raise Failure("error", "%s failed: %r" % (command, r))
        self.stats["steps"] += 1
        if prev is not None and self.prog.ref.st(prev)[8] >= 2:
            self.stats["steps_from_nested_activation"] = self.stats.get("steps_from_nested_activation", 0) + 1
        if command == "stepOut":
            self.stats["stepouts"] += 1
            if prev is not None and self.prog.ref.stack_dirty(prev):
                self.stats["stepouts_dirty_stack"] = self.stats.get("stepouts_dirty_stack", 0) + 1
        self.trace.append((command,))
        n, _ = self.expect_stopped()
        if n == "terminated":
            return None
        return self.inspect(command, prev)

    def wait_bp_stop(self, command):
        n, _ = self.expect_stopped()
        if n == "terminated":
            return None
        self.stats["bp_stops"] += 1
        return self.inspect(command, self.cur)

    # -- the session
    def run(self):
        env = {}
        if self.sched is not None:
            env["MOS_VERIF_SCHED"] = str(self.sched)
            env["MOS_VERIF_SCHED_MAX_US"] = str(self.max_us)
        workdir = os.path.join(common.CACHE, "work")
        os.makedirs(workdir, exist_ok=True)
        try:
            self.d = dap_client.DapSession(self.mos, self.prog.text, env=env, workdir=workdir)
        except Exception as e:
            self.fail("harness", "could not start a debug session: %s" % e)
            return self
        try:
            with self.d:
                self._drive()
        except Failure as f:
            self.fail(f.kind, f.what, f.klass)
        self.log = self.d.log
        return self

    def _drive(self):
        rng, prog = self.rng, self.prog
        d = self.d
        first_bps = []
        if self.script is not None:
            first_bps = self.script[0][1]
        elif rng.random() < 0.7:
            first_bps = rng.sample(prog.code_lines, rng.randrange(1, min(4, len(prog.code_lines)) + 1))
        r = d.request("initialize", {"adapterID": "mos", "linesStartAt1": True, "columnsStartAt1": True})
        r2 = d.request("launch", {"workspace": d.dir, "testRunner": {"testCaseName": "t"}})
        if not (r.ok and r2.ok):
            raise Failure("error", "initialize/launch failed: %r %r" % (r, r2))
        self.set_breakpoints(first_bps)
        self.stable_bp_addr = set(self.bp_addr)
        self.union_bp_addr = set(self.bp_addr)
        if self.script is not None and len(self.script) > 1 and self.script[1][0] == "early":
            # run control before configurationDone must be refused with an error response and leave the session alive
            for cmd in self.script[1][1]:
                r = self.req(cmd, {"threadId": 1})
                if r.kind != "error":
                    self.fail("oracle", "`%s` before configurationDone was answered %r instead of an error response" % (cmd, r))
            self.script = [self.script[0]] + self.script[2:]
        elif self.script is None and self.rng.random() < 0.15:
            for cmd in self.rng.sample(["pause", "continue", "next", "stepIn", "stepOut"], self.rng.randrange(1, 3)):
                r = self.req(cmd, {"threadId": 1})
                if r.kind != "error":
                    self.fail("oracle", "`%s` before configurationDone was answered %r instead of an error response" % (cmd, r))
                self.stats["early_run_control"] = self.stats.get("early_run_control", 0) + 1
        r = self.req("configurationDone", None)
        if not r.ok:
            raise Failure("error", "configurationDone failed: %r" % r)
        self.trace.append(("configurationDone",))
        self.running, self.lo, self.cur = True, 0, None
        self.configured = True
        self.epochs = [[0, None, set(self.bp_addr)]]
        if self.bp_reachable(0):
            self.wait_bp_stop("launch")
        if self.script is not None:
            for cmd in self.script[1:]:
                self._do(cmd[0], cmd[1] if len(cmd) > 1 else None)
            return
        while self.stats["requests"] < self.nreq and not self.prog.ref.final:
            self.delay()
            if self.running:
                k = rng.random()
                if k < 0.50 or (k >= 0.80 and not self.bp_reachable(self.lo)):
                    if k > 0.9:
                        self._query_running()
                    self._do("pause")
                elif k < 0.76:
                    self._do("setBreakpoints", rng.sample(prog.code_lines, rng.randrange(0, 3)))
                    self.delay()
                    if self.bp_reachable(self.lo) and rng.random() < 0.3:
                        self.wait_bp_stop("continue")     # the new list must stop the free run
                    else:
                        self._do("pause")                 # ... or at least nothing on it may have executed meanwhile
                elif k < 0.84:
                    self._query_running()
                else:
                    self.wait_bp_stop("continue")
            else:
                if self.cur is None:
                    break
                k = rng.random()
                s = prog.ref.st(self.cur)
                if s[10] == JSR and k < 0.5:
                    self._do("stepIn" if k < 0.3 else "next")
                elif s[8] > 0 and k < 0.35:
                    self._do("stepOut")
                elif k < 0.34:
                    self._do("continue")
                    if self.bp_reachable(self.lo) and rng.random() < 0.75:
                        self.delay()
                        self.wait_bp_stop("continue")
                elif k < 0.52:
                    self._do("stepIn")
                elif k < 0.70:
                    self._do("next")
                elif k < 0.82 and (s[8] > 0 or k > 0.79):
                    self._do("stepOut")
                elif k < 0.92:
                    self._do("setBreakpoints", rng.sample(prog.code_lines, rng.randrange(0, 4)))
                else:
                    self._do("pause")

    def _query_running(self):
        self.stats["queries_running"] += 1
        r = self.d.registers()
        f = self.d.frame()
        self.stats["requests"] += 2
        if isinstance(r, dap_client.Reply) or isinstance(f, dap_client.Reply):
            raise Failure("error", "variables/stackTrace failed while running: %r %r" % (r, f))

    def _do(self, cmd, arg=None):
        if cmd == "pause":
            return self.do_pause()
        if cmd == "continue":
            return self.resume()
        if cmd in ("stepIn", "next", "stepOut"):
            return self.do_step(cmd)
        if cmd == "setBreakpoints":
            return self.set_breakpoints(arg)
        if cmd == "wait":
            return self.wait_bp_stop("continue")
        if cmd == "sleep":
            return self.d.pump(arg / 1000.0)
        raise ValueError(cmd)


def classify(model, prog, klass, index, call=None):
    """name of the known class if its predicate (extracted from Coq, model/DapStep.v) holds at `index` of the run"""
    if model is None:
        return None
    ref = prog.ref
    ref.ensure(index + 2)
    st = ref.states[:index + 3]
    r = model.call({"cmd": "classify", "class": klass, "index": index, "call": call if call is not None else 0,
                    "pc": [t[0] for t in st], "ret": [t[11] for t in st]})
    return klass if r.get("holds") is True else None


# ------------------------------------------------------------------------------------------------ trace inclusion
ACCEPT_MAX_INDEX = 40000


def trace_items(prog, log):
    """the protocol-visible trace in the vocabulary of model/Dap.v; returns (items, highest instruction index seen)"""
    items, kinds, top = [], {}, 0
    for e in log:
        if e[0] == "req":
            _, seq, cmd, args = e
            if cmd in ("initialize", "launch"):
                continue
            if cmd == "setBreakpoints":
                rng = []
                for b in args["breakpoints"]:
                    rng += [[lo, hi] for lo, hi in prog.addrs_of_line.get(b["line"], [])]
                kinds[seq] = "setBreakpoints"
                items.append(["req", "setBreakpoints", rng])
            elif cmd == "variables":
                kinds[seq] = "registers" if args["variablesReference"] == 1 else "flags"
                items.append(["req", "registers", None])
            elif cmd in ("configurationDone", "continue", "pause", "stepIn", "next", "stepOut", "stackTrace", "evaluate"):
                kinds[seq] = cmd
                items.append(["req", cmd, None])
            else:
                raise ValueError("request outside the modelled vocabulary: " + cmd)
        elif e[0] == "resp":
            _, seq, cmd, ok, body, msg = e
            if seq not in kinds:
                continue
            kind = kinds[seq]
            if not ok:
                if kind in ("continue", "pause", "stepIn", "next", "stepOut"):
                    items.append(["resp", kind, "error"])
                    continue
                raise ValueError("error response to %s: %s" % (cmd, msg))
            payload = None
            if kind == "registers":
                cyc = [int(v["value"]) for v in body["variables"] if v["name"] == "CYC"][0]
                payload = prog.ref.locate(cyc)
                if payload is None:
                    raise ValueError("cycle count %d not on the reference run" % cyc)
                top = max(top, payload)
            elif kind == "stackTrace":
                fr = body.get("stackFrames") or []
                if fr:
                    rs = prog.addrs_of_line.get(fr[0]["line"])
                    if not rs:
                        raise ValueError("frame on line %d, which holds no instruction" % fr[0]["line"])
                    payload = rs[0][0]
            items.append(["resp", "registers" if kind == "flags" else kind, payload])
        elif e[0] == "event":
            name, body = e[1], e[2]
            if name == "initialized":
                continue
            if name == "stopped":
                name = "stopped_" + body["reason"]
            items.append(["event", name])
    return items, top


def accept_trace(model, prog, log, protocol="StateHeld", reset_lcp=True):
    """(accepted?, detail) -- None when the session is too long for the acceptor"""
    items, top = trace_items(prog, log)
    if top > ACCEPT_MAX_INDEX:
        return None, "skipped: %d instructions" % top
    ref = prog.ref
    ref.ensure(top + 600)
    st = ref.states[:top + 600]
    r = model.call({"cmd": "accept", "protocol": protocol, "reset_lcp": reset_lcp, "fuel": 100000, "items": items,
                    "pc": [t[0] for t in st], "sp": [t[4] for t in st], "op": [t[10] for t in st], "ret": [t[11] for t in st]}, timeout=120)
    if r.get("accepted") is True:
        return True, r
    if "accepted" in r:
        k = r.get("at", -1)
        r["around"] = items[max(0, k - 6):k + 3]
    return False, r


# ------------------------------------------------------------------------------------------------ corpus witnesses
PAUSE_LOOP = '.test "t" {\n    ldx #0\nloop:\n    inx\n    inx\n    inx\n    jmp loop\n}\n'
STEPOUT_PHA = '.test "t" {\n    ldx #0\n    lda #7\n    jsr sub\n    inx\n    brk\nsub:\n    pha\n    nop\n    pla\n    rts\n}\n'
RECURSIVE = '.test "t" {\n    ldy #3\n    jsr rec\n    brk\nrec:\n    dey\n    beq done\n    jsr rec\ndone:\n    inx\n    rts\n}\n'
SELF_LOOP = '.test "t" {\n    ldx #0\n    inx\nhang:\n    jmp hang\n}\n'


def corpus_sessions(mos, probe, rng, model=None):
    """(name, Session) for the recorded witnesses; run first"""
    out = []
    p = Program(PAUSE_LOOP, probe)
    for i in range(3):
        script = [("setBreakpoints", [])] + [("pause",), ("continue",)] * 12
        out.append(("pause_loop", Session(mos, p, rng.randrange(1 << 30), rng.randrange(1 << 30), 1500, 0, script=script, model=model)))
    out.append(("pause_loop_nosched", Session(mos, p, rng.randrange(1 << 30), None, 0, 0,
                                              script=[("setBreakpoints", [])] + [("pause",), ("continue",)] * 12, model=model)))
    p = Program(STEPOUT_PHA, probe)
    out.append(("stepout_after_pha", Session(mos, p, rng.randrange(1 << 30), None, 0, 0,
                                             script=[("setBreakpoints", [9]), ("stepOut",)], model=model)))
    p2 = Program(SELF_LOOP, probe)
    out.append(("self_loop", Session(mos, p2, rng.randrange(1 << 30), rng.randrange(1 << 30), 1500, 0,
                                     script=[("setBreakpoints", [5]), ("continue",), ("sleep", 200), ("pause",)] + [("continue",), ("wait",)] * 3, model=model)))
    p3 = Program(RECURSIVE, probe)
    out.append(("recursive_next", Session(mos, p3, rng.randrange(1 << 30), None, 0, 0,
                                          script=[("setBreakpoints", [8]), ("next",), ("stepOut",), ("stepOut",)], model=model)))
    out.append(("recursive_stepout", Session(mos, p3, rng.randrange(1 << 30), None, 0, 0,
                                             script=[("setBreakpoints", [10]), ("stepOut",), ("stepOut",), ("stepOut",), ("stepOut",)], model=model)))
    pl = Program(PAUSE_LOOP, probe)
    out.append(("setbps_while_running", Session(mos, pl, rng.randrange(1 << 30), rng.randrange(1 << 30), 1500, 0,
                                                script=[("setBreakpoints", []), ("sleep", 120), ("setBreakpoints", [5]), ("sleep", 120), ("pause",),
                                                        ("setBreakpoints", []), ("continue",), ("sleep", 120), ("setBreakpoints", [6]), ("wait",)],
                                                model=model)))
    out.append(("early_requests", Session(mos, p, rng.randrange(1 << 30), None, 0, 0,
                                          script=[("setBreakpoints", [8]), ("early", ["pause", "continue", "next", "stepIn", "stepOut"]),
                                                  ("stepIn",), ("stepOut",)], model=model)))
    out.append(("stepout_clean", Session(mos, p, rng.randrange(1 << 30), None, 0, 0,
                                         script=[("setBreakpoints", [8]), ("stepOut",)], model=model)))
    return out


def launch_without_toml(chk, mos):
    """`launch` in a workspace without mos.toml is answered with an error response and the adapter keeps serving"""
    workdir = os.path.join(common.CACHE, "work")
    os.makedirs(workdir, exist_ok=True)
    try:
        with dap_client.DapSession(mos, PAUSE_LOOP, workdir=workdir) as d:
            os.remove(os.path.join(d.dir, "mos.toml"))
            r0 = d.request("initialize", {"adapterID": "mos", "linesStartAt1": True, "columnsStartAt1": True}, timeout=EVENT_TIMEOUT)
            r1 = d.request("launch", {"workspace": d.dir, "testRunner": {"testCaseName": "t"}}, timeout=EVENT_TIMEOUT)
            r2 = d.request("initialize", {"adapterID": "mos"}, timeout=EVENT_TIMEOUT)
            if not (r0.ok and r1.kind == "error" and r2.ok):
                chk.oracle_failure(None, "[launch_without_toml] launch without mos.toml: initialize %s, launch %s, next request %s "
                                   "(expected ok, error, ok)" % (r0.kind, r1.kind, r2.kind),
                                   {"name": "launch_without_toml", "responses": [repr(r0), repr(r1), repr(r2)]})
    except Exception as e:
        chk.tie_break("correspondence:harness", "launch_without_toml could not run: %s" % e)


# ------------------------------------------------------------------------------------------------ run
def absorb(chk, name, s, dist, distinct, model, protocol=("StateHeld", True)):
    for k, v in s.stats.items():
        dist[k] = dist.get(k, 0) + v
    # trace inclusion: the recorded trace must be a behaviour of the protocol model
    hard = [f for f in s.failures if f[0] in ("hang", "died", "error", "harness")]
    if hasattr(s, "log") and not hard:
        try:
            ok, det = accept_trace(model, s.prog, s.log, protocol[0], protocol[1])
        except ValueError as e:
            ok, det = False, {"why": str(e)}
        if ok is None:
            dist["accept_skipped"] = dist.get("accept_skipped", 0) + 1
        elif ok:
            dist["accepted_traces"] = dist.get("accepted_traces", 0) + 1
            dist["model_actions"] = dist.get("model_actions", 0) + det.get("actions", 0)
        else:
            s.failures.append(("trace-inclusion", "the recorded DAP trace is not a behaviour of the protocol model: %s" % json.dumps(det)[:600], None))
    for rec in s.stop_records:
        key = (s.prog.key,) + rec
        if key not in distinct:
            distinct.add(key)
            chk.count(1, 1)
        else:
            chk.count(1, 0)
    replay = {"name": name, "program": s.prog.text, "session_seed": s.seed, "sched": s.sched, "max_us": s.max_us,
              "nreq": s.nreq, "script": s.script, "log": getattr(s, "log", [])[-80:]}
    for kind, what, klass in s.failures:
        dist["disagreements"] = dist.get("disagreements", 0) + 1
        if kind == "oracle" or kind in ("hang", "died", "error"):
            chk.oracle_failure(klass, "[%s] %s" % (name, what), dict(replay, what=what))
        else:
            chk.tie_break("correspondence:" + kind, "[%s] %s" % (name, what), dict(replay, what=what))


def run(chk):
    rng = random.Random(chk.seed)
    tr = common.translate_for(chk, ["dap"])          # lock structure + event table -> Gen/DapShape.v (ShapeError = broken tie)
    protocol = (tr.get("dap", {}).get("protocol") or "StateHeld", tr.get("dap", {}).get("reset_lcp", True))
    chk.proof = common.prove("C19")
    probe = Proc([common.build_probe()])
    model = Proc([common.build_model("c19")], timeout=180)
    mos = common.build_mos()
    thorough = chk.tier == "thorough"
    nsessions = 1000 if thorough else 150
    dist, distinct = {"sessions": 0, "sessions_sched": 0}, set()
    t0 = time.time()
    for name, s in corpus_sessions(mos, probe, rng, model):
        s.run()
        dist["sessions"] += 1
        absorb(chk, name, s, dist, distinct, model, protocol)
    launch_without_toml(chk, mos)
    budget = 1100 if thorough else 120
    for i in range(nsessions):
        if time.time() - t0 > budget:
            log("time budget reached after %d sessions" % i)
            break
        prog = Program(gen_program(rng, endless=True, want_calls=rng.random() < 0.8), probe)
        sched = rng.randrange(1 << 30) if rng.random() < 0.75 else None
        s = Session(mos, prog, rng.randrange(1 << 30), sched, rng.choice([150, 1500, 1500]),
                    rng.randrange(12, 26) * 4 if sched is not None else rng.randrange(8, 16) * 4,
                    max_delay_ms=20.0 if sched is not None else 6.0, model=model)
        s.run()
        dist["sessions"] += 1
        dist["sessions_sched"] += 1 if sched is not None else 0
        dist["programs_recursive"] = dist.get("programs_recursive", 0) + (1 if "rec:" in prog.text else 0)
        dist["programs_segments_out_of_order"] = dist.get("programs_segments_out_of_order", 0) + (1 if ".segment" in prog.text else 0)
        absorb(chk, "random%d" % i, s, dist, distinct, model, protocol)
        if i < 2:
            chk.sample({"program": prog.text, "sched": sched, "stops": s.stop_records[:8]})
    probe.stop()
    model.stop()
    if thorough:
        # independent re-check of props/C19.vo and everything it depends on (measured: 2 min 15 s)
        with common.Lock("coq"):
            rc, out = common.run(["coqchk", "-o", "-silent", "-Q", "theories", "Mos", "Mos.props.C19"], cwd=common.COQ, timeout=1500)
        chk.extra["coqchk"] = {"rc": rc, "tail": out[-300:]}
        if rc != 0 or "Axioms: <none>" not in out:
            chk.tie_break("coqchk", "coqchk does not accept props/C19.vo without axioms: %s" % out[-800:])
    chk.cov["rule"] = ("one evaluation = one inspected stop of a real debug session (registers read twice, frame read twice, compared with "
                       "the reference run located by the CYC counter); distinct = distinct (program, command, previous instruction index, "
                       "instruction index); every one is non-trivial (a stop reached through pause / breakpoint / step on a program with loops)")
    chk.extra["distribution"] = dist
    chk.assumptions = ["the 6502 subset interpreter of the oracle (19 opcodes, documented cycle counts) agrees with emulator_6502: checked at "
                       "every stop (registers and cycle count must lie on the reference run)",
                       "line <-> address map taken from mos-core's source map via mosprobe (its exactness is C11's subject)",
                       "client discipline: step commands only while stopped; run-control requests only after configurationDone"]
    return chk.finish(extra_trusted=["drivers/dap_client.py (DAP framing, event collection), drivers/lsp_client.py (process management)",
                                     "hook H3 (mos/src/verif_sched.rs): sleeps only, touches no adapter state"])


def replay(chk, path):
    obj = json.load(open(path))["replay"]
    probe = Proc([common.build_probe()])
    model = Proc([common.build_model("c19")], timeout=180)
    mos = common.build_mos()
    prog = Program(obj["program"], probe)
    n = 0
    for i in range(10):
        s = Session(mos, prog, obj["session_seed"], obj["sched"], obj["max_us"], obj["nreq"],
                    script=[tuple(x) for x in obj["script"]] if obj.get("script") else None, model=model)
        s.run()
        for f in s.failures:
            n += 1
            print(json.dumps({"attempt": i, "failure": f}))
    print(json.dumps({"attempts": 10, "failures": n}))
    probe.stop()
    model.stop()
    return 0

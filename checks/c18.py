"""C18 -- unit-test verdicts reflect the emulated machine state.

Per generated project (G-test):
  implementation : the real `mos test` (stdout + exit status) and, through `mos verif-probe testrun` (hook H2), the
                   runner's element list, the machine state before every instruction, the result and the final RAM
  model          : extracted model/TestRun.v over spec/Cpu6502.v, fed with the implementation's element list
  oracle         : extracted spec/TestSpec.v (spec_test) over the image assembled by mosprobe (mos-core only) and
                   the assertions as the GENERATOR placed them (pc of a marker label, lexical scope, expression
                   text, line/column) -- independent of the runner and of the bin crate
"""
import json
import os
import random
import re
import shutil
import subprocess
import tempfile

import common
from common import Proc, log

FUEL = 30000
ZP_LO, ZP_HI = 0x10, 0x6F
FLAGS = {"carry": 1, "zero": 2, "interrupt_disable": 4, "decimal": 8, "overflow": 64, "negative": 128}


# ----------------------------------------------------------------------------------------------- generator
class TestGen:
    """one test body: block-structured so that every run reaches the final brk (loops count down a dedicated
    counter, branches and jumps go forward, subroutines only call later subroutines, stack use is paired)"""

    def __init__(self, rng, name, uid, budget):
        self.rng, self.name, self.uid = rng, name, uid
        self.budget = budget          # static instruction budget
        self.lines = []               # (indent, text) or ("slot", id, scope_names)
        self.nlabel = 0
        self.nslot = 0
        self.scope = []               # lexical scope names (None for anonymous)
        self.consts = []              # (scope tuple, name, value)
        self.kinds = {}
        self.nsubs = rng.choice([0, 0, 1, 1, 2])
        self.loop_depth = 0
        self.iter_product = 1
        self.in_loop_slots = set()
        self.sub_slots = set()
        self.top_used = False

    def lab(self, p):
        self.nlabel += 1
        return "%s%d_%d" % (p, self.uid, self.nlabel)

    def count(self, k):
        self.kinds[k] = self.kinds.get(k, 0) + 1

    def emit(self, text, kind=None):
        self.lines.append((len(self.scope) + 1, text))
        if kind:
            self.count(kind)
            self.budget -= 1

    def slot(self, force=False, p=0.45):
        if force or self.rng.random() < p:
            self.nslot += 1
            sid = "q%d_%d" % (self.uid, self.nslot)
            self.lines.append(("slot", sid, list(self.scope), len(self.scope) + 1))
            if self.loop_depth:
                self.in_loop_slots.add(sid)
            return sid
        return None

    # ---- single instructions
    def data_ref(self):
        return "%s+%d" % (self.rng.choice(self.data_labels), self.rng.randrange(0, 6))

    def zp(self):
        return "$%02x" % self.rng.randrange(ZP_LO, ZP_HI)

    def imm(self):
        return "#%s" % self.rng.choice(["$%02x" % self.rng.randrange(256), str(self.rng.randrange(256)), "$00", "$ff", "$80", "$7f", "1",
                                        "<" + self.data_labels[0], ">" + self.data_labels[0]])

    def read_operand(self, allow_imm=True, xy="xy"):
        r = self.rng.random()
        d = self.rng.choice(self.data_labels)
        opts = []
        if allow_imm:
            opts += [self.imm()] * 3
        opts += [self.zp(), self.zp(), self.data_ref(), self.data_ref()]
        if "x" in xy:
            opts += [self.zp() + ",x", d + ",x"]
        if "y" in xy:
            opts += [d + ",y"]
        if xy == "xy":
            opts += ["($f0),y", "($f2),y", "($f0,x)"]
        return self.rng.choice(opts)

    def instruction(self, reserved):
        """emit one random instruction (sometimes a short fixed group) that does not write a reserved register"""
        rng = self.rng
        for _ in range(50):
            k = rng.choice(["load", "load", "store", "store", "transfer", "incdec", "incdec", "logic", "arith", "arith", "compare",
                            "bit", "shift", "flag", "stack", "nop", "rmw", "idxstore", "topstore"])
            if k == "load":
                m = rng.choice(["lda", "ldx", "ldy"])
                if {"lda": "a", "ldx": "x", "ldy": "y"}[m] in reserved:
                    continue
                if m == "lda":
                    op = self.read_operand()
                elif m == "ldx":
                    op = rng.choice([self.imm(), self.zp(), self.data_ref(), self.zp() + ",y", self.rng.choice(self.data_labels) + ",y"])
                else:
                    op = rng.choice([self.imm(), self.zp(), self.data_ref(), self.zp() + ",x", self.rng.choice(self.data_labels) + ",x"])
                self.emit("%s %s" % (m, op), "load")
                return
            if k == "store":
                m = rng.choice(["sta", "stx", "sty"])
                d = rng.choice(self.data_labels)
                if m == "sta":
                    op = rng.choice([self.zp(), self.data_ref(), d + ",x", d + ",y", "($f0),y", "($f2),y"])
                elif m == "stx":
                    op = rng.choice([self.zp(), self.data_ref()])
                else:
                    op = rng.choice([self.zp(), self.data_ref()])
                self.emit("%s %s" % (m, op), "store")
                return
            if k == "topstore":
                # the last bytes of the address space (the IRQ/BRK vector); absolute, never indexed
                m = rng.choice(["sta", "stx", "sty", "inc", "lda", "ora"])
                if m in ("lda", "ora") and "a" in reserved:
                    continue
                self.emit("%s $%04x" % (m, rng.choice([0xFFFF, 0xFFFE, 0xFFFE, 0xFFFD, 0xFFFC])), "topstore")
                self.top_used = True
                return
            if k == "idxstore":
                # indexed zero-page / (zp,x) stores with a known index, so that pointers and counters stay intact
                if "x" in reserved or self.budget < 2:
                    continue
                kx = rng.randrange(0, 8)
                self.emit("ldx #%d" % kx, "load")
                m = rng.choice(["sta $%02x,x" % rng.randrange(ZP_LO, ZP_HI - 8), "sty $%02x,x" % rng.randrange(ZP_LO, ZP_HI - 8),
                                "inc $%02x,x" % rng.randrange(ZP_LO, ZP_HI - 8), "sta ($%02x,x)" % (0xF0 - kx), "asl $%02x,x" % rng.randrange(ZP_LO, ZP_HI - 8)])
                self.emit(m, "store")
                return
            if k == "transfer":
                m = rng.choice(["tax", "tay", "txa", "tya", "tsx"])
                if {"tax": "x", "tay": "y", "txa": "a", "tya": "a", "tsx": "x"}[m] in reserved:
                    continue
                self.emit(m, "transfer")
                return
            if k == "incdec":
                m = rng.choice(["inx", "iny", "dex", "dey"])
                if m[2] in reserved:
                    continue
                self.emit(m, "incdec")
                return
            if k == "rmw":
                m = rng.choice(["inc", "dec"])
                d = rng.choice(self.data_labels)
                self.emit("%s %s" % (m, rng.choice([self.zp(), self.data_ref(), d + ",x"])), "incdec")
                return
            if k == "logic":
                if "a" in reserved:
                    continue
                self.emit("%s %s" % (rng.choice(["and", "ora", "eor"]), self.read_operand()), "logic")
                return
            if k == "arith":
                if "a" in reserved:
                    continue
                if rng.random() < 0.5 and self.budget >= 2:
                    self.emit(rng.choice(["clc", "sec"]), "flag")
                self.emit("%s %s" % (rng.choice(["adc", "sbc"]), self.read_operand()), "arith")
                return
            if k == "compare":
                m = rng.choice(["cmp", "cmp", "cpx", "cpy"])
                op = self.read_operand() if m == "cmp" else rng.choice([self.imm(), self.zp(), self.data_ref()])
                self.emit("%s %s" % (m, op), "compare")
                return
            if k == "bit":
                self.emit("bit %s" % rng.choice([self.zp(), self.data_ref()]), "bit")
                return
            if k == "shift":
                m = rng.choice(["asl", "lsr", "rol", "ror"])
                d = rng.choice(self.data_labels)
                op = rng.choice(["", "", self.zp(), self.data_ref(), d + ",x"])
                if op == "" and "a" in reserved:
                    continue
                self.emit(("%s %s" % (m, op)).strip(), "shift")
                return
            if k == "flag":
                m = rng.choice(["clc", "sec", "cli", "sei", "clv", "cld", "sedcld"])
                if m == "sedcld":
                    if self.budget < 2:
                        continue
                    self.emit("sed", "flag")
                    self.slot(p=0.5)
                    self.emit("cld", "flag")
                else:
                    self.emit(m, "flag")
                return
            if k == "stack":
                if self.budget < 3:
                    continue
                pair = rng.choice([("pha", "pla"), ("php", "plp"), ("php", "pla")])
                if pair[1] == "pla" and "a" in reserved:
                    continue
                self.emit(pair[0], "stack")
                self.slot()
                inner = rng.randrange(0, 3)
                for _ in range(inner):
                    if self.budget > 2:
                        self.instruction(reserved | ({"sp"}))
                        self.slot(p=0.3)
                self.emit(pair[1], "stack")
                return
            if k == "nop":
                self.emit("nop", "nop")
                return
        self.emit("nop", "nop")

    # ---- structures
    def block(self, reserved, depth, n):
        """n items; each an instruction or a nested structure"""
        rng = self.rng
        for _ in range(n):
            if self.budget <= 3:
                break
            r = rng.random()
            if r < 0.60 or depth >= 3:
                self.instruction(reserved)
            elif r < 0.72:
                self.loop(reserved, depth)
            elif r < 0.80:
                self.skip(reserved, depth)
            elif r < 0.87 and self.subs:
                self.call(reserved)
            elif r < 0.93:
                self.scoped(reserved, depth)
            elif r < 0.97:
                self.unrolled(reserved)
            else:
                self.jump(reserved, depth)
            self.slot()

    def loop(self, reserved, depth):
        rng = self.rng
        room = 300 // self.iter_product
        if room < 2 or self.budget < 6:
            self.instruction(reserved)
            return
        n = rng.choice([2, 2, 3, 3, 5, 8, rng.randrange(2, 40), rng.randrange(2, 301)])
        n = max(2, min(n, room))
        kind = rng.choice(["mem", "mem", "x", "y"])
        if kind in reserved or (kind == "mem" and "a" in reserved):
            kind = "mem" if "a" not in reserved else None
        if kind is None:
            self.instruction(reserved)
            return
        top = self.lab("l")
        self.count("loop")
        if kind == "mem":
            cell = "$%02x" % (0x80 + self.loop_depth)
            self.emit("lda #%d" % (n % 256), "load")
            self.emit("sta %s" % cell, "store")
            res2 = set(reserved)
        else:
            self.emit("ld%s #%d" % (kind, n % 256), "load")
            res2 = set(reserved) | {kind}
        self.lines.append((len(self.scope) + 1, top + ":"))
        self.loop_depth += 1
        self.iter_product *= n
        start_budget = self.budget
        self.slot(p=0.6)
        self.block(res2, depth + 1, rng.randrange(1, 4))
        self.slot(p=0.6)
        self.loop_depth -= 1
        self.iter_product //= n
        if kind == "mem":
            self.emit("dec %s" % cell, "incdec")
        else:
            self.emit("de%s" % kind, "incdec")
        self.emit("bne %s" % top, "branch")

    def skip(self, reserved, depth):
        rng = self.rng
        end = self.lab("k")
        self.emit("%s %s" % (rng.choice(["bcc", "bcs", "beq", "bne", "bmi", "bpl", "bvc", "bvs"]), end), "branch")
        self.slot(p=0.5)
        self.block(reserved, depth + 1, rng.randrange(1, 3))
        self.lines.append((len(self.scope) + 1, end + ":"))

    def jump(self, reserved, depth):
        rng = self.rng
        end = self.lab("j")
        if rng.random() < 0.4 and self.ptrs is not None:
            self.ptrs.append(end)
            self.emit("jmp (%sp%d)" % (self.pfx, len(self.ptrs) - 1), "jump")
        else:
            self.emit("jmp %s" % end, "jump")
        # dead code, with an assertion slot that is never reached
        self.slot(p=0.4)
        self.emit(rng.choice(["lda #$ee", "inx", "sta $10", "nop"]), "nop")
        self.lines.append((len(self.scope) + 1, end + ":"))

    def call(self, reserved):
        ok = [s for s in self.subs if not (s["writes"] & reserved)]
        if not ok:
            self.instruction(reserved)
            return
        s = self.rng.choice(ok)
        s["calls"] = s.get("calls", 0) + 1
        self.emit("jsr %s" % s["name"], "jsr")

    def unrolled(self, reserved):
        """an assembly-time `.loop`: one instruction per iteration, assertions inside see `index` of their iteration"""
        rng = self.rng
        k = rng.randrange(2, 5)
        if self.budget < k + 2:
            self.instruction(reserved)
            return
        opts = [("inx", 1, "x"), ("iny", 1, "y"), ("dex", 1, "x"), ("dey", 1, "y"), ("nop", 1, None), ("clc", 1, None),
                ("inc $%02x" % rng.randrange(ZP_LO, ZP_HI), 2, None), ("asl", 1, "a"), ("sta $%02x" % rng.randrange(ZP_LO, ZP_HI), 2, None)]
        opts = [o for o in opts if o[2] not in reserved]
        ins, ln, _ = rng.choice(opts)
        marker = self.slot(force=True)
        self.nslot += 1
        lsid = "L%d_%d" % (self.uid, self.nslot)
        uname = "u%d_%d" % (self.uid, self.nslot)
        d = len(self.scope) + 1
        self.lines.append((d, ".loop %d {" % k))
        self.lines.append((d + 1, ".const %s = index" % uname))
        self.lines.append((d + 1, ins))
        self.lines.append(("loopslot", lsid, list(self.scope), d + 1, {"k": k, "len": ln, "marker": marker, "uname": uname, "ins": ins}))
        self.lines.append((d, "}"))
        self.budget -= k
        self.kinds["unrolled"] = self.kinds.get("unrolled", 0) + 1
        if self.loop_depth:
            self.in_loop_slots.add(lsid)

    def scoped(self, reserved, depth):
        rng = self.rng
        named = rng.random() < 0.6
        name = self.lab("s") if named else None
        self.lines.append((len(self.scope) + 1, (name + ": {") if named else "{"))
        self.scope.append(name)
        self.count("scope")
        if rng.random() < 0.8:
            cname = rng.choice(["k", "k", "m", "foo"])
            val = rng.randrange(0, 300)
            if not any(c[0] == tuple(self.scope) and c[1] == cname for c in self.consts):
                self.lines.append((len(self.scope) + 1, ".const %s = %d" % (cname, val)))
                self.consts.append((tuple(self.scope), cname, val))
        self.slot(p=0.5)
        self.block(reserved, depth + 1, rng.randrange(1, 3))
        self.slot(p=0.5)
        self.scope.pop()
        self.lines.append((len(self.scope) + 1, "}"))

    def generate(self):
        rng = self.rng
        self.pfx = "t%d" % self.uid
        self.data_labels = ["%sd0" % self.pfx, "%sd1" % self.pfx]
        self.ptrs = [] if rng.random() < 0.5 else None
        # subroutines are generated first (into a side buffer) so that callers know what they clobber
        self.subs = []
        sub_bufs = []
        main_lines = self.lines
        for i in range(self.nsubs - 1, -1, -1):
            self.lines = []
            name = "%ssub%d" % (self.pfx, i)
            keep = set(rng.sample(["x", "y", "a"], rng.randrange(0, 3)))
            self.lines.append((1, name + ":"))
            self.loop_depth += 1  # a slot in a subroutine can be reached more than once
            self.iter_product = 20
            self.slot(p=0.7)
            save_budget = self.budget
            self.budget = min(self.budget, rng.randrange(4, 9))
            b0 = self.budget
            avail = list(self.subs)
            all_subs, self.subs = self.subs, avail
            self.block(keep | {"sp"}, 2, rng.randrange(1, 4))
            self.subs = all_subs
            self.budget = save_budget - (b0 - self.budget)
            self.slot(p=0.6)
            self.loop_depth -= 1
            self.iter_product = 1
            self.emit("rts", "rts")
            writes = {"a", "x", "y"} - keep
            self.subs.insert(0, {"name": name, "writes": writes})
            sub_bufs.insert(0, self.lines)
        self.lines = main_lines
        self.macro = None
        if rng.random() < 0.7:
            self.macro = "mm%d" % self.uid
            self.lines.append((1, ".macro %s() { nop }" % self.macro))
        if rng.random() < 0.7:
            self.lines.append((1, ".const k = %d" % rng.randrange(0, 256)))
            self.consts.append(((), "k", int(self.lines[-1][1].split("=")[1])))
        self.slot(p=0.5)
        if rng.random() < 0.15:
            self.emit("ldx #$%02x" % rng.randrange(0xE0, 0x100), "load")
            self.emit("txs", "transfer")
        # pointers for (zp),y and (zp,x)
        d0 = self.data_labels[0]
        self.emit("lda #<%s" % d0, "load")
        self.emit("sta $f0", "store")
        self.emit("lda #>%s" % d0, "load")
        self.emit("sta $f1", "store")
        self.emit("lda #<%s" % self.data_labels[1], "load")
        self.emit("sta $f2", "store")
        self.emit("lda #>%s" % self.data_labels[1], "load")
        self.emit("sta $f3", "store")
        self.slot(p=0.5)
        self.block(set(), 0, rng.randrange(2, 12))
        self.slot(force=True)
        self.emit("brk", "brk")
        self.slot(p=0.2)   # after the end: never reached
        for buf in sub_bufs:
            self.lines += buf
        if self.ptrs:
            for i, target in enumerate(self.ptrs):
                self.lines.append((1, "%sp%d: .word %s" % (self.pfx, i, target)))
        self.lines.append((1, "%s: .byte %s" % (self.data_labels[0], ", ".join(str(rng.randrange(256)) for _ in range(8)))))
        self.lines.append((1, "%s: .word %s" % (self.data_labels[1], ", ".join(str(rng.randrange(65536)) for _ in range(3)))))
        return self


def gen_project(rng, idx):
    nb = rng.choice([1, 1, 1, 2, 2])
    nt = rng.choice([1, 1, 2, 2, 3])
    tests = []
    for i in range(nt):
        g = TestGen(rng, "t%d" % i, i, rng.choice([12, 20, 30, 40])).generate()
        tests.append({"gen": g, "name": "t%d" % i, "bank": rng.randrange(nb), "group": None})
    if nt >= 2 and rng.random() < 0.3:
        tests[-1]["group"] = "grp"
    shared = [[rng.randrange(1, 256) for _ in range(rng.randrange(1, 5))] for _ in range(nb)]
    return {"idx": idx, "force_segments": rng.random() < 0.4, "nbanks": nb, "tests": tests, "shared": shared, "start": rng.choice([0xC000, 0x2000, 0x0801, 0x8000])}


def render(prj, inserts):
    """source text; inserts: slot id -> list of directive texts.  Returns (text, placed) where placed lists every
    inserted directive with its 1-based line and the 1-based column of its first expression."""
    out = []
    placed = []

    def put(indent, text):
        out.append("    " * indent + text)

    explicit = prj["nbanks"] > 1 or prj.get("force_segments")
    if explicit:
        for b in range(prj["nbanks"]):
            put(0, '.define bank { name = "b%d" }' % b)
        for b in range(prj["nbanks"]):
            put(0, '.define segment { name = "s%d" start = $%04x bank = "b%d" }' % (b, prj["start"], b))
    for b in range(prj["nbanks"]):
        base = 0
        if explicit:
            put(0, '.segment "s%d" {' % b)
            base = 1
            put(base, "shared%d: .byte %s" % (b, ", ".join(str(x) for x in prj["shared"][b])))
        elif prj["start"] != 0xC000:
            pass
        for t in prj["tests"]:
            if t["bank"] != b:
                continue
            ind = base
            if t["group"]:
                put(ind, "%s: {" % t["group"])
                ind += 1
            put(ind, '.test "%s" {' % t["name"])
            for ln in t["gen"].lines:
                if ln[0] == "loopslot":
                    _, sid, scope, depth, meta = ln
                    here = []
                    for d in inserts.get(sid, []):
                        line = "    " * (ind + depth) + d["text"]
                        out.append(line)
                        col = None
                        if d.get("expr_at") is not None:
                            col = len("    " * (ind + depth)) + d["expr_at"] + 1
                        here.append(dict(d, slot=sid, line=len(out), column=col, test=t["name"], loop=meta))
                    for i in range(meta["k"]):
                        for d in here:
                            placed.append(dict(d, iter=i))
                elif ln[0] == "slot":
                    _, sid, scope, depth = ln
                    put(ind + depth, sid + ":")
                    for d in inserts.get(sid, []):
                        line = "    " * (ind + depth) + d["text"]
                        out.append(line)
                        col = None
                        if d.get("expr_at") is not None:
                            col = len("    " * (ind + depth)) + d["expr_at"] + 1
                        placed.append(dict(d, slot=sid, line=len(out), column=col, test=t["name"]))
                else:
                    put(ind + ln[0], ln[1])
            put(ind, "}")
            if t["group"]:
                put(ind - 1, "}")
        if explicit:
            put(0, "}")
    return "\n".join(out) + "\n", placed


def test_path(t):
    return (t["group"] + "." if t["group"] else "") + t["name"]


# ----------------------------------------------------------------------------------------------- assertions
def error_templates(rng, labels, macro):
    """assertions whose evaluation raises an error (as opposed to yielding zero or no value): they cannot be evaluated,
    so the test must fail there.  (kind, text)"""
    l = rng.choice(labels)[0] if labels else "$20"
    zp = "$%02x" % rng.randrange(ZP_LO, ZP_HI)
    c = [("unknown_function", "ramm(%s) == ramm(%s)" % (zp, zp)), ("unknown_function", "ram8(%s) >= 0" % l),
         ("unknown_function", "cpu.a == peek(%s)" % zp), ("unknown_function", "1 + nosuchfn(2)"),
         ("wrong_arity", "ram(%s, 1) >= 0" % zp), ("wrong_arity", "ram16(%s, %s) >= 0" % (l, l)), ("wrong_arity", "ram() == 0"),
         ("wrong_arity", "defined(cpu.a, cpu.x)"), ("wrong_arity", "ram(%s) == ram16()" % zp),
         ("string_operator", "\"abc\" < \"abd\""), ("string_operator", "\"a\" - \"a\" == 0"), ("string_operator", "(\"x\" * \"y\") == 0"),
         ("string_operator", "ram(\"abc\" >= \"abd\") >= 0")]
    # an operator applied to a number and a string, both known: an error since /repo 2b7ca67
    c += [("mixed_operands", "cpu.a + \"x\""), ("mixed_operands", "\"x\" == cpu.x"), ("mixed_operands", "ram(%s) < \"1\"" % zp),
          ("mixed_operands", "(cpu.y * \"2\") >= 0"), ("mixed_operands", "\"abc\" + 1 == \"abc1\"")]
    if macro:
        c += [("interpolation", "\"{%s}\" == \"x\"" % macro), ("interpolation", "\"a{%s}\"" % macro),
              ("interpolation", "\"v={%s}\" != \"\"" % macro)]
    return c


def templates(rng, st, consts_in_scope, labels, prev_text):
    """candidate assertion expressions for machine state st = (pc, a, x, y, sp, p): (text, python value or None).
    The language has two precedence levels only (* / % << >> ^ bind tighter than + - == != < > <= >= && ||, all left
    associative), hence the parentheses."""
    pc, a, x, y, sp, p = st
    regs = {"cpu.a": a, "cpu.x": x, "cpu.y": y, "cpu.sp": sp}
    c = []
    r, v = rng.choice(sorted(regs.items()))
    c.append(("%s == %s" % (r, rng.choice(["$%02x" % v, str(v), "%%%s" % bin(v)[2:]])), 1))
    c.append(("%s != %d" % (r, v), 0))
    c.append(("%s == %d" % (r, (v + 1) % 256), 0))
    c.append(("(%s >= %d) && (%s < %d)" % (r, v, r, v + 1), 1))
    c.append(("%s < 256" % r, 1))
    c.append(("%s + 1 > %d" % (r, v), 1))
    c.append(("(%s ^ $ff) == %d" % (r, v ^ 255), 1))
    c.append(("%s / 2 == %d" % (r, v // 2), 1))
    c.append(("%s %% 4 == %d" % (r, v % 4), 1))
    c.append(("(%s << 1) == %d" % (r, v * 2), 1))
    c.append(("%s" % r, v))
    c.append(("!%s" % r, 0 if v else 1))
    c.append(("-%s == %d" % (r, -v), 1))
    c.append(("cpu.a + cpu.x + cpu.y == %d" % (a + x + y), 1))
    c.append(("cpu.a * 256 + cpu.x == %d" % (a * 256 + x), 1))
    f, mask = rng.choice(sorted(FLAGS.items()))
    fv = p & mask
    c.append(("cpu.flags.%s" % f, fv))
    c.append(("!cpu.flags.%s" % f, 0 if fv else 1))
    c.append(("cpu.flags.%s == %d" % (f, mask), 1 if fv else 0))
    c.append(("cpu.flags.%s == 1" % f, 1 if fv == 1 else 0))
    c.append(("cpu.flags.carry + cpu.flags.zero == %d" % ((p & 1) + (p & 2)), 1))
    c.append(("* == $%04x" % pc, 1))
    c.append(("* == %d" % (pc + 1), 0))
    c.append(("* - %d == 0" % pc, 1))
    if labels:
        l, lv = rng.choice(labels)
        c.append(("%s %s *" % (l, rng.choice(["<=", ">=", "==", "!=", "<", ">"])), None))
        c.append(("ram(%s) == ram(%s)" % (l, l), 1))
        c.append(("ram16(%s) == (ram(%s) + 256 * ram(%s + 1))" % (l, l, l), 1))
        c.append(("(ram(%s) < 256) && (ram16(%s) < 65536)" % (l, l), 1))
        c.append(("ram(%s + cpu.x) >= 0" % l, 1))
        c.append(("ram16(%s) == %d" % (l, rng.randrange(65536)), None))
        c.append(("ram(%s) == %d" % (l, rng.randrange(256)), None))
        c.append(("<%s + 256 * >%s == %s" % (l, l, l), 1))
    zp = rng.randrange(ZP_LO, ZP_HI)
    c.append(("ram($%02x) == %d" % (zp, rng.choice([0, 0, rng.randrange(256)])), None))
    c.append(("ram16($f0) == (ram($f0) + ram($f1) * 256)", 1))
    c.append(("(ram16($f2) >> 8) == ram($f3)", 1))
    c.append(("(ram16($f2) % 256) == ram($f2)", 1))
    c.append(("ram($1%02x) >= 0" % ((sp + 1) & 255), 1))
    # the top of the address space: ram() is defined up to $ffff, ram16() up to $fffe; addresses are taken mod 65536
    c.append(("ram($ffff) == ram($ffff)", 1))
    c.append(("ram16($fffe) == (ram($fffe) + 256 * ram($ffff))", 1))
    c.append(("ram16($fffd) == (ram($fffd) + 256 * ram($fffe))", 1))
    c.append(("(ram16($fffe) >> 8) == ram($ffff)", 1))
    c.append(("ram($ffff) < 256", 1))
    c.append(("ram16($ffff) >= 0", 0))            # the word leaves the memory: no value, the assertion fails
    c.append(("defined(ram16($ffff))", 0))
    c.append(("ram($10000) == ram(0)", 1))
    c.append(("ram($1ffff) == ram($ffff)", 1))
    c.append(("ram(-1) == ram($ffff)", 1))
    c.append(("ram16(-2) == ram16($fffe)", 1))
    c.append(("ram16(-1) >= 0", 0))
    c.append(("ram(-65536) == ram(0)", 1))
    m = re.match(r"(sta|stx|sty) (\$ff[0-9a-f]{2})$", prev_text or "")
    if m:
        c.append(("ram(%s) == cpu.%s" % (m.group(2), m.group(1)[2]), 1))
        c.append(("ram(%s) == cpu.%s" % (m.group(2), m.group(1)[2]), 1))
    m = re.match(r"sta (\$[0-9a-f]{2})$", prev_text or "")
    if m:
        c.append(("ram(%s) == cpu.a" % m.group(1), 1))
    m = re.match(r"ld([axy]) #(\$[0-9a-f]{2}|\d+)$", prev_text or "")
    if m:
        c.append(("cpu.%s == %s" % (m.group(1), m.group(2)), 1))
    for name, val in consts_in_scope:
        c.append(("%s == %d" % (name, val), None))
        c.append(("%s + cpu.a == %d" % (name, val + a), None))
        if "." in name:
            c.append(("%s == %d" % (name, val), None))
            c.append(("%s != %d" % (name, val), None))
    c.append(("defined(nosuchsymbol)", 0))
    c.append(("nosuchsymbol == 1", 0))          # cannot be evaluated: fails
    c.append(("defined(cpu.a)", 1))
    c.append(("1", 1))
    c.append(("0", 0))
    c.append(("\"abc\" == \"abc\"", 1))
    c.append(("cpu.a == \"x\"", 0))             # number vs string: an evaluation error (cannot be evaluated)
    return c


def choose_inserts(rng, prj, t, sym, steps):
    """place assertions and traces into the slots of test t, steering truth with the machine states observed on a run
    of the bare program (no elements).  Returns slot id -> directives and bookkeeping for the distribution."""
    g = t["gen"]
    slots = [ln for ln in g.lines if ln[0] == "slot"]
    by_pc = {}
    for i, s in enumerate(steps):
        by_pc.setdefault(s[0], []).append(i)
    inserts = {}
    info = {"true": 0, "false": 0, "unknown": 0, "in_loop": 0, "traces": 0, "multi_visit": 0, "unreached": 0}
    labels = [(p.split(".")[-1], v) for p, ty, v in sym if ty == "label" and isinstance(v, int) and re.match(r"t%dd\d$" % g.uid, p.split(".")[-1])]
    nassert = rng.randrange(0, 9)
    def slot_pc(sl):
        pcs = [v for p, ty, v in sym if p == sl[1] or p.endswith("." + sl[1])]
        return pcs[0] & 0xFFFF if pcs else None
    reached = [sl for sl in slots if slot_pc(sl) in by_pc]
    unreached = [sl for sl in slots if slot_pc(sl) not in by_pc]
    want_n = rng.randrange(1, 7)
    chosen = rng.sample(reached, min(len(reached), want_n))
    if unreached and rng.random() < 0.25:
        chosen.append(rng.choice(unreached))
    prev_of = {}
    last = None
    for ln in g.lines:
        if ln[0] == "slot":
            prev_of[ln[1]] = last
        elif isinstance(ln[0], int) and not ln[1].endswith(":") and not ln[1].startswith((".", "{", "}")):
            last = ln[1]
        else:
            last = None
    remaining = nassert
    for s in chosen:
        sid, scope = s[1], s[2]
        pcs = [v for p, ty, v in sym if p == sid or p.endswith("." + sid)]
        if not pcs:
            continue
        pc = pcs[0]
        visits = by_pc.get(pc & 0xFFFF, [])
        cons = []
        seen = set()
        for k in range(len(scope), -1, -1):
            for sc, name, val in g.consts:
                if list(sc) == scope[:k] and name not in seen:
                    seen.add(name)
                    cons.append((name, val))
        # references through `super` and through a scope's name
        for sc, name, val in g.consts:
            sc = list(sc)
            if scope and sc == scope[:-1]:
                cons.append(("super." + name, val))
            if sc and sc[-1] is not None and sc[:-1] == scope[:len(sc) - 1] and sc != scope[:len(sc)]:
                cons.append((sc[-1] + "." + name, val))
            if sc and sc[-1] is not None and sc == scope[:len(sc)]:
                cons.append((sc[-1] + "." + name, val))
        items = []
        n_here = rng.choice([1, 1, 1, 2, 3]) if remaining > 0 else 0
        for _ in range(n_here):
            if not visits:
                st = (pc & 0xFFFF, 0, 0, 0, 0xFD, 0x24)
                info["unreached"] += 1
            else:
                mode = rng.random()
                vi = visits[0] if mode < 0.55 else rng.choice(visits)
                st = tuple(steps[vi])
            cands = templates(rng, st, cons, labels, prev_of.get(sid))
            want = rng.random()
            pool = [c for c in cands if (c[1] not in (0, None)) == (want < 0.72) or c[1] is None and rng.random() < 0.2]
            text, val = rng.choice(pool or cands)
            if rng.random() < 0.10:
                ekind, text = rng.choice(error_templates(rng, labels, getattr(g, "macro", None)))
                val = 0
                info.setdefault("error_kinds", {})
                info["error_kinds"][ekind] = info["error_kinds"].get(ekind, 0) + (1 if visits else 0)
            msg = None
            if rng.random() < 0.4:
                msg = rng.choice(["oh no", "value mismatch", "m%d" % rng.randrange(100), "x"])
            pad = rng.choice([" ", " ", "  ", " /* c */ "])
            d = {"kind": "assert", "expr": text, "message": msg,
                 "text": ".assert" + pad + text + ((" \"%s\"" % msg) if msg else ""), "expr_at": len(".assert" + pad)}
            items.append(d)
            remaining -= 1
            for key in ("$ffff", "$fffe", "(-", "$10000", "ram16(", "ram(", "cpu.flags.", "cpu.sp", "*", "defined(", "\"", "<<", "/", "%"):
                if key in text:
                    info.setdefault("forms", {})
                    info["forms"][key] = info["forms"].get(key, 0) + 1
            if val is None:
                info["unknown"] += 1
            elif val:
                info["true"] += 1
            else:
                info["false"] += 1
            if sid in g.in_loop_slots:
                info["in_loop"] += 1
            if len(visits) > 1:
                info["multi_visit"] += 1
        if rng.random() < 0.3:
            if rng.random() < 0.4:
                items.insert(rng.randrange(0, len(items) + 1), {"kind": "trace", "exprs": [], "text": ".trace", "expr_at": None})
            else:
                ex = rng.sample(["*", "cpu.a", "cpu.x", "cpu.sp", "cpu.flags.zero", "nosuch", "ram($f0)", "cpu.a * 256", "ram16($f0)", "-cpu.x"] +
                                [n for n, _ in cons] + [l for l, _ in labels], rng.randrange(1, 4))
                items.insert(rng.randrange(0, len(items) + 1),
                             {"kind": "trace", "exprs": ex, "text": ".trace (%s)" % ", ".join(ex), "expr_at": None})
            info["traces"] += 1
        if items:
            inserts[sid] = items
    # assertions inside assembly-time loops
    for ln in g.lines:
        if ln[0] != "loopslot" or rng.random() < 0.25:
            continue
        _, lsid, scope, depth, meta = ln
        pcs = [v for p, ty, v in sym if p == meta["marker"] or p.endswith("." + meta["marker"])]
        if not pcs:
            continue
        pc0, k, L = pcs[0], meta["k"], meta["len"]
        sts = []
        for i in range(k):
            vis = by_pc.get((pc0 + (i + 1) * L) & 0xFFFF, [])
            sts.append(tuple(steps[vis[0]]) if vis else None)
        cands = [("index < %d" % k, "true"), ("index != %d" % rng.randrange(k), "false"), ("%s == index" % meta["uname"], "true"),
                 ("* == (%d + %d * index)" % (pc0 + L, L), "true"), ("defined(index)", "true"), ("index == %d" % rng.randrange(k), "false"),
                 ("(index + 1) * 2 > index", "true"), ("* - %d == index * %d" % (pc0 + L, L), "true")]
        if sts[0] is not None:
            st = sts[0]
            if meta["ins"] == "inx" and st[2] + k < 256:
                cands.append(("cpu.x == (%d + index)" % st[2], "true"))
            if meta["ins"] == "iny" and st[3] + k < 256:
                cands.append(("cpu.y == (%d + index)" % st[3], "true"))
            if meta["ins"] == "dex" and st[2] - k >= 0:
                cands.append(("cpu.x + index == %d" % st[2], "true"))
            j = rng.randrange(k)
            if sts[j] is not None:
                cands.append(("cpu.x == %d" % sts[j][2], "unknown"))
                cands.append(("cpu.a == %d" % sts[j][1], "unknown"))
        items = []
        for _ in range(rng.choice([1, 1, 2])):
            want = "true" if rng.random() < 0.7 else rng.choice(["false", "unknown"])
            pool = [c for c in cands if c[1] == want] or cands
            text, kind = rng.choice(pool)
            msg = rng.choice([None, None, "in loop"])
            d = {"kind": "assert", "expr": text, "message": msg, "text": ".assert " + text + ((" \"%s\"" % msg) if msg else ""),
                 "expr_at": len(".assert ")}
            items.append(d)
            info[{"true": "true", "false": "false", "unknown": "unknown"}[kind]] += 1
            info["unrolled"] = info.get("unrolled", 0) + 1
        if rng.random() < 0.3:
            items.append({"kind": "trace", "exprs": ["index", "*"], "text": ".trace (index, *)", "expr_at": None})
            info["traces"] += 1
        inserts[lsid] = items
    return inserts, info


# ----------------------------------------------------------------------------------------------- running things
def run_mos_test(mos, files, workdir):
    d = tempfile.mkdtemp(prefix="c18_", dir=workdir)
    try:
        for n, txt in files.items():
            with open(os.path.join(d, n), "w") as f:
                f.write(txt)
        with open(os.path.join(d, "mos.toml"), "w") as f:
            f.write('[build]\nentry = "main.asm"\n')
        p = subprocess.run([mos, "--no-color", "--error-style", "Short", "test"], cwd=d, stdout=subprocess.PIPE, stderr=subprocess.STDOUT,
                           env=common.ENV, timeout=120)
        return p.returncode, common.clean(p.stdout.decode("utf-8", "replace"))
    finally:
        shutil.rmtree(d, ignore_errors=True)


def parse_output(out):
    """canonical view of `mos test` stdout (cycle counts dropped)"""
    res = {"tests": [], "failed": {}, "summary": None, "other": []}
    cur = None
    section = None
    for line in out.splitlines():
        m = re.match(r"test '(.*)' \.\.\. (ok|failed) \((\d+) cycles\)$", line)
        if m:
            res["tests"].append((m.group(1), m.group(2)))
            continue
        m = re.match(r"test result: (ok|FAILED)\. (\d+) passed; (\d+) failed$", line)
        if m:
            res["summary"] = (m.group(1), int(m.group(2)), int(m.group(3)))
            continue
        if line == "failed tests:":
            section = "failed"
            continue
        if line == "failed test summary:":
            section = "summary"
            res["summary_names"] = []
            continue
        if section == "failed":
            m = re.match(r"test: (.*)$", line)
            if m:
                cur = {"diag": None, "cpu": None, "traces": []}
                res["failed"][m.group(1)] = cur
                continue
            if cur is not None and line.strip():
                m = re.match(r"(.*?):(\d+):(\d+): error: (.*)$", line)
                if m and cur["diag"] is None:
                    cur["diag"] = (m.group(1), int(m.group(2)), int(m.group(3)), m.group(4))
                elif line.startswith("* = ") and cur["cpu"] is None:
                    cur["cpu"] = line
                elif line == "traces:":
                    pass
                elif line.startswith("- "):
                    cur["traces"].append(line[2:])
                else:
                    res["other"].append(line)
            continue
        if section == "summary" and line.startswith("    "):
            res["summary_names"].append(line.strip())
            continue
        if line.strip():
            res["other"].append(line)
    return res


def bank_for(asm, test):
    """(banks for the model, bank name, pc) of test `test` from a mosprobe asm reply built with that test active"""
    pcs = [v for p, ty, v in asm["symbols"] if p == test and ty == "test"]
    if not pcs or "banks" not in asm:
        return None
    pc = pcs[0]
    banks = [{"name": b["name"], "start": b["start"], "data": list(bytes.fromhex(b["data"]))} for b in asm["banks"]]
    # the bank of the segment that contains the test: the segment whose range holds the test's pc and that has data there
    segs = [s for s in asm["segments"] if s["start"] <= pc <= s["end"]]
    return banks, segs, pc


def element_from_hook(e):
    s = e["snapshot"]
    return {"kind": e["kind"], "exprs": [x.strip() if e["kind"] == "trace" else x for x in e["exprs"]], "message": e.get("message"),
            "line": e.get("line", 0), "column": e.get("column", 0),
            "snapshot": {"pc": s["pc"], "scope": s["scope"], "symbols": s["symbols"]}}


def run(chk):
    rng = random.Random(chk.seed)
    common.translate_for(chk, ["cpusyms"])
    chk.proof = common.prove("C18")
    probe = Proc([common.build_probe()])
    model = Proc([common.build_model("c18")], timeout=120)
    mos = common.build_mos()
    hook = Proc([mos, "verif-probe"], timeout=60)
    thorough = chk.tier == "thorough"
    n = 1500 if thorough else 150
    workdir = os.path.join(common.CACHE, "work")
    os.makedirs(workdir, exist_ok=True)
    # ---- targeted: the exit status for a number of failures that is a multiple of 256 (started now, collected at the end)
    many = start_many_failures(rng, mos, workdir)
    dist = {"projects": 0, "tests": 0, "passed": 0, "failed": 0, "instr_kinds": {}, "assert_true": 0, "assert_false": 0,
            "assert_unknown": 0, "assert_in_loop_or_sub": 0, "assert_at_revisited_pc": 0, "traces": 0, "steps_total": 0,
            "two_banks": 0, "max_steps": 0, "fail_on_later_visit": 0, "skipped": 0, "unreached_asserts": 0}
    seen = set()

    # ---- corpus first: witnesses of repaired defects (plain sources)
    cdir = os.path.join(common.ROOT, "corpus", "C18")
    corpus = []
    if os.path.isdir(cdir):
        for fn in sorted(os.listdir(cdir)):
            if fn.endswith(".asm"):
                corpus.append((fn, open(os.path.join(cdir, fn)).read()))
    for fn, src in corpus:
        check_project(chk, rng, probe, model, hook, mos, workdir, src, None, dist, "corpus/" + fn)

    for i in range(n):
        prj = gen_project(rng, i)
        src0, _ = render(prj, {})
        # pass 1: bare program -> states per test (steers the truth of the assertions that are placed)
        inserts = {}
        infos = []
        ok = True
        for t in prj["tests"]:
            r = probe.call({"cmd": "asm", "files": {"main.asm": src0}, "active_test": test_path(t), "constants": {"TEST": 1}})
            if not r.get("ok"):
                # e.g. a loop body longer than a branch can span: dropped and counted
                dist["skipped"] += 1
                dist.setdefault("skip_reasons", {})
                why = json.dumps(r.get("errors") or r.get("parse_errors"))[:80]
                dist["skip_reasons"][why] = dist["skip_reasons"].get(why, 0) + 1
                ok = False
                break
            bf = bank_for(r, test_path(t))
            if bf is None:
                ok = False
                break
            banks, segs, pc = bf
            bname = segs[0]["bank"] if segs and segs[0].get("bank") else banks[0]["name"]
            m = model.call({"cmd": "run", "fuel": FUEL, "banks": banks, "steps": True,
                            "test": {"name": t["name"], "bank": bname, "pc": pc, "elements": []}})
            mm = m.get("model", {})
            if mm.get("verdict") != "passed":
                # the generator promises termination inside the subset; a miss is dropped (and counted)
                dist["skipped"] += 1
                ok = False
                break
            ins, info = choose_inserts(rng, prj, t, r["symbols"], mm["steps"])
            inserts.update(ins)
            infos.append(info)
        if not ok:
            continue
        src, placed = render(prj, inserts)
        if src in seen:
            continue
        seen.add(src)
        for info in infos:
            dist["assert_true"] += info["true"]
            dist["assert_false"] += info["false"]
            dist["assert_unknown"] += info["unknown"]
            dist["assert_in_loop_or_sub"] += info["in_loop"]
            dist["assert_at_revisited_pc"] += info["multi_visit"]
            dist["traces"] += info["traces"]
            dist["unreached_asserts"] += info["unreached"]
            dist["assert_in_unrolled_loop"] = dist.get("assert_in_unrolled_loop", 0) + info.get("unrolled", 0)
            for k2, v2 in info.get("error_kinds", {}).items():
                dist.setdefault("assert_raising_error_on_executed_path", {})
                dist["assert_raising_error_on_executed_path"][k2] = dist["assert_raising_error_on_executed_path"].get(k2, 0) + v2
            for k2, v2 in info.get("forms", {}).items():
                dist.setdefault("assert_forms", {})
                dist["assert_forms"][k2] = dist["assert_forms"].get(k2, 0) + v2
        for t in prj["tests"]:
            for k, v in t["gen"].kinds.items():
                dist["instr_kinds"][k] = dist["instr_kinds"].get(k, 0) + v
        if prj["nbanks"] > 1:
            dist["two_banks"] += 1
        check_project(chk, rng, probe, model, hook, mos, workdir, src, (prj, placed), dist, "gen%d" % i)

    finish_many_failures(chk, many, probe, model, dist)
    probe.stop()
    model.stop()
    hook.stop()
    chk.cov["rule"] = ("seeded random projects (G-test): 1-3 tests in 1-2 banks (same address range, different shared bytes), bodies <= 40 "
                       "instructions over the modelled subset (loads/stores in all addressing modes, transfers, inc/dec, logic, binary adc/sbc, "
                       "compares, bit, shifts/rotates, flag ops, paired stack ops, forward branches, jmp abs/indirect, counted loops <= 300 "
                       "iterations, subroutines called from several places, named/anonymous scopes with constants), always reaching brk; "
                       "0-8 assertions + traces placed at random instruction boundaries (loop bodies, subroutines, scopes, dead code), truth "
                       "steered with the machine states of a bare run; each project run with the real `mos test`, the verif-probe runner trace, "
                       "the extracted runner model and the extracted spec; distinct = distinct source text; non-trivial = some assertion's pc is "
                       "reached more than once or some assertion is false when reached")
    chk.extra["distribution"] = dist
    chk.assumptions = [
        "emulator_6502 is an external oracle: spec/Cpu6502.v is written from the ISA and compared state by state on every executed instruction",
        "programs stay in the modelled subset (no BRK execution, RTI, undocumented opcodes, decimal-mode ADC/SBC) and in the domain where the "
        "dev-build emulator does not panic (no absolute,X access wrapping past $FFFF, pc below $FFFD)",
        "the snapshot symbol table is the list of data-carrying nodes (SymbolTable::all); no user symbol is named `cpu`",
        "cycle counts printed by `mos test` are not part of the property and are dropped before comparing"]
    return chk.finish(extra_trusted=[
        "hook H2 `mos verif-probe testrun` (mos/src/verif_c18.rs): reports the runner's elements, machine states and result",
        "extract/driver_c18.ml unrolls TestRunner::run over the extracted execute_instruction to log machine states",
        "the oracle's assertions come from the generator (marker-label pc via mosprobe, lexical scope, text, line/column)"])


def start_many_failures(rng, mos, workdir):
    """a project with exactly 256 failing tests (and 0-2 passing ones): a process exit status keeps 8 bits only"""
    npass = rng.randrange(0, 3)
    lines = []
    pass_at = set(rng.sample(range(256 + npass), npass))
    k = 0
    for i in range(256 + npass):
        if i in pass_at:
            lines.append('.test "p%d" {.assert %d == %d}' % (i, i, i))
        else:
            lines.append('.test "f%d" {.assert %d == %d}' % (i, k, k + 1 + rng.randrange(3)))
            k += 1
    src = "\n".join(lines) + "\n"
    d = tempfile.mkdtemp(prefix="c18_many_", dir=workdir)
    with open(os.path.join(d, "main.asm"), "w") as f:
        f.write(src)
    with open(os.path.join(d, "mos.toml"), "w") as f:
        f.write('[build]\nentry = "main.asm"\n')
    p = subprocess.Popen([mos, "--no-color", "--error-style", "Short", "test"], cwd=d, stdout=subprocess.PIPE, stderr=subprocess.STDOUT, env=common.ENV)
    return {"dir": d, "proc": p, "src": src, "npass": npass}


def finish_many_failures(chk, many, probe, model, dist):
    try:
        try:
            out, _ = many["proc"].communicate(timeout=1200)
        except subprocess.TimeoutExpired:
            many["proc"].kill()
            chk.tie_break("many_failures", "`mos test` on 256 failing tests did not finish within 20 minutes", {"source": many["src"][:400]})
            return
        rc = many["proc"].returncode
        out = common.clean(out.decode("utf-8", "replace"))
        po = parse_output(out)
        src = many["src"]
        files = {"main.asm": src}
        # the spec verdict of a few of the tests (each is a single assertion at the BRK that ends the empty body)
        names = [t[0] for t in po["tests"]]
        want_names = [l.split('"')[1] for l in src.splitlines()]
        spec_failed = 0
        for name in [n for n in want_names if n.startswith("f")][:3] + [n for n in want_names if n.startswith("p")][:1]:
            a = probe.call({"cmd": "asm", "files": files, "active_test": name, "constants": {"TEST": 1}}, timeout=60)
            bf = bank_for(a, name) if a.get("ok") else None
            if bf is None:
                chk.tie_break("many_failures", "test %s does not assemble" % name, {"source": src[:400]})
                return
            banks, segs, pc = bf
            line = [i for i, l in enumerate(src.splitlines()) if '"%s"' % name in l][0]
            text = src.splitlines()[line]
            expr = text[text.index(".assert ") + 8:-1]
            el = {"kind": "assert", "exprs": [expr], "message": None, "line": line + 1, "column": text.index(".assert ") + 9,
                  "snapshot": {"pc": pc, "scope": [], "symbols": []}}
            s = model.call({"cmd": "run", "fuel": 10, "banks": banks, "steps": False,
                            "test": {"name": name, "bank": banks[0]["name"], "pc": pc, "elements": [el]}})
            v = s.get("spec", {}).get("verdict")
            if v == "failed":
                spec_failed += 1
            printed = dict(po["tests"]).get(name)
            if printed != {"passed": "ok", "failed": "failed"}.get(v):
                chk.oracle_failure(None, "test %s of the 256-failures project: `mos test` printed %r, the spec says %s" % (name, printed, v),
                                   {"source": src, "stdout": out[-800:], "test": name})
        dist["many_failures_project"] = {"tests": len(want_names), "failing": 256, "exit": rc, "summary": po["summary"]}
        chk.count(1, 1)
        if spec_failed and rc == 0:
            chk.oracle_failure(None, "exit status 0 although a test failed (a project with 256 failing tests: the spec fails test f.. at its "
                               "assertion, `mos test` prints `%s`)" % (po["summary"],),
                               {"source": src, "stdout": out[-800:], "exit": rc, "failing_tests": 256, "passing_tests": many["npass"]})
        if po["summary"] != ("FAILED", many["npass"], 256):
            chk.oracle_failure(None, "256-failures project: summary line %r, expected %d passed / 256 failed" % (po["summary"], many["npass"]),
                               {"source": src, "stdout": out[-800:]})
        rp = model.call({"cmd": "report", "results": [{"name": n, "failed": n.startswith("f")} for n in want_names]})
        if rp.get("process_exit") != rc:
            chk.tie_break("correspondence:exit_status", "256 failing tests: model exit status %s, `mos test` exited with %s" % (rp.get("process_exit"), rc),
                          {"source": src, "stdout": out[-800:]})
        if names != want_names:
            chk.tie_break("correspondence:report", "256-failures project: order of tests differs", {"source": src[:400], "printed": names[:10]})
    finally:
        shutil.rmtree(many["dir"], ignore_errors=True)


def check_project(chk, rng, probe, model, hook, mos, workdir, src, gen, dist, label):
    files = {"main.asm": src}
    rc, out = run_mos_test(mos, files, workdir)
    po = parse_output(out)
    enum = hook.call({"cmd": "testrun", "files": files})
    if "tests" not in enum:
        chk.tie_break("hook:testrun", "enumeration failed: %s / mos test said: %s" % (str(enum)[:300], out[-300:]), {"source": src})
        return
    names = [t["name"] for t in enum["tests"]]
    dist["projects"] += 1
    spec_results = []
    model_results = []
    nontrivial = 0
    for name in names:
        dist["tests"] += 1
        h = hook.call({"cmd": "testrun", "files": files, "test": name, "max_steps": FUEL})
        a = probe.call({"cmd": "asm", "files": files, "active_test": name, "constants": {"TEST": 1}})
        if "elements" not in h or not a.get("ok"):
            chk.tie_break("hook:testrun", "test %s could not be run: %s" % (name, str(h)[:300]), {"source": src, "test": name})
            continue
        bf = bank_for(a, name)
        if bf is None:
            chk.tie_break("probe:asm", "no test symbol / banks for %s" % name, {"source": src, "test": name})
            continue
        banks, segs, pc = bf
        # which bank: the one whose image the runner loaded (ram0 of the hook) must be the bank of the test's segment
        cand = [s for s in segs if s.get("bank")]
        bname = cand[0]["bank"] if cand else banks[0]["name"]
        if gen is not None:
            prj, placed = gen
            tt = [t for t in prj["tests"] if test_path(t) == name]
            if tt and (prj["nbanks"] > 1 or prj.get("force_segments")):
                bname = "b%d" % tt[0]["bank"]
        # -------- correspondence: runner model on the implementation's own element list
        els_hook = [element_from_hook(e) for e in h["elements"]]
        mreq = {"cmd": "run", "fuel": FUEL, "banks": banks, "steps": True,
                "test": {"name": name, "bank": bname, "pc": pc, "elements": els_hook}}
        m = model.call(mreq)
        if "model" not in m:
            chk.tie_break("model", "mosmodel_c18 failed: %s" % str(m)[:300], {"source": src, "test": name, "request": mreq})
            continue
        mm = m["model"]
        dist["steps_total"] += len(h["steps"])
        dist["max_steps"] = max(dist["max_steps"], len(h["steps"]))
        replay = {"source": src, "test": name, "label": label}
        # initial RAM = the bank image
        want_ram0 = [[b["start"] + i, v] for b in banks if b["name"] == bname for i, v in enumerate(b["data"]) if v]
        if h["ram0"] != want_ram0:
            chk.tie_break("correspondence:initial_ram", "the runner's initial RAM is not the image of bank %s" % bname,
                          dict(replay, impl=h["ram0"][:40], want=want_ram0[:40]))
            chk.oracle_failure(None, "test %s does not see (only) the bank it is defined in: initial RAM differs from the image of bank %s"
                               % (name, bname), dict(replay, impl=h["ram0"][:40], want=want_ram0[:40]))
        if mm.get("steps") != h["steps"]:
            k = next((i for i, (x, y) in enumerate(zip(mm.get("steps", []), h["steps"])) if x != y), min(len(mm.get("steps", [])), len(h["steps"])))
            chk.tie_break("correspondence:machine_states", "machine state before instruction %d differs (pc,a,x,y,sp,p): model %s impl %s" % (
                k, (mm.get("steps") or [None])[k:k + 1], h["steps"][k:k + 1]),
                dict(replay, index=k, model=mm.get("steps", [])[max(0, k - 2):k + 1], impl=h["steps"][max(0, k - 2):k + 1]))
        hv = {"ok": "passed", "failed": "failed", "step_limit": "out_of_fuel"}.get(h["result"]["kind"], h["result"]["kind"])
        if mm["verdict"] != hv:
            chk.tie_break("correspondence:verdict", "model says %s, the runner says %s" % (mm["verdict"], hv), dict(replay, model=mm["verdict"], impl=h["result"]))
        elif hv == "failed":
            want = "main.asm:%d:%d: error: %s" % (mm["line"], mm["column"], mm["message"])
            if want != h["result"]["diagnostic"]:
                chk.tie_break("correspondence:failure", "failure report differs: model %r impl %r" % (want, h["result"]["diagnostic"]), replay)
            if mm["traces"] != h["result"]["traces"]:
                chk.tie_break("correspondence:traces", "traces differ: model %r impl %r" % (mm["traces"][:5], h["result"]["traces"][:5]), replay)
        if mm.get("ram") is not None and hv in ("passed", "failed") and mm["ram"] != h["ram1"]:
            chk.tie_break("correspondence:final_ram", "final RAM differs", dict(replay, model=mm["ram"][:60], impl=h["ram1"][:60]))
        if hv == "passed" and mm.get("all_traces") != h["traces"]:
            chk.tie_break("correspondence:traces", "traces differ: model %r impl %r" % ((mm.get("all_traces") or [])[:5], h["traces"][:5]), replay)
        # `mos test` stdout for this test vs the model
        printed = dict(po["tests"]).get(name)
        if printed != {"passed": "ok", "failed": "failed"}.get(mm["verdict"]):
            chk.tie_break("correspondence:stdout", "`mos test` printed %r for %s, the model says %s" % (printed, name, mm["verdict"]), dict(replay, stdout=out[-1500:]))
        elif mm["verdict"] == "failed":
            f = po["failed"].get(name)
            want = ("main.asm", mm["line"], mm["column"], mm["message"])
            if not f or f["diag"] != want or f["cpu"] != mm["cpu_details"] or f["traces"] != mm["traces"]:
                chk.tie_break("correspondence:stdout", "failure section for %s differs: printed %r, model %r" % (
                    name, f, (want, mm["cpu_details"], mm["traces"])), dict(replay, stdout=out[-1500:]))
        model_results.append({"name": name, "failed": mm["verdict"] == "failed"})
        if mm["verdict"] == "failed" and mm.get("steps"):
            if any(st[0] == mm["steps"][-1][0] for st in mm["steps"][:-1]):
                dist["fail_on_later_visit"] += 1

        # -------- correspondence: step_over / step_out / execute_instruction driven like the debug adapter drives them
        for _ in range(3 if gen is None else 1):
            nops = rng.randrange(3, 40)
            wts = rng.choice([("in", "over", "out"), ("in", "in", "in", "over", "out"), ("over", "over", "out"), ("in", "in", "out")])
            ops = [rng.choice(wts) for _ in range(nops)]
            hs = hook.call({"cmd": "testrun", "files": files, "test": name, "ops": ops})
            ms = model.call({"cmd": "stepping", "fuel": FUEL, "banks": banks, "ops": ops,
                             "test": {"name": name, "bank": bname, "pc": pc, "elements": els_hook}})
            dist["stepping_sequences"] = dist.get("stepping_sequences", 0) + 1
            if "states" not in hs or "states" not in ms:
                chk.tie_break("correspondence:stepping", "stepping failed: hook %s model %s" % (str(hs)[:200], str(ms)[:200]), dict(replay, ops=ops))
                continue
            for o in ops[:len(hs["states"])]:
                dist.setdefault("stepping_ops", {})
                dist["stepping_ops"][o] = dist["stepping_ops"].get(o, 0) + 1
            if any(x.get("call_depth", 0) > 0 for x in hs["states"]):
                dist["stepping_inside_calls"] = dist.get("stepping_inside_calls", 0) + 1
            # after a failure the session ends: the open-call count of the dead runner is not observable (and the model's
            # TestFailed does not carry a runner), so it is not compared there
            for lst in (hs["states"], ms["states"]):
                for x in lst:
                    if x.get("state") == "failed":
                        x.pop("call_depth", None)
            if hs["states"] != ms["states"]:
                k = next((i for i, (x, y) in enumerate(zip(ms["states"], hs["states"])) if x != y), min(len(ms["states"]), len(hs["states"])))
                chk.tie_break("correspondence:stepping", "after operation %d (%s) the runner is at %s, the model at %s" % (
                    k, ops[k] if k < len(ops) else "-", hs["states"][k:k + 1], ms["states"][k:k + 1]),
                    dict(replay, ops=ops, index=k, impl=hs["states"][max(0, k - 2):k + 1], model=ms["states"][max(0, k - 2):k + 1]))

        # -------- oracle: spec verdict from the assembled image and the assertions as placed by the generator
        if gen is not None:
            prj, placed = gen
            els = []
            for d in placed:
                if d["test"] != name.split(".")[-1]:
                    continue
                if "iter" in d:
                    meta = d["loop"]
                    mk = [(p, v) for p, ty, v in a["symbols"] if p == meta["marker"] or p.endswith("." + meta["marker"])]
                    hits = [(p, v) for p, ty, v in a["symbols"] if p.split(".")[-1] == meta["uname"] and v == d["iter"]]
                    if not mk or not hits:
                        continue
                    p, v = hits[0][0], mk[0][1] + (d["iter"] + 1) * meta["len"]
                else:
                    hits = [(p, v) for p, ty, v in a["symbols"] if p == d["slot"] or p.endswith("." + d["slot"])]
                    if not hits:
                        continue
                    p, v = hits[0]
                scope = p.split(".")[:-1]
                snap = {"pc": v, "scope": scope, "symbols": [[p2, v2] for p2, ty2, v2 in a["symbols"]]}
                if d["kind"] == "assert":
                    els.append({"kind": "assert", "exprs": [d["expr"]], "message": d["message"], "line": d["line"], "column": d["column"], "snapshot": snap})
                else:
                    els.append({"kind": "trace", "exprs": d["exprs"], "snapshot": snap})
            if [e["kind"] for e in els] != [e["kind"] for e in els_hook]:
                chk.tie_break("correspondence:elements", "the runner registered %s, the source has %s" % (
                    [e["kind"] for e in els_hook], [e["kind"] for e in els]), replay)
        else:
            els = els_hook
        sreq = {"cmd": "run", "fuel": FUEL, "banks": banks, "steps": False, "test": {"name": name, "bank": bname, "pc": pc, "elements": els}}
        s = model.call(sreq)
        if "spec" not in s:
            chk.tie_break("model", "mosmodel_c18 (spec) failed: %s" % str(s)[:300], dict(replay, request=sreq))
            continue
        sp = s["spec"]
        visits = [v for e, v in zip(els, s.get("visits") or []) if e["kind"] == "assert"]
        revisited = any(v > 1 for v in visits)
        if sp["verdict"] == "failed" or revisited:
            nontrivial = 1
        if sp["verdict"] == "failed":
            dist["failed"] += 1
        elif sp["verdict"] == "passed":
            dist["passed"] += 1
        spec_results.append({"name": name, "failed": sp["verdict"] == "failed"})
        if sp["verdict"] not in ("passed", "failed"):
            # outside the property's domain (process aborts / instruction outside the subset / no BRK within the bound)
            chk.tie_break("generator", "spec verdict %s for %s: outside the property's domain" % (sp["verdict"], name), dict(replay, spec=sp))
            continue
        if printed != {"passed": "ok", "failed": "failed"}[sp["verdict"]]:
            what = ("test %s: `mos test` reports %r but execution from the test's first instruction %s" % (
                name, printed, "reaches a BRK with every assertion on the path holding" if sp["verdict"] == "passed" else
                "reaches the assertion at line %d, column %d which does not hold there (cpu %s)" % (sp["line"], sp["column"], sp["cpu"])))
            chk.oracle_failure(None, what, dict(replay, spec=sp, stdout=out[-1500:], visits=visits))
        elif sp["verdict"] == "failed":
            f = po["failed"].get(name) or {"diag": None}
            want = ("main.asm", sp["line"], sp["column"], sp["message"])
            # whether a comment between `.assert` and the expression shows up in the default message depends on the
            # expression's Display (ast.rs) and is not part of this property: compared modulo that comment
            got = f["diag"] and (f["diag"][0], f["diag"][1], f["diag"][2], f["diag"][3].replace("/* c */ ", ""))
            if got != want:
                chk.oracle_failure(None, "test %s fails, but `mos test` names %r instead of the first failing assertion %r" % (name, f["diag"], want),
                                   dict(replay, spec=sp, stdout=out[-1500:]))
            else:
                cpu = sp["cpu"]
                fl = cpu[5]
                flags = "".join(ch if fl & mk else "-" for ch, mk in zip("NV-BDIZC", (128, 64, 0, 16, 8, 4, 2, 1)))
                line = "* = $%04X, SP = $%02X, flags = %s, A = $%02X, X = $%02X, Y = $%02X" % (cpu[0], cpu[4], flags, cpu[1], cpu[2], cpu[3])
                if f.get("cpu") != line:
                    chk.oracle_failure(None, "test %s: the machine state printed with the failure (%r) is not the state at the failing assertion (%r)"
                                       % (name, f.get("cpu"), line), dict(replay, spec=sp, stdout=out[-1500:]))
    # -------- exit status and summary: spec side
    if len(spec_results) == len(names):
        any_failed = any(r["failed"] for r in spec_results)
        if (rc != 0) != any_failed:
            chk.oracle_failure(None, "exit status %d although %s" % (rc, "a test failed" if any_failed else "no test failed"),
                               {"source": src, "stdout": out[-1500:], "spec": spec_results})
        nfail = sum(1 for r in spec_results if r["failed"])
        if po["summary"] != ("FAILED" if nfail else "ok", len(spec_results) - nfail, nfail):
            chk.oracle_failure(None, "summary line %r does not match %d passed / %d failed" % (po["summary"], len(spec_results) - nfail, nfail),
                               {"source": src, "stdout": out[-1500:], "spec": spec_results})
    if len(model_results) == len(names):
        rp = model.call({"cmd": "report", "results": model_results})
        if rp.get("process_exit") != rc:
            chk.tie_break("correspondence:exit_status", "model exit status %s, `mos test` exited with %s" % (rp.get("process_exit"), rc),
                          {"source": src, "stdout": out[-1500:]})
        if [n for n, _ in po["tests"]] != [r["name"] for r in model_results] or po.get("summary_names", []) != rp.get("failed", None) and rp.get("failed"):
            chk.tie_break("correspondence:report", "order of tests / failed summary differs: printed %s %s, model %s %s" % (
                po["tests"], po.get("summary_names"), rp.get("lines"), rp.get("failed")), {"source": src, "stdout": out[-1500:]})
        if po["summary"] and (po["summary"][1], po["summary"][2]) != (rp.get("num_passed"), rp.get("num_failed")):
            chk.tie_break("correspondence:report", "summary counts differ: printed %s model %s/%s" % (po["summary"], rp.get("num_passed"), rp.get("num_failed")),
                          {"source": src, "stdout": out[-1500:]})
    if po["other"]:
        chk.tie_break("correspondence:stdout", "unexpected output lines: %r" % po["other"][:3], {"source": src, "stdout": out[-1500:]})
    chk.count(1, nontrivial)
    chk.sample({"label": label, "source": src[:1500], "exit": rc, "stdout": out[-600:]}, limit=3)


def replay(chk, path):
    obj = json.load(open(path))
    rp = obj.get("replay", obj)
    src = rp.get("source")
    if src is None and rp.get("broken"):
        for b in rp["broken"]:
            if b.get("replay") and b["replay"].get("source"):
                src = b["replay"]["source"]
                break
    mos = common.build_mos()
    rc, out = run_mos_test(mos, {"main.asm": src}, tempfile.gettempdir())
    print(json.dumps({"source": src, "exit": rc, "stdout": out}, indent=1))
    return 0

"""C01 -- every instruction is encoded exactly as the 6502 ISA prescribes."""
import json
import os
import random

import common
from common import Proc, log

FORMS = ["FImplied", "FImm", "FAbs", "FAbsX", "FAbsY", "FIndX", "FIndY", "FInd", "FIndYinner", "FIndXouter"]
OPERAND = {"FImplied": "", "FImm": "#%s", "FAbs": "%s", "FAbsX": "%s,x", "FAbsY": "%s,y", "FIndX": "(%s,x)",
           "FIndY": "(%s),y", "FInd": "(%s)", "FIndYinner": "(%s,y)", "FIndXouter": "(%s),x"}
IN_RANGE = [0, 1, 127, 128, 255, 256, 257, 4095, 65535]
OUT_RANGE = [65536, 65537, 2 ** 31, 2 ** 62, -1, -128, -129, -256, -65536]
DEFAULT_PC = 0xC000


def mnemonics():
    import re
    src = open(common.COQ + "/theories/Gen/OpcodeTable.v").read()
    return re.search(r"Inductive mnemonic := (.*?)\.", src).group(1).split(" | ")


def vtext(v, rng):
    if v < 0:
        return str(v)
    k = rng.randrange(3)
    if k == 0:
        return str(v)
    if k == 1:
        return "$%x" % v
    return "$%04X" % v


def impl_outcome(r):
    """canonical outcome of one assembly: ('ok', [bytes]) / ('rejected', kinds) / ('panic'|'hang', ..)"""
    if "panic" in r:
        return ("panic", r["panic"])
    if "hang" in r or "crash" in r:
        return ("hang", r)
    errs = [e["msg"] for e in r.get("parse_errors", [])] + [e["msg"] for e in r.get("errors", [])]
    if errs:
        return ("rejected", errs)
    data = "".join(s["data"] for s in r.get("segments", []))
    return ("ok", [int(data[i:i + 2], 16) for i in range(0, len(data), 2)])


def model_outcome(m):
    if m.get("err") is None:
        return ("ok", m["bytes"])
    if m.get("err") == "Panic":
        return ("panic", "model: integer overflow")
    return ("rejected", [m["err"]])


def model_encode(model, mi, fi, v, cur):
    """the implementation assembles in (at least) two passes: pass 0 has no current pc, the last one has"""
    m0 = model.call({"cmd": "encode", "mn": mi, "form": fi, "v": v, "cur": None})
    if m0.get("err") == "Panic":
        m0["spec"] = None
        return m0
    return model.call({"cmd": "encode", "mn": mi, "form": fi, "v": v, "cur": cur})


def same(io, mo):
    if io[0] != mo[0]:
        return False
    return io[0] != "ok" or io[1] == mo[1]


def run(chk):
    rng = random.Random(chk.seed)
    common.translate_for(chk, ["opcodes"])
    chk.proof = common.prove("C01")
    if chk.tier == "thorough":
        common.coqchk(chk, "C01")
    probe = Proc([common.build_probe()])
    model = Proc([common.build_model()])
    mns = mnemonics()
    thorough = chk.tier == "thorough"
    nrand = 40 if thorough else 6
    dist = {"bad_shapes": 0, "form_cases": 0, "branch_numeric": 0, "branch_label": 0, "pairs": 0, "rejected": 0, "accepted": 0}

    def asm(text):
        return probe.call({"cmd": "asm", "files": {"main.asm": text}, "merge": False})

    # ---- 0. corpus: minimised regressions run first (each file: a program that must be REJECTED)
    cdir = os.path.join(common.ROOT, "corpus", "C01")
    for fn in sorted(os.listdir(cdir)) if os.path.isdir(cdir) else []:
        if fn.endswith(".asm"):
            text = open(os.path.join(cdir, fn)).read()
            io = impl_outcome(asm(text))
            chk.count(1, 1)
            if io[0] == "ok":
                chk.oracle_failure(None, "corpus/C01/%s must be rejected but assembles to %s" % (fn, io[1]), {"text": text, "impl": io, "spec": ("rejected",)})

    # ---- 1. all mnemonics x all forms x value classes
    seen_texts = set()
    for mi, mn in enumerate(mns):
        for fi, form in enumerate(FORMS):
            if form == "FImplied":
                values = [0]
            else:
                values = IN_RANGE + OUT_RANGE + [rng.randrange(0, 65536) for _ in range(nrand)] + \
                         [rng.randrange(-2 ** 40, 2 ** 40) for _ in range(2)]
            for v in values:
                text = mn.lower() + " " + (OPERAND[form] % vtext(v, rng) if form != "FImplied" else "")
                if rng.random() < 0.3:
                    text = text.upper().replace("$", "$")
                r = asm(text)
                io = impl_outcome(r)
                m = model_encode(model, mi, fi, v, DEFAULT_PC)
                mo = model_outcome(m)
                dist["form_cases"] += 1
                dist["accepted" if io[0] == "ok" else "rejected"] += 1
                chk.count(1, 0 if text.lower() in seen_texts else 1)
                seen_texts.add(text.lower())
                if len(chk.cov["samples"]) < 4 and io[0] == "ok" and v > 255:
                    chk.sample({"text": text, "impl": io, "model": mo, "spec": m.get("spec")})
                if not same(io, mo):
                    chk.tie_break("correspondence:encode", "model and implementation disagree on %r" % text,
                                  {"text": text, "impl": io, "model": mo})
                # oracle (spec evaluated on the implementation's output)
                is_branch = m.get("branch")
                if is_branch:
                    if form == "FAbs":
                        spec = m.get("spec")
                        want = ("ok", spec) if spec is not None else ("rejected",)
                    elif form == "FImplied":
                        want = ("rejected",)
                    else:
                        want = ("rejected",)
                    in_domain = v >= 0   # address 0 is a target like any other (F-C01b repaired; regression: corpus/C01/branch_to_zero.asm)
                else:
                    spec = m.get("spec")
                    want = ("ok", spec) if spec is not None else ("rejected",)
                    in_domain = 0 <= v <= 65535
                if in_domain:
                    good = (io[0] == want[0]) and (io[0] != "ok" or io[1] == want[1])
                    if not good:
                        chk.oracle_failure(None, "%r assembles to %s, the ISA prescribes %s" % (text, io, want),
                                           {"text": text, "impl": io, "spec": want})

    # ---- 1b. operand shapes OUTSIDE the form table: nothing the ISA defines looks like this, so every one must be rejected
    #          (an error, no bytes), for every mnemonic, with and without blanks, alone and between two other statements
    bad_shapes = ["({v},x),y", "({v},x),x", "({v},y),x", "({v},y),y", "({v}),y,x", "({v}),x,y", "{v},x,y", "{v},y,x", "{v},x,x",
                  "#{v},x", "#{v},y", "(#{v})", "(#{v}),y", "{v},z", "({v},z)", "({v}),z", "{v},", "{v},x,", ",x", "()", "(,x)", "#",
                  "{v} {v}", "({v},x) ,y ,y", "({v} ,x ),y"]
    dist["bad_shapes"] = 0
    for mi, mn in enumerate(mns):
        for shape in bad_shapes:
            # `%101 %101` would be the legal expression 5 % 101: juxtaposed values must not be able to form an operator
            v = rng.choice(["$10", "$1234", "16", "lab"] + ([] if shape.count("{v}") > 1 else ["%101"]))
            op = shape.replace("{v}", v)
            if rng.random() < 0.3:
                op = op.replace(",", " , ").replace("(", "( ").replace(")", " )")
            for wrap in ("%s", "nop\n%s\nnop"):
                text = "lab: nop\n" + wrap % (mn.lower() + " " + op)
                io = impl_outcome(asm(text))
                dist["bad_shapes"] += 1
                chk.count(1, 0 if text.lower() in seen_texts else 1)
                seen_texts.add(text.lower())
                if io[0] == "ok":
                    chk.oracle_failure(None, "%r has an operand of a shape the ISA does not define, yet it assembles to %s" % (text, io[1]),
                                       {"text": text, "impl": io, "spec": ("rejected",)})

    # ---- 2. branches: all distances -140..140, numeric targets and labels, forward and backward
    branch_mns = [(i, m) for i, m in enumerate(mns) if m in ("Bcc", "Bcs", "Beq", "Bmi", "Bne", "Bpl", "Bvc", "Bvs")]
    for mi, mn in branch_mns:
        for d in range(-140, 141):
            target = DEFAULT_PC + 2 + d
            text = "%s %s" % (mn.lower(), vtext(target, rng))
            io = impl_outcome(asm(text))
            m = model.call({"cmd": "encode", "mn": mi, "form": 2, "v": target, "cur": DEFAULT_PC})
            mo = model_outcome(m)
            dist["branch_numeric"] += 1
            chk.count(1, 0 if text.lower() in seen_texts else 1)
            seen_texts.add(text.lower())
            if io[0] != mo[0] or (io[0] == "ok" and io[1] != mo[1]):
                chk.tie_break("correspondence:branch", "model and implementation disagree on %r" % text,
                              {"text": text, "impl": io, "model": mo})
            spec = m.get("spec")
            want = ("ok", spec) if spec is not None else ("rejected",)
            if not ((io[0] == want[0]) and (io[0] != "ok" or io[1] == want[1])):
                chk.oracle_failure(None, "%r (distance %d) assembles to %s, the ISA prescribes %s" % (text, d, io, want),
                                   {"text": text, "distance": d, "impl": io, "spec": want})
        # label based: backward (d = -k-2) and forward (d = k)
        ks = range(0, 141) if (thorough or mn == "Bne") else [0, 1, 125, 126, 127, 128, 129, 140]
        for k in ks:
            for direction in ("back", "fwd"):
                if direction == "back":
                    text = "l:\n" + "nop\n" * k + "%s l" % mn.lower()
                    d = -k - 2
                    pre = k
                else:
                    text = "%s l\n" % mn.lower() + "nop\n" * k + "l:"
                    d = k
                    pre = 0
                io = impl_outcome(asm(text))
                m = model.call({"cmd": "encode", "mn": mi, "form": 2, "v": DEFAULT_PC + pre + 2 + d, "cur": DEFAULT_PC + pre})
                spec = m.get("spec")
                dist["branch_label"] += 1
                chk.count(1, 0 if text.lower() in seen_texts else 1)
                seen_texts.add(text.lower())
                if spec is not None:
                    full = [0xEA] * k
                    full = (full + spec) if direction == "back" else (spec + full)
                    want = ("ok", full)
                else:
                    want = ("rejected",)
                if not ((io[0] == want[0]) and (io[0] != "ok" or io[1] == want[1])):
                    chk.oracle_failure(None, "label branch %s distance %d assembles to %s, expected %s" % (mn, d, io[:1], want[:1]),
                                       {"text": text, "distance": d, "impl": io, "spec": want})

    # ---- 3. neighbours: every ordered pair of statement forms, four separators
    stmts = ["nop", "asl", "lsr", "rol", "ror", "lda #1", "lda $10", "lda $1234", "lda $10,x", "lda $1234,y", "lda ($10,x)",
             "lda ($10),y", "jmp ($1234)", "jmp $1234", "asl $10", "lsr $10,x", "ror $1234", "sta $d020", "beq *", ".byte 1,2",
             ".word $1234", ".dword 1", ".text \"hi\"", "lab{n}:", "lab{n}: nop", "{ nop }", "lab{n}: { inx }", ".const c{n} = 1",
             ".var v{n} = 2", "m()", "m2(1, 2)", ".if 1 { nop }", ".if 0 { nop } else { iny }", ".loop 2 { nop }",
             # statements that emit nothing themselves; the instruction next to them must still assemble to the same bytes
             "* = $c100", "* = * + 0", ".assert 1 == 1", ".trace", ".trace (1)", ".segment \"default\"", ".segment \"default\" { nop }",
             ".macro mm{n}(a) { .byte a }", ".text petscii \"a\"", "-1 + 2"]
    stmts = [s for s in stmts if s != "-1 + 2"]
    prelude = ".macro m() { inx }\n.macro m2(a, b) { .byte a, b }\n"
    seps = ["\n", "\n\n", "\n// comment\n", "\n/* c */\n", " /* c */\n"] if thorough else ["\n", "\n\n", "\n// comment\n", "\n/* c */\n"]
    alone = {}
    for s in stmts:
        t = prelude + s.replace("{n}", "0")
        io = impl_outcome(asm(t))
        if io[0] != "ok":
            chk.tie_break("generator:neighbour-statement", "statement %r does not assemble alone: %s" % (s, io))
        alone[s] = io
    for a in stmts:
        for b in stmts:
            if alone[a][0] != "ok" or alone[b][0] != "ok":
                continue
            for sep in seps:
                text = prelude + a.replace("{n}", "0") + sep + b.replace("{n}", "1")
                io = impl_outcome(asm(text))
                want = ("ok", alone[a][1] + alone[b][1])
                dist["pairs"] += 1
                chk.count(1, 0 if text.lower() in seen_texts else 1)
                seen_texts.add(text.lower())
                if io != want:
                    chk.oracle_failure(None, "%r followed by %r (separator %r) assembles to %s, alone they assemble to %s" % (
                        a, b, sep, io, want), {"text": text, "impl": io, "expected": want})
    chk.sample({"text": prelude + "lsr\nlda ($10,x)", "impl": impl_outcome(asm(prelude + "lsr\nlda ($10,x)"))})
    probe.stop()
    model.stop()
    chk.cov["rule"] = ("exhaustive 56 mnemonics x 10 syntactic forms x value classes %s + out-of-range %s + %d random values per "
                       "(mnemonic, form); 8 branch mnemonics x all distances -140..140 (numeric target) and label-based forward/backward; "
                       "every ordered pair of %d statement forms x %d separators. distinct = distinct program text (case-folded), counted with a set; non-trivial = it exercises the table, the size selection or the branch arm." % (
                           IN_RANGE, OUT_RANGE, nrand, len(stmts), len(seps)))
    chk.extra["distribution"] = dist
    chk.extra["exhaustive"] = False
    chk.assumptions = [
        "the parser-side statement of neighbour independence (C01_newline_local) is decided on the implementation by the exhaustive "
        "pair sweep; its model-level proof lives with the parser model (C05/C08)",
        "operand values outside 0..65535 are truncated by the code; the property does not demand rejection, the check only compares model and implementation there",
    ]
    return chk.finish()


def replay(chk, path):
    """re-run the recorded input on /repo's current tree; exit 1 (with a VIOLATION line) when the recorded failure reproduces"""
    obj = json.load(open(path))
    rp = obj.get("replay") or {}
    if "text" not in rp:
        print(json.dumps(obj, indent=1)[:3000])
        print("this replay file names a broken proof obligation / tie, not an input; re-run ./check C01")
        return 0
    probe = Proc([common.build_probe()])
    text = rp["text"]
    io = impl_outcome(probe.call({"cmd": "asm", "files": {"main.asm": text}, "merge": False}))
    probe.stop()
    want = rp.get("spec", rp.get("expected"))
    want = tuple(want) if isinstance(want, list) else want
    if want is None:
        bad = None
    elif want[0] == "rejected":
        bad = io[0] == "ok"
    else:
        bad = not (io[0] == "ok" and list(io[1]) == list(want[1]))
    print(json.dumps({"text": text, "impl_now": io, "demanded": want, "reproduces": bad}, indent=1, default=str))
    if bad:
        print("VIOLATION property=C01 replay=%s" % path)
        return 1
    return 0

"""C08 -- layout of the source text does not change its meaning.

proof : coq/theories/props/C08.v (slot theorems for ws/mws, keyword case for every translated tag, nested comment
        scanner, bounded statement-level sweep over all statement forms and mnemonics)
tie   : the parser model is tied to the real parser on every generated layout variant (token tree, diagnostics, Display:
        the correspondence of checks/c05.py), and the model's skeleton of a variant equals the skeleton of the base
oracle: metamorphic, on the implementation alone (mosprobe `asm`): a program and its layout variants (spaces, tabs, blank
        lines, line and nested block comments incl. empty ones and comments containing code, CRLF / mixed line ends,
        letter case of mnemonics, directives, registers, hex digits, `as from else`, encodings, true/false) at the
        whitelisted boundaries give identical segment bytes, symbols and diagnostic messages.
"""
import glob
import json
import os
import random
import sys

import common
import c05
from common import Proc

sys.path.insert(0, os.path.join(common.ROOT, "gen"))
import progs  # noqa: E402

STYLES = ["normal", "heavy", "crlf", "mixed"]


def meaning(r):
    """what must not depend on layout: bytes per segment, symbols, diagnostic messages (positions dropped)"""
    if "panic" in r or "crash" in r or "hang" in r:
        return {"panic": str(r.get("panic") or r)[:200]}
    return {
        "parse": sorted(d["msg"] for d in r.get("parse_errors", [])),
        "errors": sorted(d["msg"] for d in r.get("errors", [])) if r.get("errors") is not None else None,
        "ok": r.get("ok"),
        "segments": [(s["name"], s["start"], s["data"]) for s in r.get("segments", [])],
        "symbols": r.get("symbols"),
    }


def gen_case(rng, k):
    g = progs.Gen(random.Random(rng.randrange(1 << 30)), assemble=True)
    items, files = g.program()
    kind = "valid"
    if k % 5 == 4:
        # a semantic error whose message must survive any layout
        items = items + [progs.NL, progs.lex("lda", True), progs.WS, progs.lex("no_such_symbol"), progs.NL,
                         progs.lex(".byte", True), progs.WS, progs.lex("300")]
        kind = "with_error"
    return items, files, kind


def run(chk):
    rng = random.Random(chk.seed)
    common.translate_for(chk, ["evaluator", "grammar", "parser"])
    chk.proof = common.prove("C08")
    runner = c05.Runner(chk)       # real parser vs model, same canonicalisation as C05
    runner.dist.update({"layout_variant": 0, "base": 0})
    probe = runner.probe
    thorough = chk.tier == "thorough"
    dist = {"programs": 0, "variants": 0, "valid": 0, "with_error": 0, "assemble_ok": 0, "styles": {s: 0 for s in STYLES},
            "corpus": 0, "changed_chars_avg": 0.0}

    def check_pair(base, variant, files, what):
        a = probe.call({"cmd": "asm", "files": dict(files, **{"main.asm": base})})
        b = probe.call({"cmd": "asm", "files": dict(files, **{"main.asm": variant})})
        ma, mb = meaning(a), meaning(b)
        if ma != mb:
            diffkeys = [k for k in ma if ma.get(k) != mb.get(k)] if "panic" not in ma and "panic" not in mb else ["panic"]
            chk.oracle_failure(None, "layout changed the meaning (%s differ) of %s: %r vs %r" % (",".join(diffkeys), what, base[:120], variant[:160]),
                               {"base": base, "variant": variant, "files": files, "base_meaning": ma, "variant_meaning": mb})
        return ma

    def tie(text, files, kind):
        r = runner.real_parse(text, files)
        m = runner.model.call({"cmd": "parse", "text": c05.T(text)})
        rep = {"text": text, "files": files}
        if r["r"] != m.get("r"):
            chk.tie_break("correspondence:parse", "implementation %s, model %s on %r" % (r["r"], m.get("r"), text[:120]), rep)
            return None
        if r["r"] != "ok":
            return None
        d = c05.first_diff(r["tokens"], m["tokens"], "tokens")
        if d:
            chk.tie_break("correspondence:tokens", "token trees differ at %s on %r" % (d[0], text[:120]), rep)
        elif r["diags"] != m["diags"]:
            chk.tie_break("correspondence:diagnostics", "impl %s / model %s on %r" % (r["diags"][:2], m["diags"][:2], text[:120]), rep)
        elif r["render"] != m["render"]:
            chk.tie_break("correspondence:display", "Display differs on %r" % text[:120], rep)
        return m

    # corpus: witnesses (layout pairs: <name>.base.asm / <name>.asm)
    for f in sorted(glob.glob(os.path.join(common.ROOT, "corpus", "C08", "*.asm"))):
        if f.endswith(".base.asm"):
            continue
        variant = open(f, encoding="utf-8", newline="").read()
        basef = f[:-4] + ".base.asm"
        base = open(basef, encoding="utf-8", newline="").read() if os.path.exists(basef) else None
        dist["corpus"] += 1
        chk.count(1, 1)
        mv = tie(variant, {}, "corpus")
        if base is not None:
            check_pair(base, variant, {}, os.path.basename(f))
            mb = tie(base, {}, "corpus")
            if mv and mb and mv.get("skeleton") != mb.get("skeleton"):
                chk.tie_break("model:skeleton", "model skeletons of corpus pair %s differ" % os.path.basename(f), {"text": variant})
        chk.sample({"kind": "corpus", "file": os.path.basename(f), "text": variant[:160]})

    nprog = 3000 if thorough else 320
    changed = 0
    seen = set()
    for k in range(nprog):
        items, files, kind = gen_case(rng, k)
        base = progs.render(items, rng, "min")
        dist["programs"] += 1
        dist[kind] += 1
        mb = tie(base, files, "base")
        base_meaning = None
        for style in STYLES:
            variant = progs.render(items, rng, style)
            if variant in seen or variant == base:
                continue
            seen.add(variant)
            dist["variants"] += 1
            dist["styles"][style] += 1
            changed += abs(len(variant) - len(base))
            chk.count(1, 1 if len(items) > 20 else 0)
            base_meaning = check_pair(base, variant, files, "a generated %s program (%s layout)" % (kind, style))
            mv = tie(variant, files, "layout_variant")
            if mv and mb and mv.get("skeleton") != mb.get("skeleton"):
                chk.tie_break("model:skeleton", "the model's skeleton of a layout variant differs from the base's: %r" % variant[:160],
                              {"text": variant, "base": base})
            if mb and mb.get("diags"):
                chk.tie_break("generator", "generated base program has parse diagnostics %s" % mb["diags"][:2], {"text": base})
            if k < 2 and style == "heavy":
                chk.sample({"kind": kind, "base": base[:300], "variant": variant[:500]})
        if base_meaning and base_meaning.get("ok"):
            dist["assemble_ok"] += 1
    dist["changed_chars_avg"] = round(changed / max(1, dist["variants"]), 1)
    runner.probe.stop()
    runner.model.stop()
    chk.cov["rule"] = ("grammar-generated programs over all statement forms (instructions in all addressing modes, data, text with interpolation, "
                       "const/var, labels with and without blocks, braces, pc, align, loop, if/else, macro definition and invocation, segment "
                       "definition and use, imports in three forms, tests with assert/trace; every fifth program carries a semantic error), each "
                       "rendered in the canonical minimal layout and in 4 layout styles (random blanks/tabs/nested and code-containing block "
                       "comments/line comments incl. empty ones/blank lines; heavy; CRLF; mixed line ends) with random letter case of every "
                       "case-insensitive lexeme; base vs variant on the implementation: segment bytes, symbols, diagnostic messages. "
                       "distinct = distinct variant text; non-trivial = program with more than 20 layout items")
    chk.extra["distribution"] = dist
    chk.assumptions = [
        "whitelisted boundaries = the ws/mws slots of the grammar as listed by gen/progs.py (single-line trivia inside a statement, "
        "multi-line trivia in front of a statement / around braces / inside config maps); a separator is kept between adjacent alphanumerics; "
        "the slot after a unary minus is not a boundary (documented restriction: `- x` is the scope identifier `-`)",
        "the statement / whole-file layout theorems (props/C08.v: C08_layout_inner, C08_layout_file) cover replacement of trivia by other "
        "trivia (also trailing trivia on one side only) in texts without string literals; insertion/removal between touching tokens, strings and "
        "keyword case are proved on a finite domain only (C08_layout_bounded_partial) and otherwise decided by the correspondence and the "
        "metamorphic oracle on the implementation",
        "`bytes depend only on the skeleton` has no code model in this unit: decided by the metamorphic oracle",
    ]
    return chk.finish(extra_trusted=[
        "hand model: coq/theories/model/{Nom,Parser,Display}.v, spec/LayoutEquiv.v (skeleton), validated by correspondence on every variant",
        "gen/progs.py (layout skeleton of generated programs: which boundaries are whitelisted), extract/driver_c05.ml",
    ])


def replay(chk, path):
    obj = json.load(open(path))
    rp = obj.get("replay") or {}
    probe = Proc([common.build_probe()])
    out = {}
    for k in ("base", "variant", "text"):
        if k in rp:
            r = probe.call({"cmd": "asm", "files": dict(rp.get("files") or {}, **{"main.asm": rp[k]})})
            out[k] = {"text": rp[k], "meaning": meaning(r)}
    print(json.dumps(out, indent=1, ensure_ascii=False))
    probe.stop()
    return 0

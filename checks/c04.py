"""C04 -- invalid programs are rejected at the offending location and produce no binary."""
import json
import os
import random
import re
import shutil
import subprocess
import tempfile

import common
import c11gen
from common import Proc, log

CLASSES = ["undef_symbol", "undef_macro", "undef_segment", "redef_label", "redef_const", "illegal_mode", "imm_range",
           "branch_range", "macro_arity", "malformed", "unclosed_block"]
SEMANTIC = {"undef_symbol": "UndefinedSymbol", "undef_macro": "UndefinedMacro", "undef_segment": "UndefinedSegment",
            "redef_label": "Redefinition", "redef_const": "Redefinition", "illegal_mode": "InvalidInstruction",
            "imm_range": "InvalidInstruction", "branch_range": "BranchTooFar", "macro_arity": "MacroArity"}
MESSAGE = {"undef_symbol": r"unknown identifier: fzundef", "undef_macro": r"unknown identifier: fznomacro",
           "undef_segment": r'unknown identifier: "fznoseg"', "redef_label": r"cannot redefine symbol: .*fzdup",
           "redef_const": r"cannot redefine symbol: .*fzdup", "illegal_mode": r"invalid instruction", "imm_range": r"invalid instruction",
           "branch_range": r"branch too far", "macro_arity": r"expected 2 arguments, got \d", "malformed": r"unexpected|expected",
           "unclosed_block": r"expected closing delimiter|unexpected|expected"}


def make_fault(rng, klass, macros_with_arg=None, namespaces=None):
    """lines to insert (relative to one slot) and where the offending construct is:
    -> (lines, bad_line_index, bad_col, parts) ; parts = spans (col_lo, col_hi) on the bad line of what the error arms see"""
    r = rng
    if klass == "undef_symbol":
        # the faulty name alone or inside a larger expression (next to defined(..), !, -, modifiers, parentheses, a dotted
        # path), in every statement kind that evaluates an expression; `@` marks where the name goes
        shapes = ["lda @", "sta @", ".byte 1, @ + 1", ".word @", ".if @ { nop }", "cmp #<@", "lda #>@", ".byte !@", ".byte -@",
                  ".byte 1 + (@ * 2)", ".if @ && defined(fzother) { nop }", ".if defined(fzother) || @ { nop }",
                  ".if !defined(fzother) && @ { nop } else { inx }", "lda #@ + defined(fzother)", ".byte defined(fzother), @",
                  ".word defined(fzother) + 2 * @", ".loop @ { nop }", ".align @", ".word 1, 2, @", ".dword @", ".const fzc9 = @ + 1",
                  ".var fzv9 = @", ".if 1 + @ { nop } else { inx }", ".text @", "jmp @", "bne @", "lda @,x", "lda (@),y", "* = @",
                  ".byte @.sub", ".loop 1 + @ { nop }", ".if @ == 1 && defined(fzother) { nop }"]
        # the name as the RIGHT operand of `&&` / `||` whose left operand already decides the result (constant 0 / non-zero):
        # the evaluator does not short-circuit, an undefined symbol in a subexpression that does not matter is still an error
        shapes += [".if 0 && @ { nop }", ".if 1 || @ { nop }", ".byte 0 && @", "lda #1 || @", ".byte (0 && @) + 1",
                   ".if defined(fzother) && @ { nop } else { inx }", ".if 2 > 3 && @ == 1 { nop }", ".word 5 || @",
                   ".loop 0 && @ { nop }", ".if 7 || @ > 3 { nop }", ".if 0 && 1 && @ { nop }", ".const fzc8 = 0 && @", "ldx #(1 || @)"]
        shapes += ["%s(0 && @)" % m for m in (macros_with_arg or [])]
        shapes += ["%s(@)" % m for m in (macros_with_arg or [])] + ["%s(1 + @)" % m for m in (macros_with_arg or [])]
        sh = r.choice(shapes)
        at = sh.index("@")
        # a name that exists nowhere -- or one that resolves to a NAMESPACE node of the symbol graph, which has no value
        # either (`segments`, `segments.<name>`, the alias of `.import * as <alias>`)
        name = r.choice(namespaces) if namespaces and r.random() < 0.4 else "fzundef"
        line = sh.replace("@", name)
        hi = at + len(name) + (4 if sh[at + 1:at + 5] == ".sub" else 0)
        return [line], 0, at, {"usage": (at, hi), "ident": name}
    if klass == "undef_macro":
        args = r.choice(["", "1", "1, 2"])
        return ["fznomacro(%s)" % args], 0, 0, {"name": (0, 9)}
    if klass == "undef_segment":
        return ['.segment "fznoseg" { nop }'], 0, 9, {"segment_id": (9, 18)}
    if klass == "redef_label":
        mid = r.choice([[], ["nop"], ["inx", "iny"]])
        return ["fzdup: nop"] + mid + ["fzdup: inx"], 1 + len(mid), 0, {"definition_id": (0, 5)}
    if klass == "redef_const":
        return [".const fzdup = 1", ".const fzdup = %d" % r.randrange(2, 99)], 1, 7, {"definition_id": (7, 12)}
    if klass == "illegal_mode":
        line, hi = r.choice([("sta #1", 6), ("stx $1234,x", 9), ("sty $1234,y", 9), ("jmp #7", 6), ("ldx $12,x", 7)])
        return [line], 0, 0, {"mnemonic": (0, 3), "full": (0, hi)}
    if klass == "imm_range":
        v = r.choice(["256", "$1ff", "300", "65535", "$100"])
        m = r.choice(["lda", "ldx", "cmp", "adc", "and"])
        line = "%s #%s" % (m, v)
        return [line], 0, 0, {"mnemonic": (0, 3), "full": (0, len(line))}
    if klass == "branch_range":
        m = r.choice(sorted(c11gen.BRANCH))
        if r.random() < 0.6:      # forward: overshoot by 1, 2 or more (the labels behind it are not pinned)
            n = r.choice([128, 129, 130, 140, 200])
            return ["%s fzfar" % m, '.text "%s"' % ("a" * n), "fzfar: nop", "fzaft: nop", "jmp fzaft"], 0, 0, {"mnemonic": (0, 3)}
        n = r.choice([127, 128, 129, 150])   # backward: offset = -(n + 2) < -128
        return ["fzfar: nop", '.text "%s"' % ("a" * (n - 1)), "%s fzfar" % m], 2, 0, {"mnemonic": (0, 3)}
    if klass == "macro_arity":
        args = r.choice(["", "1", "1, 2, 3"])
        return ["fzm(%s)" % args], 0, 0, {"name": (0, 3)}
    if klass == "malformed":
        return [r.choice(["lda #", ".byte ,", "%%%", "lda (", ".word 1 +", "nop nop )", ".const = 3", "sta ,x"])], 0, None, {}
    if klass == "unclosed_block":
        return [r.choice(["fzb: {", "{", ".loop 2 {", ".if 1 {"]), "nop"], 0, None, {}
    raise ValueError(klass)


def inject(rng, g, executed, klass):
    """-> (files, fault) or None: exactly one fault of the class at an arbitrary executed position"""
    slots = [s for s in g.slots if s[0] in executed]
    if klass == "macro_arity":
        slots = [s for s in slots if s[1] == "main.asm"]
    if not slots:
        return None
    # an arbitrary position: first an executed statement list (top level, segment, block, loop body, taken branch, macro
    # body, imported file), then a position in it
    by_container = {}
    for sl in slots:
        by_container.setdefault(sl[0], []).append(sl)
    cont, fname, off, depth = rng.choice(by_container[rng.choice(sorted(by_container))])
    # macros of the valid program that take one argument (visible in the main file)
    # (not inside a macro body: calling a macro from its own body would be a second fault -- unbounded recursion)
    def lists(items):
        yield items
        for n in items:
            for key in ("items", "then", "else"):
                if isinstance(n.get(key), list):
                    yield from lists(n[key])
    in_macro = set(g.cid(l) for _, _, body in g.macros for l in lists(body))
    mwa = [name for name, has_arg, _ in g.macros if has_arg] if (fname == "main.asm" and cont not in in_macro) else []
    ns = ["segments"] + ["segments.%s" % n for n, _, _ in g.segdefs] + ([] if g.segdefs else ["segments.default"])
    if fname == "main.asm":
        ns += [n["alias"] for n in c11gen.walk(g.top) if n["k"] == "import" and "alias" in n]
    lines, bad_idx, bad_col, parts = make_fault(rng, klass, mwa, ns)
    name = parts.pop("ident", None)
    files = dict(g.files)
    data = files[fname].encode("utf-8")
    # slots are line starts; the end of the main file may have been re-written after the slot was recorded
    # (final newlines stripped, `fwd: nop` appended): snap back to the start of the line the offset falls into
    prefix = b""
    if off >= len(data):
        off = len(data)
        if off > 0 and data[off - 1:off] != b"\n":
            prefix = b"\n"
    else:
        while off > 0 and data[off - 1:off] != b"\n":
            off -= 1
    indent = "  " * depth
    ins = "".join(indent + l + "\n" for l in lines)
    new = data[:off] + prefix + ins.encode() + data[off:]
    first_line = (data[:off] + prefix).count(b"\n")
    files[fname] = new.decode("utf-8")
    fault = {"class": klass, "file": fname, "line": first_line + bad_idx, "col": None if bad_col is None else len(indent) + bad_col,
             "first_line": first_line, "lines": lines, "name": name,
             "parts": {k: (len(indent) + a, len(indent) + b) for k, (a, b) in parts.items()}}
    if klass == "macro_arity":
        # the definition lives on another line of the main file (top level)
        top = [s for s in g.slots if s[0] == g.cid(g.top)]
        d = files["main.asm"].encode("utf-8")
        d0 = g.files["main.asm"].encode("utf-8")
        doff = min(rng.choice(top)[2], len(d0))
        if doff < len(d0):
            while doff > 0 and d0[doff - 1:doff] != b"\n":
                doff -= 1
        # offsets behind the insertion point moved
        if fname == "main.asm" and doff > off:
            doff += len(prefix) + len(ins.encode())
        dpre = b"\n" if doff > 0 and d[doff - 1:doff] != b"\n" else b""
        dline = b".macro fzm(a, b) { nop }\n"
        files["main.asm"] = (d[:doff] + dpre + dline + d[doff:]).decode("utf-8")
        if fname == "main.asm" and doff <= off:
            fault["line"] += 1 + len(dpre)
            fault["first_line"] += 1 + len(dpre)
        fault["definition_line"] = (d[:doff] + dpre).count(b"\n")
    return files, fault


# ----------------------------------------------------------------------------- oracle
def matches(fault, d, style):
    """does diagnostic d = (file, line0, col0, msg) name the injected construct?"""
    f, line, col, msg = d
    if f is None or os.path.basename(f) != fault["file"]:
        return False
    pat = MESSAGE[fault["class"]] if not fault.get("name") else r"unknown identifier: " + re.escape(fault["name"])
    if not re.search(pat, msg):
        return False
    if fault["class"] == "unclosed_block":
        return line >= fault["line"]           # the opening line, or wherever the closing brace was expected (behind it)
    if fault["class"] == "malformed":
        return line == fault["line"]
    return line == fault["line"] and col == fault["col"]


SHORT = re.compile(r"^(.*?):(\d+):(\d+): error: (.*)$")


def parse_short(out):
    ds = []
    for l in out.splitlines():
        m = SHORT.match(l.strip())
        if m:
            ds.append((m.group(1), int(m.group(2)) - 1, int(m.group(3)) - 1, m.group(4)))
        elif l.strip().startswith("error:"):
            ds.append((None, None, None, l.strip()[6:].strip()))
    return ds


def snapshot(t):
    snap = {}
    for root, dirs, names in os.walk(t):
        for n in dirs + names:
            p = os.path.join(root, n)
            st = os.stat(p)
            data = None
            if os.path.isfile(p):
                with open(p, "rb") as f:
                    data = f.read()
            snap[os.path.relpath(p, t)] = (st.st_mtime_ns, st.st_size, data)
    return snap


def run_build(mos, files, workdir, rng, listing, symbols):
    d = tempfile.mkdtemp(prefix="c04_", dir=workdir)
    try:
        for name, text in files.items():
            with open(os.path.join(d, name), "w", encoding="utf-8", newline="") as f:
                f.write(text)
        with open(os.path.join(d, "mos.toml"), "w") as f:
            f.write('[build]\nentry = "main.asm"\nlisting = %s\n%s' % ("true" if listing else "false", 'symbols = ["vice"]\n' if symbols else ""))
        # a pre-existing target directory with the products of an earlier build
        t = os.path.join(d, "target")
        os.makedirs(t)
        for n, data in (("main.prg", b"\x00\x20OLD"), ("main.lst", b"old listing"), ("main.vs", b"old symbols"), ("keep.txt", b"x")):
            with open(os.path.join(t, n), "wb") as f:
                f.write(data)
            os.utime(os.path.join(t, n), (1000000000, 1000000000))
        for fname in files:
            stem = os.path.splitext(fname)[0]
            with open(os.path.join(t, stem + ".lst"), "wb") as f:
                f.write(b"old listing")
            os.utime(os.path.join(t, stem + ".lst"), (1000000000, 1000000000))
        os.utime(t, (1000000000, 1000000000))
        before = snapshot(t)
        p = subprocess.run([mos, "--error-style", "Short", "--no-color", "build"], cwd=d, stdout=subprocess.PIPE, stderr=subprocess.STDOUT,
                           env=common.ENV, timeout=120)
        after = snapshot(t)
        return p.returncode, common.clean(p.stdout.decode("utf-8", "replace")), before, after
    finally:
        shutil.rmtree(d, ignore_errors=True)


def diff_snapshots(before, after):
    out = []
    for k in sorted(set(before) | set(after)):
        if k not in before:
            out.append("created " + k)
        elif k not in after:
            out.append("deleted " + k)
        elif before[k] != after[k]:
            out.append("modified " + k)
    return out


def probe_diags(r):
    ds = []
    for e in (r.get("parse_errors") or []) + (r.get("errors") or []):
        ds.append((e.get("file"), e.get("line"), e.get("col"), e.get("msg", ""), e.get("lo"), e.get("hi"), e.get("flen")))
    return ds


SOURCE_PART = {"SrcUsagePath": "usage", "SrcInvocationName": "name", "SrcSegmentId": "segment_id", "SrcDefinitionId": "definition_id",
               "SrcInstructionFull": "full", "SrcMnemonic": "mnemonic"}


def check_probe(chk, probe, files, fault, table, dist):
    r = probe.call({"cmd": "asm", "files": files, "pc": 0x2000, "merge": False})
    replay = {"files": files, "fault": fault}
    if r.get("panic") or r.get("hang") or r.get("crash"):
        chk.oracle_failure(None, "the assembler does not terminate cleanly on a faulty program: %s" % str(r)[:200], replay)
        return
    ds = probe_diags(r)
    ok = r.get("ok") and not r.get("parse_errors")
    dist["probe_runs"] += 1
    if ok:
        chk.oracle_failure(None, "a program with a %s fault assembles without a diagnostic" % fault["class"], replay)
        return
    hit = [d for d in ds if matches(fault, d[:4], "probe")]
    if not hit:
        chk.oracle_failure(None, "no diagnostic names the injected %s at %s:%d:%s; got %s" % (
            fault["class"], fault["file"], fault["line"] + 1, None if fault["col"] is None else fault["col"] + 1,
            [(d[0], d[1] + 1 if d[1] is not None else None, d[2] + 1 if d[2] is not None else None, d[3]) for d in ds[:5]]), replay)
        return
    # spans lie within their file; an `unexpected '<text>'` diagnostic (error token) spans exactly that text, an
    # `expected ...` diagnostic (failed expect) is a point (C04_error_token_reported / C04_expect_reported on the implementation)
    for d in ds:
        if d[4] is not None and not (0 <= d[4] <= d[5] <= d[6]):
            chk.oracle_failure(None, "a diagnostic's span is not within its file: %s" % (d,), replay)
        elif d[4] is not None and d[0] in files:
            raw = files[d[0]].encode("utf-8")[d[4]:d[5]].decode("utf-8", "replace")
            m = re.fullmatch(r"unexpected '(.*)'", d[3], re.S)
            if m and m.group(1) != raw:
                chk.oracle_failure(None, "an error token's diagnostic does not span the token's text: %r vs %r" % (d[3], raw), replay)
            if re.match(r"expected (expression|closing delimiter|config map)", d[3]) and d[4] != d[5]:
                chk.oracle_failure(None, "an `expected ..` diagnostic is not a point: %s" % (d,), replay)
    # tie: the span the model predicts (Gen.ErrSpans source applied to the construct's parts) is the reported span
    kind = SEMANTIC.get(fault["class"])
    if kind:
        src = table.get(kind)
        part = fault["parts"].get(SOURCE_PART.get(src, ""))
        if part is None:
            chk.tie_break("correspondence:error_span", "the model predicts span source %s for %s, which the generator cannot place" % (src, kind), replay)
        else:
            text = files[fault["file"]].encode("utf-8")
            line_start = sum(len(l) + 1 for l in text.split(b"\n")[:fault["line"]])
            want = (line_start + part[0], line_start + part[1])
            got = [(d[4], d[5]) for d in hit]
            if want not in got:
                chk.tie_break("correspondence:error_span", "%s: model span %s, implementation %s" % (kind, want, got), replay)


def run(chk):
    rng = random.Random(chk.seed)
    tr = common.translate_for(chk, ["passloop", "errspans", "buildflow"])
    table = (tr.get("errspans") or {}).get("table") or {}
    chk.proof = common.prove("C04")
    probe = Proc([common.build_probe()], timeout=60.0)
    mos = common.build_mos()
    thorough = chk.tier == "thorough"
    nprog = 900 if thorough else 150
    workdir = os.path.join(common.CACHE, "work")
    os.makedirs(workdir, exist_ok=True)
    dist = {"programs": 0, "probe_runs": 0, "builds": 0, "no_slot": 0, "in_import": 0, "nested": 0}
    for k in CLASSES:
        dist[k] = 0
    cases = []
    cdir = os.path.join(common.ROOT, "corpus", "C04")
    if os.path.isdir(cdir):
        for fn in sorted(os.listdir(cdir)):
            if fn.endswith(".json"):
                o = json.load(open(os.path.join(cdir, fn), encoding="utf-8"))
                cases.append((o["files"], o["fault"], True))
    seen = set()
    for i in range(nprog):
        # exactly ONE fault: the inserted bytes must not push an existing branch of the valid program out of its range.
        # Small insertions (< 27 bytes incl. a shifted .align) go into programs whose branches keep that slack; the
        # branch-range fault inserts > 130 bytes and goes into a program without branch instructions of its own.
        g, labels = c11gen.build(rng, branch_slack=27)
        ex = c11gen.Exec(g, False, labels)
        ex.run_items(g.top, {})
        g2, labels2 = c11gen.build(rng, no_branch=True)
        ex2 = c11gen.Exec(g2, False, labels2)
        ex2.run_items(g2.top, {})
        dist["programs"] += 2
        # every class on every program through the probe; a rotating third of them end to end
        for j, klass in enumerate(CLASSES):
            res = inject(rng, g2, ex2.executed, klass) if klass == "branch_range" else inject(rng, g, ex.executed, klass)
            if res is None:
                dist["no_slot"] += 1
                continue
            files, fault = res
            key = json.dumps(files, sort_keys=True)
            if key in seen:
                continue
            seen.add(key)
            cases.append((files, fault, (i + j) % 3 == 0))
    for files, fault, e2e in cases:
        dist[fault["class"]] += 1
        dist["in_import"] += 1 if fault["file"] != "main.asm" else 0
        dist["nested"] += 1 if fault["lines"] and files[fault["file"]].split("\n")[fault["line"]].startswith("  ") else 0
        chk.count(1, 1)
        check_probe(chk, probe, files, fault, table, dist)
        if e2e:
            listing, symbols = rng.random() < 0.7, rng.random() < 0.5
            rc, out, before, after = run_build(mos, files, workdir, rng, listing, symbols)
            dist["builds"] += 1
            replay = {"files": files, "fault": fault, "listing": listing, "symbols": symbols, "output": out[-2000:]}
            if rc == 0:
                chk.oracle_failure(None, "`mos build` exits 0 on a program with a %s fault" % fault["class"], replay)
            ds = parse_short(out)
            if not any(matches(fault, d, "short") for d in ds):
                chk.oracle_failure(None, "`mos build`: no diagnostic names the injected %s at %s:%d:%s; output: %s" % (
                    fault["class"], fault["file"], fault["line"] + 1, None if fault["col"] is None else fault["col"] + 1, out[-400:]), replay)
            changed = diff_snapshots(before, after)
            if changed:
                chk.oracle_failure(None, "`mos build` failed but touched the target directory: %s" % ", ".join(changed[:6]), replay)
            chk.sample({"fault": fault, "exit": rc, "output": out[-300:], "target_changes": changed}, limit=4)
    probe.stop()
    chk.cov["rule"] = ("valid generated programs (checks/c11gen.py: scopes, macro bodies, loop bodies, taken conditionals, imported "
                       "files, segments) into which exactly ONE fault of each of the 11 classes is injected at a random executed "
                       "statement position; each faulty program is assembled through mosprobe (one diagnostic must name "
                       "file+line(+column) of the injected construct, spans within the file, reported span = the model's predicted "
                       "span) and a third of them end to end with `mos build --error-style Short` in a project whose target "
                       "directory pre-exists with old products (exit status, file:line:col, snapshot of names/contents/mtimes); "
                       "distinct = distinct file contents; every case is non-trivial")
    chk.extra["distribution"] = dist
    chk.assumptions = ["same-value redefinitions are accepted by mos (documented) and are not injected",
                       "for an unclosed block any parse diagnostic in the same file at or behind the opening line is accepted",
                       "an I/O failure while writing output files (IoError in model/Build.v) is not a diagnostic and is outside C04"]
    return chk.finish(extra_trusted=["translators t_passloop / t_errspans / t_buildflow (shape-checked regular expressions over the Rust source)",
                                     "checks/c11gen.py (valid programs) and the fault injector's knowledge of where the injected construct is"])


def replay(chk, path):
    obj = json.load(open(path))
    rp = obj.get("replay", obj)
    probe = Proc([common.build_probe()])
    r = probe.call({"cmd": "asm", "files": rp["files"], "pc": 0x2000, "merge": False})
    print(json.dumps({"what": obj.get("what"), "fault": rp.get("fault"), "parse_errors": r.get("parse_errors"), "errors": r.get("errors")},
                     indent=1, ensure_ascii=False))
    probe.stop()
    return 0

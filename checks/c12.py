"""C12 -- formatting never changes what a program means and never loses comments."""
import json
import os
import random
import shutil
import subprocess
import tempfile
import time

import common
import fmtlib
from common import Proc, log
from fmtlib import S, T

CLEAN = ["comments", "line_comments", "newline_gaps", "long_labels"]


def chunks_plain(cs):
    return [[c[0], c[1], S(c[2])] for c in cs]


class Ctx:
    def __init__(self, chk, need_mos=True):
        self.chk = chk
        self.probe = Proc([common.build_probe("harness_fmt", "fmtprobe")])
        self.mosprobe = Proc([common.build_probe()])
        self.model = Proc([common.build_model("fmt")], timeout=60.0)
        # the whole Gallina pipeline parse (model/Parser.v) -> project (model/FormatParse.v) -> format
        self.srcmodel = Proc([common.build_model("fmtsrc")], timeout=120.0)
        self.mos = common.build_mos() if need_mos else None

    def stop(self):
        for p in (self.probe, self.mosprobe, self.model, self.srcmodel):
            p.stop()


def asm_view(mosprobe, files):
    """what the program assembles to: per-segment bytes and the diagnostics (messages only: positions legitimately move)"""
    r = mosprobe.call({"cmd": "asm", "files": files, "merge": False})
    if "panic" in r or "crash" in r or "hang" in r:
        return {"crash": str(r)[:200]}
    segs = [(s["name"], s["start"], s["data"]) for s in r.get("segments", [])]
    return {"parse_errors": sorted(e["msg"] for e in r.get("parse_errors", [])),
            "errors": sorted(e["msg"] for e in r.get("errors", [])), "segments": segs}


def nowsp(s):
    return "".join(s.split())


def multiset_minus(a, b):
    b = list(b)
    out = []
    for x in a:
        if x in b:
            b.remove(x)
        else:
            out.append(x)
    return out


def classify(ctx, tokens_by_file, fmt):
    """the Known_* classes (predicates extracted from Coq) that hold of this project, and per file the comments that sit
    in the trivia of a directive's `{` (the only ones the known finding F-C12a allows to disappear)"""
    out = set()
    lbrace = {}
    for name, toks in tokens_by_file.items():
        r = ctx.model.call({"cmd": "classify", "fmt": fmt, "tokens": toks})
        for k in r.get("classes", []):
            out.add(k)
        if not r.get("wf", True):
            out.add("!not_wf")
        lbrace[name] = multiset_minus([nowsp(S(c)) for c in r.get("all_comments", [])], [nowsp(S(c)) for c in r.get("no_lbrace_comments", [])])
    return out, lbrace


def check_project(ctx, files, fmt, dist, origin):
    """tie + oracle for one project x one option set.  returns the formatted files (or None)"""
    chk = ctx.chk
    r = ctx.probe.call({"cmd": "chunks", "files": files, "fmt": fmt, "ast": True})
    if "files" not in r:
        if r.get("parse_errors"):
            dist["rejected_by_parser"] = dist.get("rejected_by_parser", 0) + 1
            return None
        chk.tie_break("probe", "fmtprobe failed: %s" % str(r)[:300], {"files": files, "fmt": fmt})
        return None
    replay = {"files": files, "fmt": fmt, "origin": origin}
    toks = {n: fmtlib.ast_to_model(r["ast"]["files"][n]["tokens"]) for n in r["files"]}
    classes, lbrace = classify(ctx, toks, fmt)
    if "!not_wf" in classes:
        chk.tie_break("correspondence:wf", "an AST produced by the real parser violates the parser invariants assumed by the theorems (wf_tokens)", replay)
    for k in classes:
        dist["class:" + k] = dist.get("class:" + k, 0) + 1
    formatted = {}
    ok = True
    for name, f in sorted(r["files"].items()):
        # ---------------- tie: model of format_tokens / join_chunks against the real chunk list and the real output
        m = ctx.model.call({"cmd": "format", "fmt": fmt, "tokens": toks[name]})
        if "formatted" not in m:
            chk.tie_break("model", "mosmodel_fmt failed: %s" % str(m)[:300], replay)
            continue
        if "chunks" in f and chunks_plain(m["chunks"]) != chunks_plain(f["chunks"]):
            chk.tie_break("correspondence:format_tokens", "model and real chunk lists differ for %s" % name,
                          dict(replay, model=chunks_plain(m["chunks"]), impl=chunks_plain(f["chunks"])))
        if "formatted" in f:
            if S(m["formatted"]) != f["formatted"]:
                chk.tie_break("correspondence:format", "model and real formatter output differ for %s" % name,
                              dict(replay, model=S(m["formatted"]), impl=f["formatted"]))
            if f.get("joined") != f["formatted"]:
                chk.tie_break("correspondence:hook", "verif_join_chunks(verif_chunks) differs from format()", replay)
            formatted[name] = f["formatted"]
            # tie of `format_source` (the Gallina term format o (parse s)): source text in, formatted text out
            sm = ctx.srcmodel.call({"cmd": "format_source", "fmt": fmt, "text": T(files[name])})
            if "formatted" not in sm or sm["formatted"] is None or S(sm["formatted"]) != f["formatted"]:
                chk.tie_break("correspondence:format_source", "format o (parse s) of the model differs from the real parse + format for %s" % name,
                              dict(replay, model=None if not sm.get("formatted") else S(sm["formatted"]), impl=f["formatted"]))
            elif sm.get("shaped") is not True:
                # C12_parser_shaped (proved over the parser model) evaluated by the extracted model on this parse: must be true
                chk.tie_break("theorem:parser_shaped", "the extracted parser_shaped is false on the parse of %s although C12_parser_shaped proves it" % name,
                              dict(replay, shaped=sm.get("shaped")))
            dist["format_source_cases"] = dist.get("format_source_cases", 0) + 1
            # oracle on the implementation for the same statement: blanks, line breaks and ASCII case aside, same characters
            if fmtlib.plain_chars(f["formatted"]) != fmtlib.plain_chars(files[name]):
                chk.oracle_failure(None, "formatting %s changed characters other than blanks, line breaks and letter case" % name,
                                   dict(replay, formatted=f["formatted"]))
        else:
            ok = False
            chk.oracle_failure(None, "the formatter panics: %s" % f.get("panic", "")[:200], replay)
    if not ok:
        return None
    # ---------------- oracle on the implementation (independent of the model)
    new_files = dict(files)
    new_files.update(formatted)
    r2 = ctx.probe.call({"cmd": "chunks", "files": new_files, "fmt": fmt, "ast": True})

    def fail(what, extra=None):
        klass = None
        for k in ("Known_same_line_statements", "Known_lbrace_trivia"):
            if k in classes and k in what_classes:
                klass = k
                break
        chk.oracle_failure(klass, what, dict(replay, formatted=formatted, classes=sorted(classes), **(extra or {})))

    what_classes = set()
    if "files" not in r2:
        what_classes = {"Known_same_line_statements"}
        fail("the formatted text does not parse: %s" % str(r2.get("parse_errors"))[:200])
        return formatted
    for name in sorted(formatted):
        a1, a2 = r["ast"]["files"][name], r2["ast"]["files"][name]
        w1, w2 = fmtlib.token_words(a1), fmtlib.token_words(a2)
        if [w.lower() for w in w1] != [w.lower() for w in w2]:
            what_classes = {"Known_same_line_statements"}
            i = next((i for i, (x, y) in enumerate(zip(w1, w2)) if x.lower() != y.lower()), min(len(w1), len(w2)))
            fail("%s: the formatted text parses to a different token sequence (first difference at token %d: %r vs %r)" % (
                name, i, w1[i:i + 3], w2[i:i + 3]))
            continue
        c1, c2 = fmtlib.comments_in_order(a1), fmtlib.comments_in_order(a2)
        n1, n2 = ["".join(c.split()) for c in c1], ["".join(c.split()) for c in c2]
        if n1 != n2:
            lost = multiset_minus(n1, n2)
            # known only if exactly comments in front of a directive's `{` disappeared and everything else kept its order
            if lost and not multiset_minus(lost, lbrace[name]) and multiset_minus(n1, lost) == n2:
                what_classes = {"Known_lbrace_trivia"}
            else:
                what_classes = set()
            fail("%s: comments are not preserved in order: %d before, %d after; lost %s" % (name, len(n1), len(n2), lost[:4]),
                 {"before": c1, "after": c2})
            continue
        s1, s2 = fmtlib.strip_positions(a1["tokens"]), fmtlib.strip_positions(a2["tokens"])
        if fmtlib.fold_ws_comments(s1) != fmtlib.fold_ws_comments(s2):
            what_classes = {"Known_same_line_statements"}
            fail("%s: the formatted text parses to a different token tree" % name)
    v1, v2 = asm_view(ctx.mosprobe, files), asm_view(ctx.mosprobe, new_files)
    dist["assembles_ok" if not v1.get("errors") and "crash" not in v1 else "assembles_with_errors"] = \
        dist.get("assembles_ok" if not v1.get("errors") and "crash" not in v1 else "assembles_with_errors", 0) + 1
    if v1 != v2:
        what_classes = {"Known_same_line_statements"}
        fail("assembling the formatted project gives different bytes or diagnostics", {"before": v1, "after": v2})
    return formatted


def random_chunks(rng):
    """arbitrary chunk lists (not only reachable ones) for the join_chunks tie"""
    n = rng.choice([0, 1, 2, 3, 5, 8, 13])
    cs = []
    words = ["nop", "lda #1", "x", "// c", "/* a */", "/* a\n b */", "lb:", "averyveryverylonglabelname:", "é", "ééééééééééééééééééééééééééé",
             " ", "  ", "{", "}", "\n", "\n", "\n", " \n", "a\nb", "\n\n", "", " ", "　x", "🙂🙂"]
    for _ in range(n):
        cs.append([rng.choice([0, 0, 0, 1, 2, 2]), rng.choice([0, 0, 4, 8, 3]), T(rng.choice(words))])
    return cs


def join_tie(ctx, rng, n, dist):
    chk = ctx.chk
    for i in range(n):
        cs = random_chunks(rng)
        fmt = fmtlib.gen_options(rng)
        r = ctx.probe.call({"cmd": "join", "chunks": cs, "fmt": fmt})
        m = ctx.model.call({"cmd": "join", "chunks": cs, "fmt": fmt})
        chk.count(1, 1 if len(cs) >= 2 else 0)
        dist["random_chunk_lists"] = dist.get("random_chunk_lists", 0) + 1
        if "joined" not in r:
            chk.oracle_failure(None, "join_chunks panics on a chunk list: %s" % str(r)[:200], {"chunks": chunks_plain(cs), "fmt": fmt})
            continue
        if m.get("joined") != r["joined"]:
            chk.tie_break("correspondence:join_chunks", "model and real line assembly differ on a random chunk list",
                          {"chunks": chunks_plain(cs), "fmt": fmt, "model": S(m.get("joined", [])), "impl": S(r["joined"])})
        # oracle (C12_join_preserves evaluated on the real output): non-whitespace characters preserved in order
        if all(c[2] for c in cs):
            want = "".join("".join(S(c[2]).split()) for c in cs)
            got = "".join(S(r["joined"]).split())
            if want != got:
                chk.oracle_failure(None, "line assembly changed the non-whitespace characters of a chunk list",
                                   {"chunks": chunks_plain(cs), "fmt": fmt, "impl": S(r["joined"])})


def e2e_format(ctx, files, fmt, expect, break_file, workdir):
    """`mos format` in a project directory.  expect: {name: text} the formatter output per file.
    break_file: a file name to which a parse error is appended (then nothing may be touched)."""
    d = tempfile.mkdtemp(prefix="c12_", dir=workdir)
    try:
        files = dict(files)
        if break_file:
            files[break_file] = files[break_file] + "\n)\n"
        for n, s in files.items():
            with open(os.path.join(d, n), "w", encoding="utf-8", newline="") as f:
                f.write(s)
        with open(os.path.join(d, "mos.toml"), "w") as f:
            f.write('[build]\nentry = "main.asm"\n' + fmtlib.toml_of(fmt))
        before = {}
        old = time.time() - 1000
        for n in os.listdir(d):
            os.utime(os.path.join(d, n), (old, old))
            before[n] = (os.stat(os.path.join(d, n)).st_mtime_ns, open(os.path.join(d, n), "rb").read())
        p = subprocess.run([ctx.mos, "--error-style", "Short", "format"], cwd=d, stdout=subprocess.PIPE, stderr=subprocess.STDOUT,
                           env=common.ENV, timeout=60)
        after = {}
        for n in os.listdir(d):
            after[n] = (os.stat(os.path.join(d, n)).st_mtime_ns, open(os.path.join(d, n), "rb").read())
        return p.returncode, common.clean(p.stdout.decode("utf-8", "replace")), before, after
    finally:
        shutil.rmtree(d, ignore_errors=True)


def e2e_check(ctx, files, fmt, formatted, rng, dist, workdir):
    chk = ctx.chk
    src_files = {n: s for n, s in files.items()}
    # (a) all files parse: each project file is rewritten with exactly the formatter's text, nothing else changes
    rc, out, before, after = e2e_format(ctx, src_files, fmt, formatted, None, workdir)
    replay = {"files": files, "fmt": fmt, "e2e": True}
    dist["e2e_projects"] = dist.get("e2e_projects", 0) + 1
    if len(formatted) > 1:
        dist["e2e_multi_file"] = dist.get("e2e_multi_file", 0) + 1
    if rc != 0:
        chk.oracle_failure(None, "`mos format` fails on an error-free project: rc=%d %s" % (rc, out[-200:]), replay)
    else:
        for n in sorted(after):
            if n in formatted:
                if after[n][1] != formatted[n].encode("utf-8"):
                    chk.oracle_failure(None, "`mos format` wrote %s with a text different from the formatter's output" % n,
                                       dict(replay, got=after[n][1].decode("utf-8", "replace"), want=formatted[n]))
            elif after[n] != before.get(n):
                chk.oracle_failure(None, "`mos format` touched %s, which is not a source file of the project" % n, replay)
        if set(after) != set(before):
            chk.oracle_failure(None, "`mos format` created or removed files: %s" % sorted(set(after) ^ set(before)), replay)
    # (b) a parse error in one file (main or imported): nothing is touched
    victim = rng.choice(sorted(formatted))
    rc, out, before, after = e2e_format(ctx, src_files, fmt, formatted, victim, workdir)
    dist["e2e_with_parse_error"] = dist.get("e2e_with_parse_error", 0) + 1
    if rc == 0:
        chk.oracle_failure(None, "`mos format` succeeds although %s has a parse error" % victim, dict(replay, broken=victim))
    if after != before:
        changed = [n for n in sorted(set(after) | set(before)) if after.get(n) != before.get(n)]
        chk.oracle_failure(None, "`mos format` modified %s although %s has a parse error" % (changed, victim), dict(replay, broken=victim))


def load_corpus(prop):
    out = []
    cdir = os.path.join(common.ROOT, "corpus", prop)
    if os.path.isdir(cdir):
        for fn in sorted(os.listdir(cdir)):
            p = os.path.join(cdir, fn)
            if fn.endswith(".asm"):
                out.append((fn, {"main.asm": open(p, encoding="utf-8").read()}))
            elif fn.endswith(".json"):
                out.append((fn, json.load(open(p, encoding="utf-8"))["files"]))
    return out


def run(chk):
    rng = random.Random(chk.seed)
    common.translate_for(chk, ["fmt"])
    chk.proof = common.prove("C12")
    ctx = Ctx(chk)
    thorough = chk.tier == "thorough"
    dist = {}
    seen = set()
    workdir = os.path.join(common.CACHE, "work")
    os.makedirs(workdir, exist_ok=True)
    axes = fmtlib.all_option_axes()
    t0 = time.time()

    def one(files, fmt, origin, nontrivial=True, e2e=False):
        key = (json.dumps(files, sort_keys=True), json.dumps(fmt, sort_keys=True))
        if key in seen:
            return
        seen.add(key)
        formatted = check_project(ctx, files, fmt, dist, origin)
        if formatted is None:
            return
        ncomments = sum(s.count("/*") + s.count("//") for s in files.values())
        chk.count(1, 1 if nontrivial and (ncomments > 0 or len(files["main.asm"].split()) > 6) else 0)
        chk.sample({"origin": origin, "fmt": fmt, "main.asm": files["main.asm"][:400], "formatted": formatted["main.asm"][:400]}, limit=4)
        if e2e:
            e2e_check(ctx, {n: s for n, s in files.items() if n in formatted}, fmt, formatted, rng, dist, workdir)

    # 1. corpus (witnesses of fixed defects and of known findings), every option axis
    for name, files in load_corpus("C12"):
        for fmt in [fmtlib.DEFAULT_FMT] + axes[:8]:
            one(files, fmt, "corpus:" + name)
    # 2. generated projects x options
    n = 6000 if thorough else 1200
    plan = [(CLEAN, 0.62), (CLEAN + ["non_ascii"], 0.12), (CLEAN + ["same_line"], 0.08), (CLEAN + ["lbrace_comment", "import_arg_comment"], 0.08),
            (CLEAN + ["multiline_comments"], 0.06), (["newline_gaps"], 0.04)]
    for i in range(n):
        r = rng.random()
        acc = 0.0
        for cls, p in plan:
            acc += p
            if r < acc:
                break
        files, stats = fmtlib.gen_project(rng, cls)
        for k, v in stats.items():
            dist["gen:" + k] = dist.get("gen:" + k, 0) + v
        dist["projects"] = dist.get("projects", 0) + 1
        dist["projects_multi_file"] = dist.get("projects_multi_file", 0) + (1 if "lib.asm" in files else 0)
        opts = [fmtlib.gen_options(rng)]
        if i % 5 == 0:
            opts.append(rng.choice(axes))
        for j, fmt in enumerate(opts):
            one(files, fmt, "gen:%s" % "+".join(c for c in cls if c not in CLEAN), e2e=(i % (4 if thorough else 6) == 0 and j == 0))
    # 3. line assembly on arbitrary chunk lists
    join_tie(ctx, rng, 20000 if thorough else 3000, dist)
    ctx.stop()
    chk.cov["rule"] = ("corpus witnesses x 9 option sets; seeded grammar-based projects (main.asm, optionally an imported lib.asm) over the whole "
                       "statement grammar with block/line comments in every trivia position, x random formatter options plus one enumerated "
                       "option axis value for every 5th project; each case: model chunk list = real chunk list (hook), model text = real text, "
                       "and the oracle on the real output (re-parse, token words, token tree, comments in order, assembled bytes + diagnostics); "
                       "every 6th project additionally through `mos format` in a scratch directory with and without an injected parse error; "
                       "plus random chunk lists through the real join_chunks.  distinct = distinct (project, options); non-trivial = has a "
                       "comment or more than 6 words (chunk lists: >= 2 chunks)")
    chk.extra["distribution"] = dist
    chk.assumptions = ["diagnostics are compared by message (positions move when the layout changes)",
                       "comments are compared modulo whitespace (the formatter trims trailing whitespace; continuation lines of multi-line comments are re-indented)",
                       "keywords, mnemonics and register names are compared case-insensitively (the formatter applies the configured casing)"]
    return chk.finish(extra_trusted=[
        "hook H4 (cfg mos_verif): verif_chunks / verif_join_chunks in mos-core/src/formatting/mod.rs expose the chunk list and join_chunks",
        "AST dump of the real parser (harness/src/dump.rs) re-encoded by checks/fmtlib.py:ast_to_model and extract/driver_fmt.ml",
        "the model's AST keeps Display strings of leaves (as rendered by the dump); Casing::format is modelled on ASCII only"])


def replay(chk, path):
    obj = json.load(open(path))
    rp = obj["replay"]
    ctx = Ctx(chk, need_mos=False)
    if "chunks" in rp:
        cs = [[c[0], c[1], T(c[2])] for c in rp["chunks"]]
        r = ctx.probe.call({"cmd": "join", "chunks": cs, "fmt": rp["fmt"]})
        print(json.dumps({"impl": S(r.get("joined", [])) if "joined" in r else r}, indent=1, ensure_ascii=False))
    else:
        r = ctx.probe.call({"cmd": "chunks", "files": rp["files"], "fmt": rp["fmt"]})
        out = {n: f.get("formatted", f.get("panic")) for n, f in r.get("files", {}).items()}
        print(json.dumps({"parse_errors": r.get("parse_errors"), "formatted": out}, indent=1, ensure_ascii=False))
    ctx.stop()
    return 0

"""C09 -- output files lay out banks and segments exactly as configured."""
import json
import os
import random
import shutil
import subprocess
import tempfile

import common
from common import Proc, log

BASE = 0x1000


def gen_config(rng, idx):
    """a bank/segment configuration; everything the spec needs is known to the generator"""
    nb = rng.choice([0, 1, 1, 2, 2, 3, 4])
    banks = []
    for i in range(nb):
        b = {"name": i, "size": None, "fill": None, "filename": None}
        if rng.random() < 0.45:
            b["fill"] = rng.choice([0, 0xAA, 0xFF, 7])
        if rng.random() < 0.3:
            b["filename"] = rng.choice([0, 1])
        banks.append(b)
    ns = rng.randrange(1, 7)
    segs = []
    layout = rng.choice(["overlap", "overlap", "disjoint", "adjacent", "below", "chain"])
    cursor = BASE + rng.randrange(0, 16)
    for j in range(ns):
        ln = rng.randrange(1, 9)
        dep = None
        if layout == "overlap":
            start = BASE + rng.randrange(0, 24)
        elif layout == "disjoint":
            start = cursor + rng.randrange(1, 6)
            cursor = start + ln
        elif layout == "adjacent":
            start = cursor
            cursor = start + ln
        elif layout == "below":
            start = BASE + 64 - 8 * j - rng.randrange(0, 3)
        else:  # chain: start = segments.<prev>.end (+k)
            if j == 0:
                start = cursor
            else:
                k = rng.choice([0, 0, 1, 3])
                dep = (j - 1, k)
                start = segs[j - 1]["start"] + len(segs[j - 1]["data"]) + k
        s = {"name": j, "start": start, "dep": dep, "data": [rng.randrange(1, 256) for _ in range(ln)],
             "bank": None, "write": rng.random() > 0.15, "pc": None}
        if nb and rng.random() < 0.6:
            s["bank"] = rng.randrange(nb)
        if rng.random() < 0.04:
            s["bank"] = 9  # unknown bank
        if rng.random() < 0.2:
            s["pc"] = rng.choice([0x2000, 0x8000, start + 3])
        segs.append(s)
    # sizes relative to what the bank will hold (exact / shorter / longer / none)
    for b in banks:
        r = rng.random()
        if r < 0.35:
            mine = [s for s in segs if s["write"] and (s["bank"] == b["name"] or (s["bank"] is None and b["name"] == 0))]
            if mine:
                ln = max(s["start"] + len(s["data"]) for s in mine) - min(s["start"] for s in mine)
            else:
                ln = 0
            b["size"] = max(0, ln + rng.choice([0, 0, 1, 5, -1, 16]))
    fmt = rng.choice([None, None, "prg", "bin"])
    outname = rng.choice([None, None, "out.dat"])
    emit_order = list(range(ns))
    rng.shuffle(emit_order)
    split = {j: (rng.random() < 0.25 and len(segs[j]["data"]) > 1) for j in range(ns)}
    return {"banks": banks, "segs": segs, "format": fmt, "outname": outname, "order": emit_order, "split": split, "idx": idx}


def source(cfg):
    out = []
    for b in cfg["banks"]:
        items = ['name = "b%d"' % b["name"]]
        if b["size"] is not None:
            items.append("size = %d" % b["size"])
        if b["fill"] is not None:
            items.append("fill = $%02x" % b["fill"])
        if b["filename"] is not None:
            items.append('filename = "f%d.bin"' % b["filename"])
        out.append(".define bank { " + " ".join(items) + " }")
    for s in cfg["segs"]:
        if s["dep"] is not None:
            st = "segments.s%d.end" % s["dep"][0] + (" + %d" % s["dep"][1] if s["dep"][1] else "")
        else:
            st = "$%04x" % s["start"]
        items = ['name = "s%d"' % s["name"], "start = " + st]
        if s["pc"] is not None:
            items.append("pc = $%04x" % s["pc"])
        if not s["write"]:
            items.append("write = false")
        if s["bank"] is not None:
            items.append('bank = "b%d"' % s["bank"])
        out.append(".define segment { " + " ".join(items) + " }")
    done_first = {}
    for j in cfg["order"]:
        d = cfg["segs"][j]["data"]
        if cfg["split"][j]:
            h = len(d) // 2
            out.append('.segment "s%d" { .byte %s }' % (j, ", ".join(str(x) for x in d[:h])))
            done_first[j] = h
        else:
            out.append('.segment "s%d" { .byte %s }' % (j, ", ".join(str(x) for x in d)))
    for j, h in done_first.items():
        d = cfg["segs"][j]["data"]
        out.append('.segment "s%d" { .byte %s }' % (j, ", ".join(str(x) for x in d[h:])))
    return "\n".join(out) + "\n"


def model_request(cfg):
    banks = cfg["banks"]
    segs = []
    for s in cfg["segs"]:
        bank = s["bank"]
        segs.append({"start": s["start"], "data": s["data"], "bank": bank, "write": s["write"]})
    return {"cmd": "layout", "declared": True, "default": 0, "format": cfg["format"], "banks": banks, "segs": segs}


def default_filename(cfg, nbanks):
    if cfg["outname"]:
        return cfg["outname"]
    fmt = cfg["format"] or ("prg" if nbanks == 1 else "bin")
    return "main." + fmt


def files_from_spec(cfg, spec, nbanks):
    out = {}
    for f, data in spec:
        name = default_filename(cfg, nbanks) if f is None else "f%d.bin" % f
        out[name] = bytes(data)
    return out


def run_build(mos, cfg, workdir):
    d = tempfile.mkdtemp(prefix="c09_", dir=workdir)
    try:
        with open(os.path.join(d, "main.asm"), "w") as f:
            f.write(source(cfg))
        toml = '[build]\nentry = "main.asm"\n'
        if cfg["format"]:
            toml += 'output-format = "%s"\n' % cfg["format"]
        if cfg["outname"]:
            toml += 'output-filename = "%s"\n' % cfg["outname"]
        with open(os.path.join(d, "mos.toml"), "w") as f:
            f.write(toml)
        p = subprocess.run([mos, "--error-style", "Short", "build"], cwd=d, stdout=subprocess.PIPE, stderr=subprocess.STDOUT,
                           env=common.ENV, timeout=60)
        files = {}
        t = os.path.join(d, "target")
        if os.path.isdir(t):
            for n in sorted(os.listdir(t)):
                with open(os.path.join(t, n), "rb") as f:
                    files[n] = f.read()
        return p.returncode, common.clean(p.stdout.decode("utf-8", "replace")), files
    finally:
        shutil.rmtree(d, ignore_errors=True)


def run(chk):
    rng = random.Random(chk.seed)
    chk.proof = common.prove("C09")
    if chk.tier == "thorough":
        common.coqchk(chk, "C09")
    probe = Proc([common.build_probe()])
    model = Proc([common.build_model()])
    mos = common.build_mos()
    thorough = chk.tier == "thorough"
    n = 1500 if thorough else 260
    workdir = os.path.join(common.CACHE, "work")
    os.makedirs(workdir, exist_ok=True)
    dist = {"layouts": 0, "accepted": 0, "rejected": 0, "prg": 0, "bin": 0, "multi_file": 0, "overlapping": 0, "sized": 0}
    seen = set()
    corpus = []
    cdir = os.path.join(common.ROOT, "corpus", "C09")
    if os.path.isdir(cdir):
        for fn in sorted(os.listdir(cdir)):
            if fn.endswith(".json"):
                corpus.append(json.load(open(os.path.join(cdir, fn))))
    cases = corpus + [gen_config(rng, i) for i in range(n)]
    for cfg in cases:
        cfg["split"] = {int(k): v for k, v in cfg["split"].items()}
        src = source(cfg)
        key = (src, cfg["format"], cfg["outname"])
        if key in seen:
            continue
        seen.add(key)
        nbanks = max(1, len(cfg["banks"]))
        m = model.call(model_request(cfg))
        if "model" not in m:
            chk.tie_break("model", "mosmodel failed on a layout request: %s" % m, {"cfg": cfg})
            continue
        spec = m["spec"]
        # --- implementation, end to end
        rc, out, files = run_build(mos, cfg, workdir)
        chk.count(1, 1)
        dist["layouts"] += 1
        dist["accepted" if rc == 0 else "rejected"] += 1
        dist[(cfg["format"] or ("prg" if nbanks == 1 else "bin"))] += 1
        if any(b["size"] is not None for b in cfg["banks"]):
            dist["sized"] += 1
        if len(files) > 1:
            dist["multi_file"] += 1
        chk.sample({"source": src, "format": cfg["format"], "exit": rc, "files": {k: v.hex() for k, v in files.items()}}, limit=3)
        # oracle: the spec on the implementation's observable output
        if spec is None:
            if rc == 0:
                chk.oracle_failure(None, "configuration must be rejected but `mos build` succeeded and wrote %s" % sorted(files),
                                   {"source": src, "cfg": cfg, "files": {k: v.hex() for k, v in files.items()}})
        else:
            want = files_from_spec(cfg, spec, nbanks)
            if rc != 0:
                chk.oracle_failure(None, "valid configuration rejected: %s" % out[-300:], {"source": src, "cfg": cfg, "output": out})
            elif files != want:
                chk.oracle_failure(None, "files differ from the configured layout: got %s want %s" % (
                    {k: v.hex() for k, v in files.items()}, {k: v.hex() for k, v in want.items()}),
                    {"source": src, "cfg": cfg, "got": {k: v.hex() for k, v in files.items()},
                     "want": {k: v.hex() for k, v in want.items()}})
        # --- correspondence: model of merge_segments / build_output vs the real ones
        mo = m["model"]
        model_files = files_from_spec(cfg, mo["files"], nbanks) if mo["result"] == "files" else None
        if (model_files is None) != (rc != 0) or (model_files is not None and model_files != files):
            chk.tie_break("correspondence:build_output", "model and `mos build` disagree",
                          {"source": src, "cfg": cfg, "model": mo, "impl_exit": rc, "impl_files": {k: v.hex() for k, v in files.items()}})
        r = probe.call({"cmd": "asm", "files": {"main.asm": src}, "pc": 0x2000})
        if r.get("ok"):
            names = {b["name"]: i for i, b in enumerate(r["bank_options"])}
            segs = [{"start": s["start"], "data": [int(s["data"][i:i + 2], 16) for i in range(0, len(s["data"]), 2)],
                     "bank": (names.get(s["bank"], 99) if s["bank"] is not None else None), "write": s["write"]} for s in r["segments"]]
            banks = [{"name": i, "size": b["size"], "fill": b["fill"], "filename": None} for i, b in enumerate(r["bank_options"])]
            m2 = model.call({"cmd": "layout", "format": "bin", "banks": banks, "segs": segs})
            if "banks" in r:
                impl = [(b["start"], b["end"], b["data"]) for b in r["banks"]]
                mod = None if m2.get("merged") is None else [(b["lo"], b["hi"], bytes(b["data"]).hex()) for b in m2["merged"]]
                if mod != impl:
                    chk.tie_break("correspondence:merge_segments", "model and merge_segments disagree on the real segments",
                                  {"source": src, "model": mod, "impl": impl})
            elif "merge_errors" in r:
                if m2.get("merged") is not None:
                    chk.tie_break("correspondence:merge_segments", "merge_segments fails but the model succeeds",
                                  {"source": src, "impl": r["merge_errors"]})
            # finalize: declared banks -> final assignment
            decl = [s["bank"] for s in cfg["segs"]]
            fm = model.call({"cmd": "finalize", "default": 0, "banks": [b["name"] for b in cfg["banks"]], "seg_banks": decl})
            impl_assign = [names.get(s["bank"], 99 if s["bank"] == "b9" else None) if s["bank"] is not None else None for s in r["segments"]]
            mod_assign = [(9 if x == 9 else x) for x in fm.get("seg_banks", [])]
            mod_assign = [99 if x == 9 else x for x in mod_assign]
            if impl_assign != mod_assign:
                chk.tie_break("correspondence:finalize", "bank assignment differs", {"source": src, "impl": impl_assign, "model": mod_assign})
    # ---- data at the top of the address space: accepted up to $FFFF, an error beyond (never a truncated or wrapped image)
    dist["top_of_memory"] = 0
    for start in (0xFFF0, 0xFFFC, 0xFFFE, 0xFFFF, 0x10000, 0x10001, 0x12345):
        for ln in (1, 2, 4, 16, 17):
            data = [(7 * i + start) % 255 + 1 for i in range(ln)]
            cfg = {"banks": [], "segs": [{"name": 0, "start": start, "dep": None, "data": data, "bank": None, "write": True, "pc": None}],
                   "format": "bin", "outname": None, "order": [0], "split": {0: False}, "idx": -1}
            rc, out, files = run_build(mos, cfg, workdir)
            fits = start + ln <= 0x10000
            dist["top_of_memory"] += 1
            chk.count(1, 1)
            if fits and (rc != 0 or files.get("main.bin") != bytes(data)):
                chk.oracle_failure(None, "%d byte(s) at $%04X lie inside $0000-$FFFF but the build gives exit %d, files %s" % (
                    ln, start, rc, {k: v.hex() for k, v in files.items()}), {"source": source(cfg), "cfg": cfg, "exit": rc, "output": out[-300:]})
            if not fits and (rc == 0 or files):
                chk.oracle_failure(None, "%d byte(s) at $%04X reach beyond $FFFF but the build succeeds (exit %d) and writes %s" % (
                    ln, start, rc, {k: v.hex() for k, v in files.items()}), {"source": source(cfg), "cfg": cfg, "exit": rc})
    probe.stop()
    model.stop()
    chk.cov["rule"] = ("seeded random configurations: 0-4 banks (size exact/short/long/none, fill, shared filenames) x 1-6 non-empty segments "
                       "(overlapping / disjoint / adjacent / below-the-bank-start / segments.x.end chains; pc; write=false; unknown bank) "
                       "x output-format prg/bin/unset x output-filename; each built end to end with `mos build` and compared with the "
                       "extracted spec (spec_build) byte for byte; distinct = distinct (source, format, filename); all are non-trivial "
                       "(>= 1 segment with data)")
    chk.extra["distribution"] = dist
    chk.assumptions = ["names of banks and files are abstracted to numbers (injective renaming done by the harness)",
                       "empty writable segments (they stretch a bank to their start address) are outside the property's domain and not generated"]
    return chk.finish()


def replay(chk, path):
    """re-build the recorded configuration on /repo's current tree; exit 1 (with a VIOLATION line) when the recorded failure reproduces"""
    obj = json.load(open(path))
    rp = obj.get("replay") or {}
    if "cfg" not in rp:
        print(json.dumps(obj, indent=1)[:3000])
        print("this replay file names a broken proof obligation / tie, not an input; re-run ./check C09")
        return 0
    cfg = rp["cfg"]
    cfg["split"] = {int(k): v for k, v in cfg["split"].items()}
    mos = common.build_mos()
    rc, out, files = run_build(mos, cfg, tempfile.gettempdir())
    got = {k: v.hex() for k, v in files.items()}
    bad = None
    if "want" in rp:
        bad = rc != 0 or got != rp["want"]
    elif "files" in rp and "got" not in rp:          # recorded: must be rejected but was built
        bad = rc == 0
    elif "output" in rp:                             # recorded: valid configuration rejected
        bad = rc != 0
    elif "exit" in rp:                               # top-of-memory cases: fits <=> accepted
        s0 = cfg["segs"][0]
        fits = s0["start"] + len(s0["data"]) <= 0x10000
        bad = (rc != 0 or files.get("main.bin") != bytes(s0["data"])) if fits else (rc == 0 or bool(files))
    print(json.dumps({"source": source(cfg), "exit": rc, "files_now": got, "demanded": rp.get("want"), "reproduces": bad}, indent=1))
    if bad:
        print("VIOLATION property=C09 replay=%s" % path)
        return 1
    return 0

"""C14 -- the language server depends only on the current buffers and survives any request."""
import json
import os
import random
import re
import sys

import common
from common import Proc, log

sys.path.insert(0, os.path.join(common.ROOT, "drivers"))
sys.path.insert(0, os.path.join(common.ROOT, "gen"))
import g_hist  # noqa: E402
import lsp_client  # noqa: E402
from lsp_client import LspServer, make_params  # noqa: E402

ENTRY = "main.asm"
# no response within this many seconds = "the request did not get a response".  Measured latencies (evidence: distribution.
# max_request_latency_s) stay below 0.4 s even under load, so the bound is two orders of magnitude above normal.
REQ_TIMEOUT = 40.0
LAT = [0.0]
OUT_OF_RANGE = ("eol1", "eolfar", "eofline", "eoffar", "inchar", "huge", "nofile")
FIRST_BASED = ("textDocument/hover", "textDocument/definition", "textDocument/rename")   # `defs.first()` of a hash map


def is_file_name(name):
    """the name maps to a file path (a project-relative name or a file:// uri)"""
    return not name.startswith("untitled:") and ("://" not in name or name.startswith("file://"))


# ----------------------------------------------------------------------------- canonical forms
def strip_root(obj, root):
    s = json.dumps(obj, sort_keys=True)
    s = s.replace(lsp_client.path_to_uri(root), "<root>").replace("file://" + root, "<root>").replace(root, "<root>")
    return json.loads(s)


def rkey(r):
    return (r["start"]["line"], r["start"]["character"], r["end"]["line"], r["end"]["character"])


def canon_reply(method, reply, root):
    """canonical, root-independent form; results that come out of hash maps are sorted"""
    if reply.kind != "result":
        return reply.canon()
    v = strip_root(reply.value, root)
    if v is None:
        return {"result": None}
    if method == "textDocument/completion":
        v = sorted(i["label"] for i in (v if isinstance(v, list) else v.get("items", [])))
    elif method in ("textDocument/references",):
        v = sorted((l["uri"], rkey(l["range"])) for l in v)
    elif method == "textDocument/documentHighlight":
        v = sorted(rkey(h["range"]) for h in v)
    elif method == "workspace/symbol":
        v = sorted((s["name"], s["location"]["uri"], rkey(s["location"]["range"]), s.get("containerName")) for s in v)
    elif method == "textDocument/documentSymbol":
        def ds(x):
            return (x["name"], rkey(x["range"]), sorted(ds(c) for c in x.get("children") or []))
        v = sorted(ds(x) for x in v)
    elif method == "textDocument/rename":
        ch = v.get("changes") or {}
        v = {u: sorted((rkey(e["range"]), e["newText"]) for e in es) for u, es in ch.items()}
    return {"result": v}


def canon_diags(by_name, root):
    out = {}
    for name, ds in by_name.items():
        # anonymous scopes are numbered in hash order of pending imports (F-C10b): not part of the comparison
        l = sorted((re.sub(r"\$scope_\d+", "$scope", strip_root(d["message"], root)), rkey(d["range"])) for d in ds)
        if l:
            out[name] = l      # "never published" and "published empty" look the same to the user
    return out


# ----------------------------------------------------------------------------- oracle 3: well-formed positional results
def line_table(text):
    return [l.rstrip("\r") for l in text.split("\n")]


def pos_inside(lines, p):
    return p["line"] < len(lines) and p["character"] <= g_hist.utf16_len(lines[p["line"]])


def range_problems(rng_, lines, what):
    out = []
    if lines is None:
        return ["%s refers to a document that does not exist" % what]
    for k in ("start", "end"):
        if not pos_inside(lines, rng_[k]):
            out.append("%s: %s %d:%d lies outside the document (%d lines%s)" % (
                what, k, rng_[k]["line"], rng_[k]["character"], len(lines),
                (", line has %d UTF-16 units" % g_hist.utf16_len(lines[rng_[k]["line"]])) if rng_[k]["line"] < len(lines) else ""))
    if (rng_["end"]["line"], rng_["end"]["character"]) < (rng_["start"]["line"], rng_["start"]["character"]):
        out.append("%s: end before start" % what)
    return out


def collect_ranges(method, value, req_uri):
    """[(uri, range, description)] for every range in a response"""
    out = []
    if value is None:
        return out
    if method == "textDocument/prepareRename":
        r = value.get("range", value) if isinstance(value, dict) else None
        if r and "start" in r:
            out.append((req_uri, r, "prepareRename range"))
    elif method == "textDocument/definition":
        for l in (value if isinstance(value, list) else [value]):
            if "targetUri" in l:
                out.append((l["targetUri"], l["targetRange"], "definition targetRange"))
                out.append((l["targetUri"], l["targetSelectionRange"], "definition targetSelectionRange"))
                if l.get("originSelectionRange"):
                    out.append((req_uri, l["originSelectionRange"], "definition originSelectionRange"))
            else:
                out.append((l["uri"], l["range"], "definition range"))
    elif method == "textDocument/references":
        out += [(l["uri"], l["range"], "reference") for l in value]
    elif method == "textDocument/documentHighlight":
        out += [(req_uri, h["range"], "highlight") for h in value]
    elif method == "textDocument/rename":
        for u, es in (value.get("changes") or {}).items():
            out += [(u, e["range"], "rename edit") for e in es]
    elif method in ("textDocument/formatting", "textDocument/onTypeFormatting"):
        out += [(req_uri, e["range"], "formatting edit") for e in value]
    elif method == "textDocument/codeLens":
        out += [(req_uri, c["range"], "code lens") for c in value]
    elif method == "workspace/symbol":
        out += [(s["location"]["uri"], s["location"]["range"], "workspace symbol " + s["name"]) for s in value]
    elif method == "textDocument/documentSymbol":
        def walk(x):
            out.append((req_uri, x["range"], "document symbol " + x["name"]))
            out.append((req_uri, x["selectionRange"], "document symbol selection " + x["name"]))
            for c in x.get("children") or []:
                walk(c)
        for x in value:
            walk(x)
    elif method == "textDocument/hover":
        if isinstance(value, dict) and value.get("range"):
            out.append((req_uri, value["range"], "hover range"))
    return out


def decode_tokens(data):
    toks, line, col = [], 0, 0
    for i in range(0, len(data) - 4, 5):
        dl, dsx, ln, ty, mod = data[i:i + 5]
        if dl:
            line += dl
            col = dsx
        else:
            col += dsx
        toks.append((line, col, ln, ty, mod))
    return toks


def token_problems(data, lines):
    out = []
    if len(data) % 5:
        out.append("semantic token data length %d is not a multiple of 5" % len(data))
    toks = decode_tokens(data)
    for i, t in enumerate(toks):
        if t[2] == 0:
            out.append("semantic token %d at %d:%d has length 0" % (i, t[0], t[1]))
        if i and (toks[i - 1][0], toks[i - 1][1] + toks[i - 1][2]) > (t[0], t[1]):
            out.append("semantic tokens %d and %d overlap or are out of order: %r %r" % (i - 1, i, toks[i - 1][:3], t[:3]))
        if lines is not None and (t[0] >= len(lines) or t[1] + t[2] > g_hist.utf16_len(lines[t[0]])):
            out.append("semantic token %d (%d:%d len %d) lies outside the document" % (i, t[0], t[1], t[2]))
    return out


# ----------------------------------------------------------------------------- running histories
def alnum_of(texts):
    """the non-ASCII scalars of the texts that are alphanumeric (the model takes char::is_alphanumeric outside ASCII as a
    parameter); the generators only use characters on which Python's str.isalnum and Rust's char::is_alphanumeric agree"""
    return sorted({ord(c) for t in texts for c in t if ord(c) > 127 and c.isalnum()})


def T(s):
    return [ord(c) for c in s]


def clamp(v):
    return min(int(v), 5000)        # the model's nat; every text of the generators is shorter, so nothing changes


def fresh_server(mos, overlay, workdir):
    """a freshly started server that is given only the final contents: every file of the overlay is what it finds, the entry
    point is opened (one analysis, one round of publishDiagnostics)."""
    s = LspServer(mos, disk={n: t for n, t in overlay.items() if is_file_name(n) and "://" not in n}, workdir=workdir, timeout=REQ_TIMEOUT)
    if ENTRY in overlay:
        s.did_open(ENTRY, overlay[ENTRY])
    return s


def send_request(srv, ev):
    p = make_params(srv, ev["method"], ev["file"], ev.get("line", 0), ev.get("ch", 0), new_name=ev.get("new", "renamed"),
                    query=ev.get("query", ""))
    r = srv.request(ev["method"], p)
    if r.ok:
        LAT[0] = max(LAT[0], r.elapsed)
    return r


def multi_def_position(fresh, ev):
    """more than one definition covers the position (F-C16a territory: answers of first()-based handlers are not a
    function of anything) -- detected through the protocol: references(includeDeclaration) lists >1 span covering it"""
    r = send_request(fresh, dict(ev, method="textDocument/references"))
    if r.kind != "result" or not r.value:
        return False
    n = 0
    for l in r.value:
        a, b = l["range"]["start"], l["range"]["end"]
        if a["line"] <= ev["line"] <= b["line"] and a["character"] <= ev["ch"] <= b["character"] and \
                fresh.name_of(l["uri"]) == ev["file"]:
            n += 1
    return n > 1


class Outcome:
    def __init__(self):
        self.requests = 0
        self.nontrivial = 0
        self.diag_checks = 0
        self.diag_nontrivial = 0
        self.distinct = set()
        self.dist = {}
        self.tie = []           # (item, detail, replay)
        self.probe_failures = []  # (kind, what, replay): the spec evaluated on outputs of the real functions behind `mos verif-probe`

    def bump(self, k, n=1):
        self.dist[k] = self.dist.get(k, 0) + n


KIND = {"textDocument/prepareRename": "prepare", "textDocument/completion": "completion", "textDocument/rename": "rename",
        "textDocument/codeLens": "codelens"}


def check_history(mos, hist, workdir, out, model=None, stop_at_first=True):
    """runs the history against the real server; evaluates the oracles (liveness, history-vs-fresh, well-formedness) and, if a
    model process is given, the correspondence with model/Lsp.v.  returns [(kind, what, index of the event)]"""
    names = sorted({n for n in list(hist["disk"]) + [e["file"] for e in hist["events"]] + [ENTRY] if is_file_name(n)})
    srv = LspServer(mos, disk=hist["disk"], workdir=workdir, timeout=REQ_TIMEOUT)
    buffers = {}
    fails = []
    analyses = {}        # overlay key -> {"id", "tree", "diags"}
    observed = []        # per event: None | {"shown":…, "reply": Reply, "key":…}
    notified = False

    def overlay():
        o = dict(hist["disk"])
        o.update(buffers)
        return o

    def key_of(ov):
        return tuple(ov.get(n) for n in names)

    def learn(ov, fr):
        """what the analysis of this overlay is, as the fresh server shows it: files of the tree (publication order), diagnostics"""
        k = key_of(ov)
        if k not in analyses:
            tree = []
            for uri, _ in fr.diag_log:
                n = fr.name_of(uri)
                if n not in tree:
                    tree.append(n)
            analyses[k] = {"id": len(analyses), "tree": tree, "diags": canon_diags(fr.diagnostics_by_name(), fr.dir)}
        return analyses[k]

    try:
        fr = fresh_server(mos, overlay(), workdir)
        try:
            if fr.barrier().ok:
                learn(overlay(), fr)
        finally:
            fr.kill()
        for idx, ev in enumerate(hist["events"]):
            kind = ev["ev"]
            out.bump("ev_" + kind)
            obs = {"reply": None}
            if kind in ("open", "change"):
                (srv.did_open if kind == "open" else srv.did_change)(ev["file"], ev["text"])
                if is_file_name(ev["file"]):
                    buffers[ev["file"]] = ev["text"]
                    notified = True
            elif kind == "close":
                srv.did_close(ev["file"])
                if is_file_name(ev["file"]):
                    buffers.pop(ev["file"], None)
                    notified = True
            ov = overlay()
            if kind != "req":
                b = srv.barrier()
                if not b.ok:
                    fails.append(("liveness", "the server %s while handling %s of %s: %s" % (
                        "died" if b.kind == "died" else "stopped answering", kind, ev["file"],
                        " ".join(b.stderr.split("panicked at")[-1].split())[:300]), idx))
                    break
                fr = fresh_server(mos, ov, workdir)
                try:
                    fb = fr.barrier()
                    if not fb.ok:
                        fails.append(("liveness", "a fresh server given the buffers %s: %s" % (fb.kind, fb.stderr[-300:].strip()), idx))
                        break
                    learn(ov, fr)
                    dh = canon_diags(srv.diagnostics_by_name(), srv.dir)
                    df = canon_diags(fr.diagnostics_by_name(), fr.dir)
                    if notified:     # a server that has been told nothing has published nothing (spec: `notified`)
                        out.diag_checks += 1
                        sig = ("diag", key_of(ov))
                        if (dh or df) and sig not in out.distinct:
                            out.distinct.add(sig)
                            out.diag_nontrivial += 1
                        if dh != df:
                            nm = sorted(n for n in set(dh) | set(df) if dh.get(n) != df.get(n))
                            fails.append(("diagnostics", "after %s of %s the diagnostics last published for %s are %s; a fresh server "
                                          "given the same buffers publishes %s" % (kind, ev["file"], nm, {n: dh.get(n, []) for n in nm},
                                                                                   {n: df.get(n, []) for n in nm}), idx))
                finally:
                    fr.kill()
                obs["shown"] = {srv.name_of(u): canon_diags({"x": d}, srv.dir).get("x", []) for u, d in srv.diagnostics.items()}
                obs["key"] = key_of(ov)
                observed.append(obs)
                if fails and stop_at_first:
                    break
                continue
            # ---- a request
            out.requests += 1
            out.bump("req_" + ev["method"].split("/")[-1])
            out.bump("pos_" + ev["cls"])
            if not is_file_name(ev["file"]):
                out.bump("doc_non_file_uri")
            elif ev["file"] not in ov:
                out.bump("doc_not_existing")
            rh = send_request(srv, ev)
            if not rh.ok:
                fails.append(("liveness", "%s at %s %d:%d (%s) got no response: server %s: %s" % (
                    ev["method"], ev["file"], ev["line"], ev["ch"], ev["cls"], rh.kind,
                    " ".join(rh.stderr.split("panicked at")[-1].split())[:300]), idx))
                break
            fr = fresh_server(mos, ov, workdir)
            try:
                rf = send_request(fr, ev)
                learn(ov, fr)
                ch, cf = canon_reply(ev["method"], rh, srv.dir), canon_reply(ev["method"], rf, fr.dir)
                nontriv = ev["cls"] in OUT_OF_RANGE or (rh.kind == "result" and rh.value not in (None, [], {}))
                sig = ("req", key_of(ov), ev["method"], ev["file"], ev["line"], ev["ch"])
                if nontriv and sig not in out.distinct:
                    out.distinct.add(sig)
                    out.nontrivial += 1
                    if ev["cls"] in OUT_OF_RANGE:
                        out.bump("out_of_range_requests")
                if ch != cf:
                    if ev["method"] in FIRST_BASED and rf.ok and multi_def_position(fr, ev):
                        out.bump("skipped_multi_definition_position")
                    else:
                        fails.append(("answer", "%s at %s %d:%d (%s): server after the history answers %s; a fresh server given the "
                                      "same buffers answers %s" % (ev["method"], ev["file"], ev["line"], ev["ch"], ev["cls"],
                                                                   json.dumps(ch)[:400], json.dumps(cf)[:400]), idx))
                # well-formedness (against the documents the answer refers to)
                if rh.kind == "result" and rh.value is not None:
                    req_uri = srv.uri(ev["file"])
                    for uri, r_, what in collect_ranges(ev["method"], rh.value, req_uri):
                        name = srv.name_of(uri)
                        lines = line_table(ov[name]) if name in ov else None
                        for p in range_problems(r_, lines, "%s of %s (%s)" % (what, ev["method"], name)):
                            fails.append(("range", p, idx))
                    if ev["method"] == "textDocument/semanticTokens/full":
                        lines = line_table(ov[ev["file"]]) if ev["file"] in ov else None
                        out.bump("semantic_tokens", len(rh.value.get("data", [])) // 5)
                        for p in token_problems(rh.value.get("data", []), lines):
                            fails.append(("tokens", p, idx))
            finally:
                fr.kill()
            obs["reply"] = rh
            obs["key"] = key_of(ov)
            obs["shown"] = observed[-1]["shown"] if observed else {}
            observed.append(obs)
            if fails and stop_at_first:
                break
    finally:
        srv.kill()
    if model is not None and not any(f[0] == "liveness" for f in fails):
        correspond_history(model, hist, names, analyses, observed, out)
    return fails


def correspond_history(model, hist, names, analyses, observed, out):
    """model/Lsp.v run on the same history over a symbolic analysis (one id per distinct overlay, its tree files as the fresh
    server published them): after every event the set of files ever published and the list last published for each, and
    for every request what produced the answer, must be what the real server showed"""
    by_id = sorted(analyses.items(), key=lambda kv: kv[1]["id"])
    texts = [t for k, _ in by_id for t in k if t is not None]
    idx_of = {n: i for i, n in enumerate(names)}
    evs, rename_some = [], []
    for i, e in enumerate(hist["events"][:len(observed)]):
        path = idx_of.get(e["file"]) if is_file_name(e["file"]) else None
        if e["ev"] in ("open", "change"):
            evs.append({"ev": e["ev"], "path": path, "text": T(e["text"])})
        elif e["ev"] == "close":
            evs.append({"ev": "close", "path": path})
        else:
            if e["method"] == "workspace/symbol":
                path = idx_of[ENTRY]
            r = observed[i]["reply"]
            rename_some.append(bool(e["method"] == "textDocument/rename" and r.kind == "result" and r.value is not None))
            evs.append({"ev": "req", "kind": KIND.get(e["method"], "other"), "path": path, "line": clamp(e["line"]),
                        "col": clamp(e["ch"]), "rid": len(rename_some) - 1})
    req = {"cmd": "run", "npaths": len(names), "disk": [T(hist["disk"][n]) if n in hist["disk"] else None for n in names],
           "analyses": [{"key": [None if t is None else T(t) for t in k], "tree": [idx_of[n] for n in a["tree"] if n in idx_of]}
                        for k, a in by_id],
           "alnum": alnum_of(texts), "rename_some": rename_some, "events": evs}
    m = model.call(req)
    replay = {"history": {"disk": hist["disk"], "events": hist["events"][:len(observed)]}}
    if "states" not in m or "panic_at" in m:
        out.tie.append(("correspondence:bookkeeping", "the model does not complete the history the real server survived: %s" % str(m)[:300], replay))
        return
    diag_by_id = {a["id"]: a["diags"] for _, a in by_id}
    for i, (st, obs) in enumerate(zip(m["states"], observed)):
        e = hist["events"][i]
        cur = analyses[obs["key"]]["id"]
        if st["ana"] != cur:
            out.tie.append(("correspondence:bookkeeping", "after event %d the model's analysis is that of overlay %d, the buffers are overlay %d"
                            % (i, st["ana"], cur), replay))
            return
        want = {}
        for p, ds in st["shown"]:
            want[names[p]] = [] if not ds else diag_by_id[ds[0][0]].get(names[ds[0][1]], [])
        if want != obs["shown"]:
            out.tie.append(("correspondence:publish_diagnostics", "after event %d (%s %s) the client has %s, the model predicts %s"
                            % (i, e["ev"], e.get("file"), obs["shown"], want), replay))
            return
        if e["ev"] == "req":
            last, r = st["last"], obs["reply"]
            out.bump("model_predictions")
            if last == "null" and not (r.kind == "result" and r.value is None):
                out.tie.append(("correspondence:handle_request", "event %d %s %s %d:%d: the model answers null, the server %s"
                                % (i, e["method"], e["file"], e["line"], e["ch"], json.dumps(r.canon())[:200]), replay))
                return
            if last and last != "null" and int(last.split(":")[1]) != cur:
                out.tie.append(("correspondence:handle_request", "event %d: the model answers from overlay %s, current is %d" % (i, last, cur), replay))
                return
            if e["method"] == "textDocument/prepareRename" and r.kind == "result" and r.value is not None:
                rg = r.value.get("range", r.value)
                got = (rg["start"]["line"], rg["start"]["character"], rg["end"]["line"], rg["end"]["character"])
                if not last.startswith("P:"):
                    out.tie.append(("correspondence:prepare_rename", "event %d: the server answers %s, the model %s" % (i, got, last), replay))
                    return
                _, _, s_, e_ = last.split(":")
                if got != (e["line"], int(s_), e["line"], int(e_)):
                    out.tie.append(("correspondence:prepare_rename", "event %d prepareRename %s %d:%d: the server answers %s, the model %s"
                                    % (i, e["file"], e["line"], e["ch"], got, last), replay))
                    return


# ----------------------------------------------------------------------------- correspondence of the concrete helpers
JUNK = ["", "é", "€€", "\U0001F600", "a\u00e9b", "\r", "x\r", "  ", "lda #1", "foo.bar.", "/*€*/ a.b", "日本語: nop", "²x", "_a1"]


def gen_lines(rng):
    n = rng.randrange(0, 6)
    lines = [rng.choice(JUNK + g_hist.MAIN_LINES) for _ in range(n)]
    eol = rng.choice(["\n", "\n", "\n", "\r\n"])
    t = eol.join(lines)
    if rng.random() < 0.5:
        t += eol
    return t


def boundaries(text):
    out, off = [0], 0
    for c in text:
        off += len(c.encode("utf-8"))
        out.append(off)
    return out


def correspond_codemap(rng, probe, model, n, out):
    for _ in range(n):
        t = gen_lines(rng)
        blen = len(t.encode("utf-8"))
        nl = t.count("\n") + 1
        q = {"lines": list(range(0, nl + 3)), "positions": list(range(0, blen + 3))}
        r = probe.call(dict(q, cmd="c14_codemap", text=t))
        m = model.call(dict(q, cmd="codemap", text=T(t)))
        if "num_lines" not in r or "num_lines" not in m:
            out.tie.append(("correspondence:code_map", "probe or model failed: %s / %s" % (str(r)[:200], str(m)[:200]), {"text": t}))
            continue
        m2 = {"num_lines": m["num_lines"], "find_line_col": m["find_line_col"],
              "source_line": [({"ok": "".join(chr(c) for c in x["ok"])} if "ok" in x else x) for x in m["source_line"]]}
        r2 = {k: r[k] for k in m2}
        out.bump("codemap_cases")
        out.bump("codemap_items", len(q["lines"]) + len(q["positions"]))
        out.bump("codemap_panics", sum(1 for x in r["source_line"] + r["find_line_col"] if "panic" in x))
        sig = ("codemap", t)
        if sig not in out.distinct and blen:
            out.distinct.add(sig)
            out.nontrivial += 1
        if m2 != r2:
            out.tie.append(("correspondence:code_map", "source_line / find_line_col differ: impl %s model %s" % (
                json.dumps(r2)[:300], json.dumps(m2)[:300]), {"text": t, "impl": r2, "model": m2}))


def correspond_deltas(rng, probe, model, n, out):
    for _ in range(n):
        t = gen_lines(rng)
        bs = boundaries(t)
        spans = []
        for _ in range(rng.randrange(0, 7)):
            a = rng.choice(bs)
            b = rng.choice([x for x in bs if x >= a][:rng.choice([1, 4, 12, 40])])
            spans.append([a, b, rng.randrange(0, 6)])
        r = probe.call({"cmd": "c14_deltas", "text": t, "spans": spans})
        cm = model.call({"cmd": "codemap", "text": T(t), "lines": list(range(t.count("\n") + 1)),
                         "positions": sorted({x for s in spans for x in s[:2]})})
        if "data" not in r or "find_line_col" not in cm:
            out.tie.append(("correspondence:to_deltas", "probe or model failed: %s / %s" % (str(r)[:200], str(cm)[:200]), {"text": t, "spans": spans}))
            continue
        lc = dict(zip(sorted({x for s in spans for x in s[:2]}), cm["find_line_col"]))
        toks = [lc[a]["ok"] + lc[b]["ok"] + [ty] for a, b, ty in spans]
        line_chars = [len(x["ok"]) for x in cm["source_line"]]
        m = model.call({"cmd": "deltas", "line_chars": line_chars, "toks": toks})
        impl = [[d[0], d[1], d[2], d[3]] for d in r["data"]]
        mod = None if "ok" not in m else [[d[0], d[1], d[2], r["type_map"][d[3]]] for d in m["ok"]]
        out.bump("deltas_cases")
        multi = sum(1 for k in toks if k[0] != k[2])
        out.bump("deltas_multiline_spans", multi)
        sig = ("deltas", t, json.dumps(spans))
        if spans and sig not in out.distinct:
            out.distinct.add(sig)
            out.nontrivial += 1
        if impl != mod:
            out.tie.append(("correspondence:to_deltas", "to_deltas differs: impl %s model %s" % (impl, mod),
                            {"text": t, "spans": spans, "impl": impl, "model": mod}))
        # the spec on the implementation's output
        for p in token_problems([x for d in r["data"] for x in d], None):
            if "overlap" in p and any(not (s1[1] <= s2[0] or s2[1] <= s1[0]) for i1, s1 in enumerate(spans) for s2 in spans[i1 + 1:]):
                continue       # overlapping input spans: only sortedness / non-zero length is promised
            out.probe_failures.append(("tokens", "to_deltas on %r with byte spans %s: %s (data %s)" % (t, spans, p, impl),
                                       {"probe": {"cmd": "c14_deltas", "text": t, "spans": spans}}))


def positions_grid(rng, mos, model, workdir, n, out, fails):
    """prepareRename / completion at every column of every line (and beyond) of one document: liveness on the real server, and
    the range computed by the model whenever the server answers one"""
    for _ in range(n):
        t = g_hist.gen_text(rng, ENTRY, broken=False) + rng.choice(["", "/*€*/ lda start\n", "lda data.\n", "é: nop\nlda é\n"])
        lines = g_hist.split_lines(t)
        grid = [(l, c) for l in range(len(lines) + 2) for c in range(0, len(lines[l].encode("utf-8")) + 3 if l < len(lines) else 2)]
        rng.shuffle(grid)
        grid = grid[:60]
        m = model.call({"cmd": "positions", "text": T(t), "alnum": alnum_of([t]), "positions": [{"line": l, "col": c} for l, c in grid]})
        with LspServer(mos, workdir=workdir, timeout=REQ_TIMEOUT) as s:
            s.did_open(ENTRY, t)
            for (l, c), mr in zip(grid, m.get("results", [])):
                for method in ("textDocument/prepareRename", "textDocument/completion"):
                    r = s.request(method, make_params(s, method, ENTRY, l, c))
                    out.requests += 1
                    out.bump("grid_requests")
                    if not r.ok:
                        fails.append(("liveness", "%s at %d:%d got no response: server %s: %s" % (
                            method, l, c, r.kind, " ".join(r.stderr.split("panicked at")[-1].split())[:300]),
                            {"disk": {}, "events": [{"ev": "open", "file": ENTRY, "text": t},
                                                    {"ev": "req", "method": method, "file": ENTRY, "line": l, "ch": c, "cls": "grid"}]}))
                        return
                    if method.endswith("prepareRename"):
                        if "panic" in mr["prepare"]:
                            out.tie.append(("correspondence:prepare_rename", "the model panics at %d:%d, the server answers" % (l, c), {"text": t}))
                        elif r.value is not None:
                            rg = r.value.get("range", r.value)
                            got = [rg["start"]["character"], rg["end"]["character"]]
                            out.bump("grid_prepare_ranges")
                            if mr["prepare"]["ok"] != got or rg["start"]["line"] != l:
                                out.tie.append(("correspondence:prepare_rename", "at %d:%d the server answers %s, the model %s" % (l, c, got, mr["prepare"]), {"text": t}))
                            for p in range_problems(rg, line_table(t), "prepareRename range"):
                                fails.append(("range", p, {"disk": {}, "events": [{"ev": "open", "file": ENTRY, "text": t}, {"ev": "req", "method": method, "file": ENTRY, "line": l, "ch": c, "cls": "grid"}]}))
                        elif mr["prepare"].get("ok") is None:
                            out.bump("grid_prepare_null_agreed")
        sig = ("grid", t)
        if sig not in out.distinct:
            out.distinct.add(sig)
            out.nontrivial += 1


# ----------------------------------------------------------------------------- corpus
def load_corpus():
    d = os.path.join(common.ROOT, "corpus", "C14")
    out = []
    if os.path.isdir(d):
        for fn in sorted(os.listdir(d)):
            if fn.endswith(".json"):
                h = json.load(open(os.path.join(d, fn), encoding="utf-8"))
                h["name"] = fn
                out.append(h)
    return out


def shrink(mos, hist, workdir, kind):
    """drop events while a failure of the same kind remains (greedy, one pass from the end)"""
    ev = list(hist["events"])
    i = len(ev) - 2
    budget = 40
    while i >= 0 and budget > 0:
        cand = ev[:i] + ev[i + 1:]
        budget -= 1
        f = check_history(mos, {"disk": hist["disk"], "events": cand}, workdir, Outcome())
        if f and f[0][0] == kind:
            ev = cand[:f[0][2] + 1]
            i = min(i, len(ev) - 1)
        i -= 1
    return {"disk": hist["disk"], "events": ev}


def run(chk):
    rng = random.Random(chk.seed)
    thorough = chk.tier == "thorough"
    chk.proof = common.prove("C14")
    mos = common.build_mos()
    model = Proc([common.build_model("c14")], timeout=60)
    probe = Proc([mos, "verif-probe"], timeout=60)
    workdir = os.path.join(common.CACHE, "work")
    os.makedirs(workdir, exist_ok=True)
    out = Outcome()
    n_hist = 1200 if thorough else 40
    # VERIF_C14_SKIP_CORPUS=1 is for self-tests of the generators only (tools/mutcheck): registered runs always start with the corpus
    corpus = [] if os.environ.get("VERIF_C14_SKIP_CORPUS") else load_corpus()
    hists = corpus + [g_hist.gen_history(rng) for _ in range(n_hist)]
    seen_fail_kinds = {}

    def report(kind, what, hist_for_replay, origin):
        key = (kind, re.sub(r"\d+", "N", what)[:70])
        seen_fail_kinds[key] = seen_fail_kinds.get(key, 0) + 1
        if seen_fail_kinds[key] == 1:
            chk.oracle_failure(None, "%s: %s" % (kind, what), {"history": hist_for_replay, "kind": kind, "from": origin})

    for hi, hist in enumerate(hists):
        origin = hist.get("name", "generated-%d" % hi)
        fails = check_history(mos, hist, workdir, out, model=model)
        chk.sample({"history": origin, "events": len(hist["events"]), "first_events": [
            {k: (v if k != "text" else v[:80]) for k, v in e.items()} for e in hist["events"][:3]]}, limit=3)
        for kind, what, idx in fails[:3]:
            key = (kind, re.sub(r"\d+", "N", what)[:70])
            if key in seen_fail_kinds:
                seen_fail_kinds[key] += 1
                continue
            small = {"disk": hist["disk"], "events": hist["events"][:idx + 1]}
            if "server timeout" not in what:      # a silent server costs the full timeout per attempt: keep the history as it is
                small = shrink(mos, small, workdir, kind)
            report(kind, what, small, origin)
    gfails = []
    positions_grid(rng, mos, model, workdir, 12 if thorough else 3, out, gfails)
    for kind, what, h in gfails:
        report(kind, what, h, "positions-grid")
    correspond_codemap(rng, probe, model, 1500 if thorough else 150, out)
    correspond_deltas(rng, probe, model, 3000 if thorough else 300, out)
    for kind, what, rp in out.probe_failures[:3]:
        chk.oracle_failure(None, "%s: %s" % (kind, what), rp)
    for item, detail, replay_ in out.tie:
        chk.tie_break(item, detail, replay_)
    model.stop()
    probe.stop()
    chk.count(out.requests + out.diag_checks + out.dist.get("codemap_items", 0) + out.dist.get("deltas_cases", 0),
              out.nontrivial + out.diag_nontrivial)
    chk.cov["rule"] = (
        "G-hist: corpus/C14 witnesses, then seeded histories of <= 40 events over main.asm + 2 importable files (+ names outside the "
        "project, non-file uris), files optionally on disk: didOpen / didChange (whole-text replacement and typing sequences that insert "
        "or delete one character per event) / didClose, interleaved with all 13 registered request types at positions of the classes "
        "ident, any, eol1, eolfar, eofline, eoffar, inchar, huge, nofile.  After EVERY event the history server is compared with a fresh "
        "server given only the current buffers (diagnostics per file after notifications; the answer after requests), every returned "
        "range is checked against the document it names and semantic tokens are decoded.  A case is distinct by (buffer contents, "
        "request) resp. (buffer contents) and non-trivial when the request is out of range or the answer / a diagnostics list is "
        "non-empty.  Plus: prepareRename/completion on a grid of all columns (model-predicted ranges), and model-vs-implementation "
        "runs of source_line / find_line_col on every byte offset and of to_deltas on random span lists through `mos verif-probe`.")
    chk.extra["distribution"] = dict(out.dist, histories=len(hists), max_request_latency_s=round(LAT[0], 3), request_timeout_s=REQ_TIMEOUT, requests=out.requests, diag_checks=out.diag_checks,
                                     distinct_nontrivial_requests=out.nontrivial, distinct_nontrivial_diag=out.diag_nontrivial)
    chk.assumptions = [
        "the analysis (parse + codegen) is abstract in the bookkeeping theorems: a deterministic function of what the parsing source "
        "returns (world_ok); that the real perform_codegen is one is what the history-vs-fresh oracle tests",
        "JSON-RPC framing, lsp-server's threads and process exit are runtime: observed over stdio, not modelled",
        "columns: the server treats `character` as a count of Unicode scalars; well-formedness of returned ranges is checked in UTF-16 "
        "units (scalars <= UTF-16 units, so containment carries over; exact columns for astral characters are not part of C14)",
        "char::is_alphanumeric outside ASCII is a parameter of the model, instantiated per case from Python's str.isalnum on the "
        "characters the generators use",
        "positions covered by more than one definition (F-C16a) are excluded from the comparison of hover/definition/rename answers",
    ]
    return chk.finish(extra_trusted=[
        "drivers/lsp_client.py (LSP framing, request/response matching), gen/g_hist.py, canonicalisation in checks/c14.py",
        "hook H2: mos verif-probe commands c14_deltas, c14_codemap (mos/src/verif_c14.rs)",
        "extract/driver_c14.ml: symbolic instantiation of the abstract analysis (one id per distinct overlay)"])


def replay(chk, path):
    obj = json.load(open(path, encoding="utf-8"))
    mos = common.build_mos()
    if "replay" in obj and "probe" in obj["replay"]:
        r = Proc([mos, "verif-probe"]).call(obj["replay"]["probe"])
        probs = token_problems([x for d in r.get("data", []) for x in d], None)
        print(json.dumps({"request": obj["replay"]["probe"], "reply": r, "problems": probs}, indent=1, ensure_ascii=False))
        return 1 if probs else 0
    hist = obj["replay"]["history"] if "replay" in obj else obj
    workdir = os.path.join(common.CACHE, "work")
    os.makedirs(workdir, exist_ok=True)
    fails = check_history(mos, hist, workdir, Outcome(), stop_at_first=False)
    print(json.dumps({"events": hist["events"], "disk": hist["disk"], "failures": fails}, indent=1, ensure_ascii=False))
    return 1 if fails else 0
